(* C16 — executable model of aiohttp.cookiejar.CookieJar (the store exactly as the jar keeps it:
   cookies keyed (domain, path-key, name), the host-only side table keyed (domain, name), the
   deadline table and the expiry heap) and an RFC 6265 reference store.  Definitions only.

   Strings are lists of code points.  The Set-Cookie header / date / integer parsers and yarl are
   oracles: the model is fed the attribute record (`morsel`) the parser produced and the
   (scheme-is-secure, raw_host, path) triple of the URL. *)
From AV Require Import Lib.Base Generated.CookiesGen.
Open Scope N_scope.

(* ---------------------------------------------------------------- strings *)

Definition is_nil {A} (l : list A) : bool := match l with [] => true | _ => false end.

Fixpoint last_is (c : N) (s : str) : bool :=
  match s with
  | [] => false
  | [x] => x =? c
  | _ :: t => last_is c t
  end.

Definition first_is (c : N) (s : str) : bool :=
  match s with x :: _ => x =? c | [] => false end.

(* Some p  iff  s = p ++ suf *)
Fixpoint strip_suffix (s suf : str) : option str :=
  if list_eqb s suf then Some []
  else match s with
       | [] => None
       | c :: t => match strip_suffix t suf with Some p => Some (c :: p) | None => None end
       end.

(* every t with s = _ ++ sep :: t, longest first *)
Fixpoint tails_after (sep : N) (s : str) : list str :=
  match s with
  | [] => []
  | c :: t => (if c =? sep then [t] else []) ++ tails_after sep t
  end.

(* every p with s = p ++ sep :: _, shortest first *)
Fixpoint prefixes_before (sep : N) (s : str) : list str :=
  match s with
  | [] => []
  | c :: t => (if c =? sep then [[]] else []) ++ map (cons c) (prefixes_before sep t)
  end.

(* str.rstrip(sep) *)
Fixpoint rstrip (sep : N) (s : str) : str :=
  match s with
  | [] => []
  | c :: t => match rstrip sep t with
              | [] => if c =? sep then [] else [c]
              | t' => c :: t'
              end
  end.

(* s[: s.rfind(sep)]  (None when sep does not occur) *)
Fixpoint before_last (sep : N) (s : str) : option str :=
  match s with
  | [] => None
  | c :: t => match before_last sep t with
              | Some p => Some (c :: p)
              | None => if c =? sep then Some [] else None
              end
  end.

Definition is_digit (c : N) : bool := (48 <=? c) && (c <=? 57).

(* helpers.is_ip_address: `":" in host or host.replace(".", "").isdigit()` (ASCII hosts) *)
Definition is_ip (h : str) : bool :=
  memN 58 h ||
  (let r := filter (fun c => negb (c =? DOT)) h in negb (is_nil r) && forallb is_digit r).

(* CookieJar._is_domain_match(domain, hostname) *)
Definition is_domain_match (d h : str) : bool :=
  if list_eqb h d then true
  else match strip_suffix h d with
       | None => false
       | Some p =>
           (* non_matching = hostname[:-len(domain)]  (which is "" when len(domain) = 0) *)
           let non_matching := match d with [] => [] | _ => p end in
           if last_is DOT non_matching then negb (is_ip h) else false
       end.

(* accumulate(reversed(hostname.split(".")), "{1}.{0}".format): shortest suffix first *)
Definition dot_suffixes (h : str) : list str := rev (h :: tails_after DOT h).

(* accumulate(path.split("/"), "{}/{}".format): shortest prefix first *)
Definition path_prefixes (r : str) : list str := prefixes_before SLASH r ++ [r].

(* default path of update_cookies: "/" if the URL path does not start with "/",
   else "/" + path[1 : path.rfind("/")] *)
Definition default_path (upath : str) : str :=
  if first_is SLASH upath then
    match before_last SLASH upath with
    | Some [] | None => [SLASH]
    | Some p => p
    end
  else [SLASH].

(* ---------------------------------------------------------------- time
   time.time() is a float and Max-Age is added to it as it is, so two responses less than a second apart give
   deadlines less than a second apart.  The model measures every instant (now, deadlines, Expires values, clock
   advances) in ticks of 1/TICKS second; Max-Age stays an integer number of seconds.  The harness clock moves in
   whole ticks, which are exact in binary floating point, so the implementation's float arithmetic and
   comparisons agree with these integers exactly. *)
Definition TICKS : Z := 8.
Definition max_age_ticks (now d : Z) : Z := max_age_deadline_gen now (TICKS * d)%Z (TICKS * MAX_TIME)%Z.

(* ---------------------------------------------------------------- data *)

Record url := { u_secure : bool; u_host : str; u_path : str }.

Inductive maxage := MA_none | MA_invalid | MA_val (d : Z).
Inductive expires := EX_none | EX_invalid | EX_val (t : Z).

(* what parse_set_cookie_headers produced for one cookie; m_domain/m_path = [] when absent *)
Record morsel := {
  m_name : str; m_value : str; m_domain : str; m_path : str; m_secure : bool;
  m_maxage : maxage; m_expires : expires }.

Definition key := (str * str * str)%type.       (* domain, path.rstrip("/"), name *)
Definition key_eqb (a b : key) : bool :=
  let '(d1, p1, n1) := a in let '(d2, p2, n2) := b in
  list_eqb d1 d2 && list_eqb p1 p2 && list_eqb n1 n2.
Definition k_dom (k : key) : str := fst (fst k).
Definition k_path (k : key) : str := snd (fst k).
Definition k_name (k : key) : str := snd k.

Definition dn_eqb (a b : str * str) : bool := list_eqb (fst a) (fst b) && list_eqb (snd a) (snd b).

(* the stored Morsel: value, cookie["path"] (before rstrip), cookie["secure"];
   cookie["domain"] always equals the key's domain and is not duplicated *)
Record cookie := { c_value : str; c_path : str; c_secure : bool }.

Record jar := {
  j_unsafe : bool;
  j_touched : bool;     (* `self._cookies` (a defaultdict of groups) has had a group created since the last clear() *)
  j_cookies : list (key * cookie);
  j_host_only : list (str * str);
  j_expirations : list (key * Z);
  j_heap : list (Z * key) }.

Definition empty_jar (unsafe : bool) : jar :=
  {| j_unsafe := unsafe; j_touched := false; j_cookies := []; j_host_only := []; j_expirations := []; j_heap := [] |}.

(* association lists: insert replaces, lookup finds the first *)
Definition remove_key {V} (k : key) (l : list (key * V)) : list (key * V) :=
  filter (fun kv => negb (key_eqb (fst kv) k)) l.
Definition upsert {V} (k : key) (v : V) (l : list (key * V)) : list (key * V) :=
  (k, v) :: remove_key k l.
Fixpoint lookup {V} (k : key) (l : list (key * V)) : option V :=
  match l with
  | [] => None
  | (k', v) :: r => if key_eqb k' k then Some v else lookup k r
  end.
Definition mem_dn (x : str * str) (l : list (str * str)) : bool := existsb (dn_eqb x) l.
Definition add_dn (x : str * str) (l : list (str * str)) : list (str * str) :=
  if mem_dn x l then l else x :: l.
Definition remove_dn (x : str * str) (l : list (str * str)) : list (str * str) :=
  filter (fun y => negb (dn_eqb y x)) l.

Definition deadline_is (j : jar) (k : key) (w : Z) : bool :=
  match lookup k (j_expirations j) with Some w' => (w' =? w)%Z | None => false end.

(* ---------------------------------------------------------------- expiry *)

(* CookieJar._expire_cookie *)
Definition expire_cookie (j : jar) (w : Z) (k : key) : jar :=
  if deadline_is j k w then j
  else {| j_unsafe := j_unsafe j; j_touched := j_touched j; j_cookies := j_cookies j; j_host_only := j_host_only j;
          j_expirations := upsert k w (j_expirations j); j_heap := (w, k) :: j_heap j |}.

Definition name_remains (d n : str) (cs : list (key * cookie)) : bool :=
  existsb (fun kc => list_eqb (k_dom (fst kc)) d && list_eqb (k_name (fst kc)) n) cs.

(* one iteration of CookieJar._delete_cookies *)
Definition delete_cookie (j : jar) (k : key) : jar :=
  let cs := remove_key k (j_cookies j) in
  {| j_unsafe := j_unsafe j; j_touched := true; j_cookies := cs;
     j_host_only := if name_remains (k_dom k) (k_name k) cs then j_host_only j
                    else remove_dn (k_dom k, k_name k) (j_host_only j);
     j_expirations := remove_key k (j_expirations j); j_heap := j_heap j |}.

Definition delete_cookies (j : jar) (ks : list key) : jar := fold_left delete_cookie ks j.

Definition set_heap (j : jar) (h : list (Z * key)) : jar :=
  {| j_unsafe := j_unsafe j; j_touched := j_touched j; j_cookies := j_cookies j; j_host_only := j_host_only j;
     j_expirations := j_expirations j; j_heap := h |}.

(* CookieJar._do_expiration *)
Definition do_expiration (j : jar) (now : Z) : jar :=
  if is_nil (j_heap j) then j else
  let h := if heap_cleanup_due (lenN (j_heap j)) (lenN (j_expirations j))
           then filter (fun e => deadline_is j (snd e) (fst e)) (j_heap j) else j_heap j in
  let popped := filter (fun e => negb (heap_entry_stays (fst e) now)) h in
  let stay := filter (fun e => heap_entry_stays (fst e) now) h in
  let to_del := map snd (filter (fun e => deadline_is j (snd e) (fst e)) popped) in
  delete_cookies (set_heap j stay) to_del.

(* ---------------------------------------------------------------- update_cookies *)

Definition set_host_only (j : jar) (ho : list (str * str)) : jar :=
  {| j_unsafe := j_unsafe j; j_touched := j_touched j; j_cookies := j_cookies j; j_host_only := ho;
     j_expirations := j_expirations j; j_heap := j_heap j |}.
Definition set_cookies (j : jar) (cs : list (key * cookie)) : jar :=
  {| j_unsafe := j_unsafe j; j_touched := true; j_cookies := cs; j_host_only := j_host_only j;
     j_expirations := j_expirations j; j_heap := j_heap j |}.

(* cookie["path"] after the default-path step *)
Definition cookie_path (u : url) (m : morsel) : str :=
  if first_is SLASH (m_path m) then m_path m else default_path (u_path u).

(* the domain the jar stores the cookie under (after trailing-dot / host-only / leading-dot steps) *)
Definition effective_domain (u : url) (m : morsel) : str :=
  let d1 := if last_is DOT (m_domain m) then [] else m_domain m in
  let d2 := if is_nil d1 then u_host u else d1 in
  if first_is DOT d2 then tl d2 else d2.

Definition marks_host_only (m : morsel) : bool :=
  is_nil (if last_is DOT (m_domain m) then [] else m_domain m).

(* body of the `for name, cookie in cookies` loop (the response URL always has a host here) *)
Definition update1 (u : url) (now : Z) (j : jar) (m : morsel) : jar :=
  let hostname := u_host u in
  let name := m_name m in
  let j1 := if marks_host_only m then set_host_only j (add_dn (hostname, name) (j_host_only j)) else j in
  let d := effective_domain u m in
  if negb (is_nil hostname) && negb (is_domain_match d hostname) then j1
  else
    let cpath := cookie_path u m in
    let k := (d, rstrip SLASH cpath, name) in
    let via_expires := match m_expires m with
                       | EX_val t => if expires_value_used t then expire_cookie j1 t k else j1
                       | _ => j1
                       end in
    let j2 := match m_maxage m with
              | MA_val dl => expire_cookie j1 (max_age_ticks now dl) k
              | MA_invalid => if invalid_max_age_uses_expires then via_expires else j1
              | MA_none => via_expires
              end in
    set_cookies j2 (upsert k {| c_value := m_value m; c_path := cpath; c_secure := m_secure m |} (j_cookies j2)).

Definition update (j : jar) (u : url) (ms : list morsel) (now : Z) : jar :=
  if negb (j_unsafe j) && is_ip (u_host u) then j
  else do_expiration (fold_left (update1 u now) ms j) now.

(* ---------------------------------------------------------------- clear *)

Definition clear_all (j : jar) : jar := empty_jar (j_unsafe j).

Definition clear_pred (j : jar) (now : Z) (pred : key -> cookie -> bool) : jar :=
  let to_del := map fst (filter (fun kc =>
      (match lookup (fst kc) (j_expirations j) with Some w => clear_drops_deadline w now | None => false end)
      || pred (fst kc) (snd kc)) (j_cookies j)) in
  delete_cookies j to_del.

Definition clear_domain (j : jar) (now : Z) (d : str) : jar :=
  clear_pred j now (fun k _ => is_domain_match d (k_dom k)).

(* ---------------------------------------------------------------- filter_cookies *)

Definition dict := list (str * str).
Fixpoint dict_set (n v : str) (l : dict) : dict :=
  match l with
  | [] => [(n, v)]
  | (n', v') :: r => if list_eqb n' n then (n, v) :: r else (n', v') :: dict_set n v r
  end.
Definition dict_of (emits : list (str * str)) : dict :=
  fold_left (fun d nv => dict_set (fst nv) (snd nv) d) emits [].

Definition sendable (j : jar) (u : url) (kc : key * cookie) : bool :=
  let '(k, c) := kc in
  negb (mem_dn (k_dom k, k_name k) (j_host_only j) && negb (list_eqb (k_dom k) (u_host u)))
  && starts_with (c_path c) (u_path u)         (* request_url.path.startswith(cookie["path"]) *)
  && negb (negb (u_secure u) && c_secure c).

Definition group (j : jar) (d p : str) : list (key * cookie) :=
  filter (fun kc => list_eqb (k_dom (fst kc)) d && list_eqb (k_path (fst kc)) p) (j_cookies j).

Definition emit (kc : key * cookie) : str * str := (k_name (fst kc), c_value (snd kc)).

(* the (name, value) assignments made to `filtered`, in order *)
Definition filter_emits (j : jar) (u : url) : list (str * str) :=
  let shared := map emit (group j [] []) in
  let hostname := u_host u in
  if is_ip hostname && negb (j_unsafe j) then shared
  else
    let domains := if is_ip hostname then [hostname] else dot_suffixes hostname in
    let paths := path_prefixes (u_path u) in
    shared ++
    flat_map (fun d => flat_map (fun p => map emit (filter (sendable j u) (group j d p))) paths) domains.

Definition touch (j : jar) : jar :=
  {| j_unsafe := j_unsafe j; j_touched := true; j_cookies := j_cookies j; j_host_only := j_host_only j;
     j_expirations := j_expirations j; j_heap := j_heap j |}.

(* `if not self._cookies: return filtered` looks at the dict of groups, which is empty only while
   no group has been created since the last clear(); then _do_expiration() is skipped as well *)
Definition filter_cookies (j : jar) (u : url) (now : Z) : jar * dict :=
  if negb (j_touched j) then (j, [])
  else let j' := do_expiration j now in (touch j', dict_of (filter_emits j' u)).

(* ---------------------------------------------------------------- save / load *)

Record saved := { sv_key : key; sv_cookie : cookie; sv_host_only : bool; sv_deadline : option Z }.

Definition save (j : jar) : list saved :=
  map (fun kc => {| sv_key := fst kc; sv_cookie := snd kc;
                    sv_host_only := mem_dn (k_dom (fst kc), k_name (fst kc)) (j_host_only j);
                    sv_deadline := lookup (fst kc) (j_expirations j) |}) (j_cookies j).

(* one iteration of _load_json_data: the cookie goes through update_cookies with the URL
   https://<domain>, relative expiry attributes are not persisted, the deadline is restored *)
Definition load1 (now : Z) (j : jar) (s : saved) : jar :=
  let '(d, p, n) := sv_key s in
  let m := {| m_name := n; m_value := c_value (sv_cookie s);
              m_domain := if sv_host_only s then [] else d;
              m_path := c_path (sv_cookie s); m_secure := c_secure (sv_cookie s);
              m_maxage := MA_none; m_expires := EX_none |} in
  let j1 := update j {| u_secure := true; u_host := d; u_path := [SLASH] |} [m] now in
  match sv_deadline s with Some w => expire_cookie j1 w (d, p, n) | None => j1 end.

Definition load (j : jar) (data : list saved) (now : Z) : jar :=
  do_expiration (fold_left (load1 now) data (clear_all j)) now.

Definition save_load (j : jar) (now : Z) : jar := load j (save j) now.

(* ---------------------------------------------------------------- histories *)

Inductive op :=
| OSet (u : url) (ms : list morsel)
| OAdvance (dt : N)
| OClear
| OClearDomain (d : str)
| OSaveLoad
| OFilter (u : url).

Definition step (st : jar * Z) (o : op) : (jar * Z) * option dict :=
  let '(j, now) := st in
  match o with
  | OSet u ms => ((update j u ms now, now), None)
  | OAdvance dt => ((j, (now + Z.of_N dt)%Z), None)
  | OClear => ((clear_all j, now), None)
  | OClearDomain d => ((clear_domain j now d, now), None)
  | OSaveLoad => ((save_load j now, now), None)
  | OFilter u => let '(j', out) := filter_cookies j u now in ((j', now), Some out)
  end.

Fixpoint run (st : jar * Z) (ops : list op) : (jar * Z) * list dict :=
  match ops with
  | [] => (st, [])
  | o :: r => let '(st', out) := step st o in
              let '(stf, outs) := run st' r in
              (stf, match out with Some d => d :: outs | None => outs end)
  end.

(* ================================================================ RFC 6265 reference store *)

(* 5.1.3 domain-match (the "string" is the request host, already canonical) *)
Definition rfc_domain_match (d h : str) : bool :=
  list_eqb d h ||
  (match strip_suffix h d with
   | Some p => last_is DOT p && negb (is_nil d)
   | None => false
   end && negb (is_ip h)).

(* 5.1.4 path-match (cookie-path c, request-path r) *)
Definition rfc_path_match (c r : str) : bool :=
  list_eqb c r ||
  (starts_with c r &&
   (last_is SLASH c || first_is SLASH (skipn (length c) r))).

Record rcookie := {
  r_name : str; r_value : str; r_domain : str; r_path : str;
  r_host_only : bool; r_secure : bool; r_expiry : option Z }.

Definition rstore := list rcookie.

Definition r_same_id (a b : rcookie) : bool :=
  list_eqb (r_name a) (r_name b) && list_eqb (r_domain a) (r_domain b) && list_eqb (r_path a) (r_path b).

(* 5.2.3: a Domain attribute that is empty (or, as the jar, ends with ".") is ignored; one leading "." is dropped *)
Definition rfc_domain_attr (m : morsel) : str :=
  let d := if last_is DOT (m_domain m) then [] else m_domain m in
  if first_is DOT d then tl d else d.

(* 5.2.2 / 5.3 step 3: Max-Age wins over Expires; an invalid Max-Age is ignored *)
Definition rfc_expiry (m : morsel) (now : Z) : option Z :=
  match m_maxage m with
  | MA_val d => Some (now + TICKS * d)%Z
  | _ => match m_expires m with EX_val t => Some t | _ => None end
  end.

(* 5.3 storage model for one received cookie *)
Definition rfc_set1 (u : url) (now : Z) (s : rstore) (m : morsel) : rstore :=
  let dattr := rfc_domain_attr m in
  let accept_dom :=
    if is_nil dattr then Some (true, u_host u)
    else if rfc_domain_match dattr (u_host u) then Some (false, dattr) else None in
  match accept_dom with
  | None => s
  | Some (ho, dom) =>
      let c := {| r_name := m_name m; r_value := m_value m; r_domain := dom;
                  r_path := if first_is SLASH (m_path m) then m_path m else default_path (u_path u);
                  r_host_only := ho; r_secure := m_secure m; r_expiry := rfc_expiry m now |} in
      c :: filter (fun x => negb (r_same_id x c)) s
  end.

Definition r_live (c : rcookie) (now : Z) : bool :=
  match r_expiry c with Some e => (now <? e)%Z | None => true end.

(* 5.4 step 1: which stored cookies go into the Cookie header for this request *)
Definition rfc_sendable (u : url) (now : Z) (c : rcookie) : bool :=
  (if r_host_only c then list_eqb (r_domain c) (u_host u) else rfc_domain_match (r_domain c) (u_host u))
  && rfc_path_match (r_path c) (u_path u)
  && (negb (r_secure c) || u_secure u)
  && r_live c now.

Definition rfc_filter (s : rstore) (u : url) (now : Z) : list (str * str) :=
  map (fun c => (r_name c, r_value c)) (filter (rfc_sendable u now) s).

(* `unsafe` is the jar's configuration: unless it is set, Set-Cookie headers of responses from IP-address
   hosts are ignored altogether (RFC 6265 5.2: "the user agent MAY ignore the Set-Cookie header") *)
Definition rfc_set (unsafe : bool) (s : rstore) (u : url) (ms : list morsel) (now : Z) : rstore :=
  if negb unsafe && is_ip (u_host u) then s else fold_left (rfc_set1 u now) ms s.

Definition rfc_step (unsafe : bool) (st : rstore * Z) (o : op) : (rstore * Z) * option (list (str * str)) :=
  let '(s, now) := st in
  match o with
  | OSet u ms => ((rfc_set unsafe s u ms now, now), None)
  | OAdvance dt => ((s, (now + Z.of_N dt)%Z), None)
  | OClear => (([], now), None)
  | OClearDomain d => ((filter (fun c => negb (rfc_domain_match d (r_domain c))) s, now), None)
  | OSaveLoad => ((s, now), None)
  | OFilter u => ((s, now), Some (rfc_filter s u now))
  end.

Fixpoint rfc_run (unsafe : bool) (st : rstore * Z) (ops : list op) : (rstore * Z) * list (list (str * str)) :=
  match ops with
  | [] => (st, [])
  | o :: r => let '(st', out) := rfc_step unsafe st o in
              let '(stf, outs) := rfc_run unsafe st' r in
              (stf, match out with Some d => d :: outs | None => outs end)
  end.
