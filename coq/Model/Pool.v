(* C07 — executable model of aiohttp.connector.BaseConnector's slot accounting, at await
   granularity (labelled transition system; definitions only).

   One request = one task calling connect() once.  Atomic steps (what runs between two
   suspension points of the real coroutine, with traces=[]):
     EStart      connect(): capacity; if positive _get (idle reuse); else enqueue waiter; else placeholder
     EResume     a waiter task resumes after `await fut` (woken / cancelled / woken-then-cancelled)
     ECancel     task.cancel() reaches a task suspended on its waiter future
     ECreateOk   _create_connection returned: swap placeholder for the connection (or, closed: close it)
     ECreateFail _create_connection raised / was cancelled: _release_acquired(placeholder)
     ERelease    Connection.release()/close(): _release
     EClose      BaseConnector._close_immediately
   A closed connector refuses to queue a waiter (the request fails with ClientConnectionError) and
   close clears the per-host book: both facts are read from the source by the translator.
   `order` is the outcome of random.shuffle(list(self._waiters)) inside _release_waiter.
   The capacity formula and its three call-site comparisons come from Generated/PoolGen.v. *)
From AV Require Import Lib.Base Generated.PoolGen.
Open Scope N_scope.

Definition key := N.
Definition task := N.
Definition conn := N.

Inductive slot := SPh (t : task) | SConn (c : conn).

Definition slot_eqb (a b : slot) : bool :=
  match a, b with
  | SPh x, SPh y => x =? y
  | SConn x, SConn y => x =? y
  | _, _ => false
  end.

(* state of the future a waiting task is suspended on *)
Inductive fstate := FPending | FWoken | FCancelled | FWokenCancel.

Inductive pc :=
| PIdle                              (* connect() not called yet *)
| PWaiting (k : key) (f : fstate)    (* suspended in _wait_for_available_connection *)
| PCreating (k : key)                (* suspended in _create_connection, placeholder held *)
| PHolding (k : key) (c : conn)      (* connect() returned a Connection *)
| PDone                              (* connection released *)
| PFailed                            (* connect() raised (creation failed / connector closed) *)
| PCancelled.                        (* connect() raised CancelledError / TimeoutError while waiting *)

Record cfg := { limit : Z; lph : Z; force_close : bool }.

Record state := {
  acquired : list slot;              (* self._acquired *)
  hostacq : list (slot * key);       (* self._acquired_per_host (maintained only when lph <> 0) *)
  idle : list (conn * key);          (* self._conns, FIFO per key *)
  waiters : list (task * key * bool);(* self._waiters: FIFO per key; bool = future cancelled *)
  woken : list task;                 (* waiters whose future has a result and that have not resumed *)
  pcs : list (task * pc);
  closed : bool;
  nconn : N;                         (* connections created so far are 0 .. nconn-1 *)
  closedc : list conn                (* connections whose transport was closed by the connector *)
}.

Definition init : state :=
  {| acquired := []; hostacq := []; idle := []; waiters := []; woken := []; pcs := [];
     closed := false; nconn := 0; closedc := [] |}.

Inductive event :=
| EStart (t : task) (k : key)
| EResume (t : task) (order : list key)
| ECancel (t : task)
| ECreateOk (t : task)
| ECreateFail (t : task) (order : list key)
| ERelease (t : task) (close : bool) (order : list key)
| EClose.

(* ---- small helpers ---------------------------------------------------------------------- *)

Fixpoint get_pc (l : list (task * pc)) (t : task) : pc :=
  match l with
  | [] => PIdle
  | (t', p) :: r => if t' =? t then p else get_pc r t
  end.

Definition set_pc (l : list (task * pc)) (t : task) (p : pc) : list (task * pc) :=
  (t, p) :: filter (fun x => negb (fst x =? t)) l.

Definition count_host (k : key) (l : list (slot * key)) : nat :=
  length (filter (fun x => snd x =? k) l).

Definition avail (c : cfg) (s : state) (k : key) : Z :=
  available_connections (limit c) (lph c)
    (Z.of_nat (length (acquired s))) (Z.of_nat (count_host k (hostacq s))).

Definition per_host (c : cfg) : bool := negb (Z.eqb (lph c) 0).

Definition add_slot (c : cfg) (s : state) (sl : slot) (k : key) : state :=
  {| acquired := sl :: acquired s;
     hostacq := if per_host c then (sl, k) :: hostacq s else hostacq s;
     idle := idle s; waiters := waiters s; woken := woken s; pcs := pcs s; closed := closed s;
     nconn := nconn s; closedc := closedc s |}.

Definition del_slot (s : state) (sl : slot) : state :=
  {| acquired := filter (fun x => negb (slot_eqb x sl)) (acquired s);
     hostacq := filter (fun x => negb (slot_eqb (fst x) sl)) (hostacq s);
     idle := idle s; waiters := waiters s; woken := woken s; pcs := pcs s; closed := closed s;
     nconn := nconn s; closedc := closedc s |}.

Definition with_pc (s : state) (t : task) (p : pc) : state :=
  {| acquired := acquired s; hostacq := hostacq s; idle := idle s; waiters := waiters s;
     woken := woken s; pcs := set_pc (pcs s) t p; closed := closed s; nconn := nconn s;
     closedc := closedc s |}.

Definition with_waiters (s : state) (w : list (task * key * bool)) : state :=
  {| acquired := acquired s; hostacq := hostacq s; idle := idle s; waiters := w;
     woken := woken s; pcs := pcs s; closed := closed s; nconn := nconn s; closedc := closedc s |}.

Definition with_woken (s : state) (w : list task) : state :=
  {| acquired := acquired s; hostacq := hostacq s; idle := idle s; waiters := waiters s;
     woken := w; pcs := pcs s; closed := closed s; nconn := nconn s; closedc := closedc s |}.

Definition with_idle (s : state) (i : list (conn * key)) : state :=
  {| acquired := acquired s; hostacq := hostacq s; idle := i; waiters := waiters s;
     woken := woken s; pcs := pcs s; closed := closed s; nconn := nconn s; closedc := closedc s |}.

Definition with_closedc (s : state) (l : list conn) : state :=
  {| acquired := acquired s; hostacq := hostacq s; idle := idle s; waiters := waiters s;
     woken := woken s; pcs := pcs s; closed := closed s; nconn := nconn s; closedc := l |}.

Definition bump_conn (s : state) : state :=
  {| acquired := acquired s; hostacq := hostacq s; idle := idle s; waiters := waiters s;
     woken := woken s; pcs := pcs s; closed := closed s; nconn := nconn s + 1;
     closedc := closedc s |}.

(* _get: leftmost idle connection of the key (all idle connections are connected and fresh in
   this model: no peer close / keep-alive expiry while pooled) *)
Fixpoint take_idle (k : key) (l : list (conn * key)) : option (conn * list (conn * key)) :=
  match l with
  | [] => None
  | (c, k') :: r =>
      if k' =? k then Some (c, r)
      else match take_idle k r with
           | Some (c', r') => Some (c', (c, k') :: r')
           | None => None
           end
  end.

(* the part of connect() after the capacity question is settled: second _get, else placeholder *)
Definition proceed (c : cfg) (s : state) (t : task) (k : key) : state :=
  match take_idle k (idle s) with
  | Some (cn, rest) => with_pc (add_slot c (with_idle s rest) (SConn cn) k) t (PHolding k cn)
  | None => with_pc (add_slot c s (SPh t) k) t (PCreating k)
  end.

(* _release_waiter: one key: pop from the front of that key's queue until a pending future is
   found (popped cancelled ones are dropped) *)
Fixpoint wake_key (k : key) (w : list (task * key * bool)) : list (task * key * bool) * option task :=
  match w with
  | [] => ([], None)
  | (t, k', canc) :: r =>
      if k' =? k then
        if canc then wake_key k r else (r, Some t)
      else let '(r', o) := wake_key k r in ((t, k', canc) :: r', o)
  end.

Fixpoint release_loop (c : cfg) (s : state) (order : list key) : state :=
  match order with
  | [] => s
  | k :: rest =>
      if release_skips_key (avail c s k) then release_loop c s rest
      else match wake_key k (waiters s) with
           | (w', Some t) =>
               with_pc (with_woken (with_waiters s w') (t :: woken s)) t (PWaiting k FWoken)
           | (w', None) => release_loop c (with_waiters s w') rest
           end
  end.

(* the shuffled key list must contain every key that has a queue entry *)
Definition covers (order : list key) (w : list (task * key * bool)) : bool :=
  forallb (fun x => memN (snd (fst x)) order) w.

Definition release_waiter (c : cfg) (s : state) (order : list key) : option state :=
  if covers order (waiters s) then Some (release_loop c s order) else None.

(* _release_acquired *)
Definition release_acquired (c : cfg) (s : state) (sl : slot) (order : list key) : option state :=
  if closed s then Some s else release_waiter c (del_slot s sl) order.

Definition replace_slot (a b : slot) (x : slot) : slot := if slot_eqb x a then b else x.

Definition swap_slot (s : state) (a b : slot) : state :=
  {| acquired := map (replace_slot a b) (acquired s);
     hostacq := map (fun x => (replace_slot a b (fst x), snd x)) (hostacq s);
     idle := idle s; waiters := waiters s; woken := woken s; pcs := pcs s; closed := closed s;
     nconn := nconn s; closedc := closedc s |}.

Definition conns_of (l : list slot) : list conn :=
  flat_map (fun x => match x with SConn c => [c] | SPh _ => [] end) l.

Definition cancel_entry (t : task) (x : task * key * bool) : task * key * bool :=
  if fst (fst x) =? t then (fst x, true) else x.

(* futures of all queued waiters are cancelled by close *)
Fixpoint cancel_all (w : list (task * key * bool)) (p : list (task * pc)) : list (task * pc) :=
  match w with
  | [] => p
  | (t, k, canc) :: r =>
      cancel_all r (if canc then p else set_pc p t (PWaiting k FCancelled))
  end.

(* top of the loop in _wait_for_available_connection: a closed connector refuses to queue *)
Definition refuse_wait (s : state) : bool := wait_checks_closed && closed s.

(* end of a loop iteration in _wait_for_available_connection: a woken waiter that found no slot hands
   the wake-up on (self._release_waiter()) before it queues again *)
Definition hand_on (c : cfg) (s : state) (order : list key) : option state :=
  if requeue_hands_on then release_waiter c s order else Some s.

(* connect() after the fast path: wait (or be refused by a closed connector), or go on *)
Definition start_tail (c : cfg) (s : state) (t : task) (k : key) : option state :=
  if connect_must_wait (avail c s k)
  then (if refuse_wait s then Some (with_pc s t PFailed)
        else Some (with_pc (with_waiters s (waiters s ++ [(t, k, false)])) t (PWaiting k FPending)))
  else Some (proceed c s t k).

(* a woken waiter found no slot: hand the wake-up on, then queue again at the front (or be refused) *)
Definition requeue (c : cfg) (s1 : state) (t : task) (k : key) (order : list key) : option state :=
  match hand_on c s1 order with
  | Some s2 =>
      if refuse_wait s2 then Some (with_pc s2 t PFailed)
      else Some (with_pc (with_waiters s2 ((t, k, false) :: waiters s2)) t (PWaiting k FPending))
  | None => None
  end.

Definition step (c : cfg) (s : state) (e : event) : option state :=
  match e with
  | EStart t k =>
      match get_pc (pcs s) t with
      | PIdle =>
          (* fast path: the first _get runs only while the limits leave room *)
          match (if connect_fast_path (avail c s k) then take_idle k (idle s) else None) with
          | Some _ => Some (proceed c s t k)
          | None => start_tail c s t k
          end
      | _ => None
      end
  | EResume t order =>
      match get_pc (pcs s) t with
      | PWaiting k FWoken =>
          let s1 := with_woken s (filter (fun x => negb (x =? t)) (woken s)) in
          if wait_slot_found (avail c s1 k) then Some (proceed c s1 t k)
          else requeue c s1 t k order
      | PWaiting k FCancelled =>
          Some (with_pc (with_waiters s (filter (fun x => negb (fst (fst x) =? t)) (waiters s))) t PCancelled)
      | PWaiting k FWokenCancel =>
          let s1 := with_woken s (filter (fun x => negb (x =? t)) (woken s)) in
          match release_waiter c s1 order with
          | Some s2 => Some (with_pc s2 t PCancelled)
          | None => None
          end
      | _ => None
      end
  | ECancel t =>
      match get_pc (pcs s) t with
      | PWaiting k FPending =>
          Some (with_pc (with_waiters s (map (cancel_entry t) (waiters s))) t (PWaiting k FCancelled))
      | PWaiting k FWoken => Some (with_pc s t (PWaiting k FWokenCancel))
      | _ => None
      end
  | ECreateOk t =>
      match get_pc (pcs s) t with
      | PCreating k =>
          let cn := nconn s in
          if closed s
          then Some (with_pc (with_closedc (bump_conn s) (cn :: closedc s)) t PFailed)
          else Some (with_pc (swap_slot (bump_conn s) (SPh t) (SConn cn)) t (PHolding k cn))
      | _ => None
      end
  | ECreateFail t order =>
      match get_pc (pcs s) t with
      | PCreating k =>
          match release_acquired c s (SPh t) order with
          | Some s1 => Some (with_pc s1 t PFailed)
          | None => None
          end
      | _ => None
      end
  | ERelease t cl order =>
      match get_pc (pcs s) t with
      | PHolding k cn =>
          if closed s then Some (with_pc s t PDone)
          else match release_acquired c s (SConn cn) order with
               | Some s1 =>
                   let s2 := if force_close c || cl
                             then with_closedc s1 (cn :: closedc s1)
                             else with_idle s1 (idle s1 ++ [(cn, k)]) in
                   Some (with_pc s2 t PDone)
               | None => None
               end
      | _ => None
      end
  | EClose =>
      if closed s then Some s
      else Some {| acquired := []; hostacq := (if close_clears_per_host then [] else hostacq s); idle := [];
                   waiters := []; woken := woken s;
                   pcs := cancel_all (waiters s) (pcs s); closed := true; nconn := nconn s;
                   closedc := map fst (idle s) ++ conns_of (acquired s) ++ closedc s |}
  end.

Fixpoint run (c : cfg) (s : state) (tr : list event) : option state :=
  match tr with
  | [] => Some s
  | e :: r => match step c s e with Some s' => run c s' r | None => None end
  end.

(* ---- observables used by the correspondence harness -------------------------------------- *)

Definition live_waiter (x : task * key * bool) : bool := negb (snd x).

Definition slots_in_use (s : state) : N := lenN (acquired s).

Definition host_in_use (s : state) (k : key) : N := N.of_nat (count_host k (hostacq s)).
