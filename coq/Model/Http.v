(* Model of aiohttp/http_parser.py: HttpRequestParser (strict mode, SEP = CRLF) with
   HeadersParser and HttpPayloadParser (length / chunked with trailers / CONNECT tunnel).
   Definitions only.  The payload consumer never pauses (no decompression, large read limit):
   pausing is C09's subject.  yarl is an oracle for authority-/absolute-form targets. *)
From AV Require Import Lib.Base Lib.BytesX Generated.HttpGen.
Open Scope N_scope.

Record limits := mkLimits { max_line : N; max_field : N; max_headers : N; max_queue : N }.

Inductive herr :=
| EBadMessage | EBadMethod | EBadStatus | ELineTooLong | EInvalidHeader | EInvalidUrl
| ETransferEncoding | EContentLength.

Record msg := mkMsg {
  m_method : bytes; m_target : bytes; m_vmaj : N; m_vmin : N;
  m_headers : list (bytes * bytes);          (* raw, in order, OWS-stripped *)
  m_close : bool; m_compression : option bytes; m_upgrade : bool; m_chunked : bool }.

(* POk value | PErr exception class | PAsk: the answer depends on yarl for this target *)
Inductive presult (A : Type) :=
| POk (a : A) | PErr (e : herr) | PAsk (connect : bool) (target : bytes).
Arguments POk {A} a. Arguments PErr {A} e. Arguments PAsk {A} connect target.

Definition oracle := list (bool * bytes * bool).   (* (is CONNECT, target, accepted by yarl) *)
Fixpoint ask (o : oracle) (connect : bool) (t : bytes) : option bool :=
  match o with
  | [] => None
  | (c, t', v) :: o' => if Bool.eqb c connect && list_eqb t t' then Some v else ask o' connect t
  end.

(* ---------------- HeadersParser.parse_headers (strict) ---------------- *)

Definition nonempty (s : bytes) : bool := match s with [] => false | _ => true end.

Definition parse_field (line : bytes) : presult (bytes * bytes) :=
  match split_first 58 line with
  | None => PErr EInvalidHeader
  | Some (bname, bvalue) =>
    match bname with
    | [] => PErr EInvalidHeader
    | f :: _ =>
      if is_ows f || is_ows (last bname 0) then PErr EInvalidHeader
      else if negb (forallb tchar bname) then PErr EInvalidHeader
      else let v := strip_ows bvalue in
           if existsb field_forbidden_ctl v then PErr EInvalidHeader
           else POk (bname, v)
    end
  end.

Definition is_singleton (name : bytes) : bool := mem_bytes (map lower name) singleton_headers.
Definition has_header (name : bytes) (hs : list (bytes * bytes)) : bool :=
  existsb (fun kv => ieqb (fst kv) name) hs.

(* lines: the field lines (the terminating empty line already removed); acc in order *)
Fixpoint parse_fields (lines : list bytes) (acc : list (bytes * bytes)) : presult (list (bytes * bytes)) :=
  match lines with
  | [] => POk acc
  | l :: ls =>
    match parse_field l with
    | POk (n, v) =>
      if has_header n acc && is_singleton n then PErr EBadMessage
      else parse_fields ls (acc ++ [(n, v)])
    | PErr e => PErr e
    | PAsk c t => PAsk c t
    end
  end.

(* msg.headers is a HeadersDictProxy: get() / [] return ALL values of the field joined with ", " *)
Fixpoint header_values (name : bytes) (hs : list (bytes * bytes)) : list bytes :=
  match hs with
  | [] => []
  | (k, v) :: hs' => if ieqb k name then v :: header_values name hs' else header_values name hs'
  end.
Fixpoint join_cs (vs : list bytes) : bytes :=
  match vs with
  | [] => []
  | v :: vs' => match vs' with [] => v | _ => v ++ [44; 32] ++ join_cs vs' end
  end.
Definition get_header (name : bytes) (hs : list (bytes * bytes)) : option bytes :=
  match header_values name hs with
  | [] => None
  | vs => Some (join_cs vs)
  end.

Definition h_connection : bytes := [99;111;110;110;101;99;116;105;111;110].
Definition h_upgrade : bytes := [117;112;103;114;97;100;101].
Definition h_content_encoding : bytes := [99;111;110;116;101;110;116;45;101;110;99;111;100;105;110;103].
Definition h_transfer_encoding : bytes := [116;114;97;110;115;102;101;114;45;101;110;99;111;100;105;110;103].
Definition h_content_length : bytes := [99;111;110;116;101;110;116;45;108;101;110;103;116;104].
Definition h_host : bytes := [104;111;115;116].
Definition h_sec_websocket_key1 : bytes := [115;101;99;45;119;101;98;115;111;99;107;101;116;45;107;101;121;49].
Definition t_close : bytes := [99;108;111;115;101].
Definition t_keep_alive : bytes := [107;101;101;112;45;97;108;105;118;101].
Definition t_upgrade : bytes := h_upgrade.
Definition t_chunked : bytes := [99;104;117;110;107;101;100].
Definition t_gzip : bytes := [103;122;105;112].
Definition t_deflate : bytes := [100;101;102;108;97;116;101].
Definition t_br : bytes := [98;114].
Definition t_zstd : bytes := [122;115;116;100].
Definition t_tcp : bytes := [116;99;112].
Definition t_websocket : bytes := [119;101;98;115;111;99;107;101;116].
Definition m_CONNECT : bytes := [67;79;78;78;69;67;84].
Definition m_OPTIONS : bytes := [79;80;84;73;79;78;83].

Definition comma_tokens (v : bytes) : list bytes := map strip_ows (split_all 44 v).
Definition conn_tokens (v : bytes) : list bytes :=
  map (map lower) (filter (fun t => nonempty t && is_ascii t) (comma_tokens v)).
Definition is_tok (tok : bytes) (p : bytes) : bool := is_ascii p && list_eqb (map lower p) tok.

(* HttpRequestParser._is_chunked_te *)
Definition is_chunked_te (te : bytes) : presult bool :=
  let parts := comma_tokens te in
  let n := length (filter (is_tok t_chunked) parts) in
  if (2 <=? N.of_nat n) then PErr EBadMessage
  else if is_tok t_chunked (last parts []) then POk true
  else PErr EBadMessage.

Record hinfo := mkHinfo { hi_close : option bool; hi_enc : option bytes; hi_upgrade : bool; hi_chunked : bool }.

(* HttpParser.parse_headers after the field list is known *)
Definition derive (hs : list (bytes * bytes)) : presult hinfo :=
  let conn := match get_header h_connection hs with Some v => v | None => [] end in
  let toks := conn_tokens conn in
  let close_conn :=
    if mem_bytes t_close toks then Some true
    else if mem_bytes t_keep_alive toks then Some false else None in
  let upg := mem_bytes t_upgrade toks &&
             match get_header h_upgrade hs with Some v => nonempty v | None => false end in
  let encv := match get_header h_content_encoding hs with Some v => v | None => [] end in
  let enc := if is_ascii encv && mem_bytes (map lower encv) [t_gzip; t_deflate; t_br; t_zstd]
             then Some (if content_encoding_lowered then map lower encv else encv) else None in
  match get_header h_transfer_encoding hs with
  | None => POk (mkHinfo close_conn enc upg false)
  | Some te =>
    match is_chunked_te te with
    | POk ch => if has_header h_content_length hs then PErr EBadMessage
                else POk (mkHinfo close_conn enc upg ch)
    | PErr e => PErr e
    | PAsk c t => PAsk c t
    end
  end.

(* ---------------- HttpRequestParser.parse_message ---------------- *)

Definition parse_version (v : bytes) : option (N * N) :=
  match v with
  | [c1; c2; c3; c4; c5; a; c7; b] =>
    if list_eqb [c1; c2; c3; c4; c5] [72; 84; 84; 80; 47] && (c7 =? 46) && dec_digit a && dec_digit b
    then Some (a - 48, b - 48) else None
  | _ => None
  end.

Definition check_target (o : oracle) (method target : bytes) : presult unit :=
  if existsb target_forbidden target then PErr EInvalidUrl
  else if list_eqb method m_CONNECT then
    match ask o true target with Some true => POk tt | Some false => PErr EInvalidUrl | None => PAsk true target end
  else if starts_with [47] target then POk tt
  else if list_eqb target [42] && list_eqb method m_OPTIONS then POk tt
  else match ask o false target with Some true => POk tt | Some false => PErr EInvalidUrl | None => PAsk false target end.

(* lines: request line :: field lines (terminating empty line removed) *)
Definition parse_request (o : oracle) (lines : list bytes) : presult msg :=
  match lines with
  | [] => PErr EBadMethod
  | rl :: fls =>
    match split_first 32 rl with
    | None => PErr EBadMethod
    | Some (m, r) =>
      match split_first 32 r with
      | None => PErr EBadMethod
      | Some (t, v) =>
        if negb (nonempty m && forallb tchar m) then PErr EBadMethod else
        let method := map upper m in
        match parse_version v with
        | None => PErr EBadStatus
        | Some (vmaj, vmin) =>
          match check_target o method t with
          | PErr e => PErr e
          | PAsk c x => PAsk c x
          | POk _ =>
            match parse_fields fls [] with
            | PErr e => PErr e
            | PAsk c x => PAsk c x
            | POk hs =>
              match derive hs with
              | PErr e => PErr e
              | PAsk c x => PAsk c x
              | POk hi =>
                if (vmaj =? 1) && (vmin =? 1) && negb (has_header h_host hs) then PErr EBadMessage
                else
                  let v10 := (vmaj <? 1) || ((vmaj =? 1) && (vmin <=? 0)) in
                  let close := match hi_close hi with Some c => c | None => v10 end in
                  POk (mkMsg method t vmaj vmin hs close (hi_enc hi) (hi_upgrade hi) (hi_chunked hi))
              end
            end
          end
        end
      end
    end
  end.

(* ---------------- payload ---------------- *)

Inductive cstate := CSize | CData (rem : N) | CDataEnd | CTrailers.
Inductive pkind := PLength (rem : N) | PChunked (c : cstate) | PUntilEof.
Record pstate := mkP { pk : pkind; ctail : bytes; tlines : list bytes (* in order *); max_trailers : N }.

(* what the caller can observe of one message: the parsed head, and what was fed to its payload
   stream (StreamReader): data, chunk boundaries (offsets in data), end of stream, exception *)
Record mrec := mkR {
  r_msg : msg; r_body : bool (* a real payload stream, not EMPTY_PAYLOAD *);
  r_data : bytes; r_splits : list N; r_eof : bool; r_exc : option herr }.

(* acc: newest message first *)
Definition acc := list mrec.
Definition upd_cur (f : mrec -> mrec) (a : acc) : acc :=
  match a with m :: r => f m :: r | [] => [] end.
Definition ev_msg (m : msg) (body : bool) (a : acc) : acc := mkR m body [] [] (negb body) None :: a.
Definition ev_data (d : bytes) : acc -> acc :=
  upd_cur (fun m => mkR (r_msg m) (r_body m) (r_data m ++ d) (r_splits m) (r_eof m) (r_exc m)).
Definition ev_chunk_end : acc -> acc :=
  upd_cur (fun m => mkR (r_msg m) (r_body m) (r_data m) (r_splits m ++ [lenN (r_data m)]) (r_eof m) (r_exc m)).
Definition ev_eof : acc -> acc :=
  upd_cur (fun m => mkR (r_msg m) (r_body m) (r_data m) (r_splits m) true (r_exc m)).
Definition ev_err (e : herr) : acc -> acc :=
  upd_cur (fun m => mkR (r_msg m) (r_body m) (r_data m) (r_splits m) (r_eof m) (Some e)).

Inductive pres :=
| PRNeed (p : pstate) (a : acc)                 (* PAYLOAD_NEEDS_INPUT *)
| PRDone (rest : bytes) (a : acc)               (* PAYLOAD_COMPLETE, unconsumed bytes *)
| PRFail (e : herr) (a : acc).                  (* exception *)

(* trailers are parsed by the same HeadersParser; a PAsk cannot occur there *)
Definition parse_trailers (lines : list bytes) : option herr :=
  match parse_fields lines [] with POk _ => None | PErr e => Some e | PAsk _ _ => Some EInvalidHeader end.

(* one pass of the `while chunk` loop of the chunked parser; fuel bounds the iterations *)
Fixpoint chunked_loop (fuel : nat) (lim : limits) (p : pstate) (c : cstate) (tl : list bytes)
         (chunk : bytes) (evs : acc) : pres :=
  match fuel with
  | O => PRFail EBadMessage evs     (* unreachable: fuel = S (length chunk) * 2 *)
  | S f =>
    match chunk with
    | [] => PRNeed (mkP (PChunked c) [] tl (max_trailers p)) evs
    | _ :: _ =>
      match c with
      | CSize =>
        match find_crlf chunk with
        | Some (line, rest) =>
          if max_line lim <? lenN line then PRFail ELineTooLong evs else
          let (size_b, ext_ok) :=
            match split_first 59 line with
            | Some (sz, ext) => (sz, negb (has_byte 10 ext))
            | None => (line, true)
            end in
          if negb ext_ok then PRFail ETransferEncoding evs
          else if negb (nonempty size_b && forallb hex_digit size_b) then PRFail ETransferEncoding evs
          else let size := parse_hex size_b in
               if size =? 0 then chunked_loop f lim p CTrailers tl rest evs
               else chunked_loop f lim p (CData size) tl rest evs
        | None =>
          if has_byte 10 chunk then PRFail ETransferEncoding evs
          else PRNeed (mkP (PChunked CSize) chunk tl (max_trailers p)) evs
        end
      | CData rem =>
        let '(d, rest) := takeN rem chunk in
        let left' := rem - lenN d in
        let evs' := ev_data d evs in
        if left' =? 0 then chunked_loop f lim p CDataEnd tl rest (ev_chunk_end evs')
        else PRNeed (mkP (PChunked (CData left')) [] tl (max_trailers p)) evs'
      | CDataEnd =>
        match chunk with
        | 13 :: 10 :: rest => chunked_loop f lim p CSize tl rest evs
        | [13] => PRNeed (mkP (PChunked CDataEnd) chunk tl (max_trailers p)) evs
        | _ => PRFail ETransferEncoding evs
        end
      | CTrailers =>
        match find_crlf chunk with
        | None =>
          if has_byte 10 chunk then PRFail ETransferEncoding evs
          else PRNeed (mkP (PChunked CTrailers) chunk tl (max_trailers p)) evs
        | Some (line, rest) =>
          if max_field lim <? lenN line then PRFail ELineTooLong evs else
          let tl' := tl ++ [line] in
          if max_trailers p <? lenN tl' then PRFail EBadMessage evs else
          match line with
          | [] => match parse_trailers tl with
                  | Some e => PRFail e evs
                  | None => PRDone rest (ev_eof evs)
                  end
          | _ => chunked_loop f lim p CTrailers tl' rest evs
          end
        end
      end
    end
  end.

(* the length with which a buffered partial line is checked against its limit.  Strict parsing
   (SEP = CRLF): when the generated flag is set, one trailing CR - possibly the first half of the
   line terminator - does not count, exactly as it does not count for a complete line. *)
Definition tail_len (discount : bool) (t : bytes) : N :=
  if discount && (last t 0 =? 13) then lenN t - 1 else lenN t.

Definition feed_payload (lim : limits) (p : pstate) (data : bytes) (evs : acc) : pres :=
  match pk p with
  | PLength rem =>
    let '(d, rest) := takeN rem data in
    let left' := rem - lenN d in
    if left' =? 0 then PRDone rest (ev_eof (ev_data d evs))
    else PRNeed (mkP (PLength left') [] [] (max_trailers p)) (ev_data d evs)
  | PUntilEof => PRNeed p (ev_data data evs)
  | PChunked c =>
    (* a buffered partial line is re-checked against the limit before new data is appended *)
    let too_long :=
      match ctail p, c with
      | [], _ => false
      | _, CData _ => false
      | t, CTrailers => max_field lim <? tail_len chunk_tail_check_discounts_cr t
      | t, _ => max_line lim <? tail_len chunk_tail_check_discounts_cr t
      end in
    if too_long then PRFail ELineTooLong evs
    else let chunk := ctail p ++ data in
         chunked_loop (2 * length chunk + 2) lim p c (tlines p) chunk evs
  end.

(* ---------------- HttpParser.feed_data ---------------- *)

(* which payload-parser exceptions leave feed_data; the others only poison the payload *)
Definition payload_error_is_fatal (e : herr) : bool :=
  match e with
  | EInvalidHeader | ETransferEncoding => true
  | _ => payload_framing_errors_all_fatal
  end.

Record pst := mkS {
  lines : list bytes;          (* header lines collected so far, in order *)
  tail : bytes;
  payload : option pstate;
  upgraded : bool; pending_upgrade : bool; should_close : bool; in_flight : N }.

Definition init : pst := mkS [] [] None false false false 0.

Inductive outcome :=
| ROk (unconsumed : bytes)         (* normal return; third element of the tuple *)
| RErr (e : herr)                (* exception leaves feed_data *)
| RAsk (connect : bool) (target : bytes).

(* CPython refuses int(<more than 4300 digits>) (sys.get_int_max_str_digits() default); aiohttp maps
   that ValueError to InvalidHeader *)
Definition int_max_str_digits : N := 4300.

(* what feed_data does once the blank line has been read *)
Definition start_message (lim : limits) (o : oracle) (s : pst) (ls : list bytes)
  : presult (pst * (acc -> acc)) :=
  (* ls = collected lines including the final empty one *)
  let max_tr := max_headers lim - lenN ls in
  match parse_request o (removelast ls) with
  | PErr e => PErr e
  | PAsk c t => PAsk c t
  | POk m =>
    let hs := m_headers m in
    let lenr :=
      match get_header h_content_length hs with
      | None => POk None
      | Some v => if nonempty v && forallb dec_digit v && (lenN v <=? int_max_str_digits)
                  then POk (Some (parse_dec v)) else PErr EInvalidHeader
      end in
    match lenr with
    | PErr e => PErr e
    | PAsk c t => PAsk c t
    | POk len =>
      if has_header h_sec_websocket_key1 hs then PErr EInvalidHeader else
      let upg := m_upgrade m &&
                 match get_header h_upgrade hs with
                 | Some u => is_ascii u && mem_bytes (map lower u) [t_tcp; t_websocket]
                 | None => false end in
      let empty_body := request_head_has_no_body && mem_bytes (m_method m) empty_body_methods in
      let has_len := match len with Some n => 0 <? n | None => false end in
      let inflight := if 0 <? max_queue lim then in_flight s + 1 else in_flight s in
      let base p u pu body :=
        POk (mkS [] [] p u pu (m_close m) inflight, ev_msg m body) in
      if negb empty_body && (has_len || m_chunked m) then
        let k := if m_chunked m then PChunked CSize
                 else PLength (match len with Some n => n | None => 0 end) in
        base (Some (mkP k [] [] max_tr)) (upgraded s) upg true
      else if list_eqb (m_method m) m_CONNECT then
        base (Some (mkP PUntilEof [] [] max_tr)) true (pending_upgrade s) true
      else if upg then base None true (pending_upgrade s) false
      else base None (upgraded s) (pending_upgrade s) false
    end
  end.

Fixpoint feed_loop (fuel : nat) (lim : limits) (o : oracle) (s : pst) (buf : bytes) (evs : acc)
  : pst * acc * outcome :=
  match fuel with
  | O => (s, evs, RErr EBadMessage)      (* unreachable: fuel > 2 * length buf *)
  | S f =>
    match buf with
    | [] => (s, evs, ROk [])
    | _ :: _ =>
      match payload s with
      | Some p =>
        match feed_payload lim p buf evs with
        | PRNeed p' e1 =>
          (mkS (lines s) (tail s) (Some p') (upgraded s) (pending_upgrade s) (should_close s) (in_flight s),
           e1, ROk [])
        | PRDone rest e1 =>
          let s' := mkS (lines s) (tail s) None (upgraded s || pending_upgrade s) false
                        (should_close s) (in_flight s) in
          feed_loop f lim o s' rest e1
        | PRFail e e1 =>
          if payload_error_is_fatal e then (s, ev_err e e1, RErr e)
          else (* only the payload is poisoned; the rest of this read is dropped *)
            (mkS (lines s) (tail s) None (upgraded s || pending_upgrade s) false (should_close s) (in_flight s),
             ev_err e e1, ROk [])
        end
      | None =>
        if upgraded s then (s, evs, ROk buf)
        else if (0 <? max_queue lim) && (max_queue lim <=? in_flight s) then
          (mkS (lines s) buf None (upgraded s) (pending_upgrade s) (should_close s) (in_flight s), evs, ROk [])
        else
          match find_crlf buf with
          | Some (line, rest) =>
            match line, lines s with
            | [], [] => feed_loop f lim o s rest evs          (* skip empty lines before a request *)
            | _, _ =>
              if should_close s then (s, evs, RErr EBadMessage) else
              let limit := match lines s with [] => max_line lim | _ => max_field lim end in
              if limit <? lenN line then (s, evs, RErr ELineTooLong) else
              let ls := lines s ++ [line] in
              if max_headers lim <? lenN ls then (s, evs, RErr EBadMessage) else
              match line with
              | [] =>
                match start_message lim o s ls with
                | PErr e => (s, evs, RErr e)
                | PAsk c t => (s, evs, RAsk c t)
                | POk (s', e1) => feed_loop f lim o s' rest (e1 evs)
                end
              | _ =>
                feed_loop f lim o
                  (mkS ls (tail s) None (upgraded s) (pending_upgrade s) (should_close s) (in_flight s))
                  rest evs
              end
            end
          | None =>
            let limit := match lines s with [] => max_line lim | _ => max_field lim end in
            if has_byte 10 buf then (s, evs, RErr EBadMessage)
            else if limit <? tail_len tail_check_discounts_cr buf then (s, evs, RErr ELineTooLong)
            else (mkS (lines s) buf None (upgraded s) (pending_upgrade s) (should_close s) (in_flight s),
                  evs, ROk [])
          end
      end
    end
  end.

Definition feed (lim : limits) (o : oracle) (s : pst) (data : bytes) (a : acc) : pst * acc * outcome :=
  let buf := tail s ++ data in
  let s0 := mkS (lines s) [] (payload s) (upgraded s) (pending_upgrade s) (should_close s) (in_flight s) in
  feed_loop (2 * length buf + 2) lim o s0 buf a.

(* HttpParser.message_consumed *)
Definition message_consumed (s : pst) : pst :=
  mkS (lines s) (tail s) (payload s) (upgraded s) (pending_upgrade s) (should_close s)
      (if 0 <? in_flight s then in_flight s - 1 else 0).

(* run a whole segmentation; stops at the first exception.  The unconsumed bytes returned by the
   calls (upgraded connections) are concatenated. *)
Fixpoint run_segs (lim : limits) (o : oracle) (s : pst) (segs : list bytes) (a : acc) (lo : bytes)
  : pst * acc * outcome :=
  match segs with
  | [] => (s, a, ROk lo)
  | d :: segs' =>
    match feed lim o s d a with
    | (s', a', ROk l) => run_segs lim o s' segs' a' (lo ++ l)
    | (s', a', r) => (s', a', r)
    end
  end.
