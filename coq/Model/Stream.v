(* Model of aiohttp/streams.py StreamReader together with the flow-control part of
   aiohttp/base_protocol.py (pause_reading / resume_reading).  Definitions only.

   Representation choices (validated by the correspondence harness, see DESIGN-built/C08.md):
   * `buf` holds the UNREAD part of every buffered block: the implementation's pair
     (`_buffer[0]`, `_buffer_offset`) is represented by the suffix `_buffer[0][_buffer_offset:]`.
   * all Python ints are Z (`n = -1` means "everything", sizes can be compared with negative limits).
   * the protocol is BaseProtocol with a parser stub holding `pend`, input the parser has not
     processed yet; `resume_reading()` -> `data_received(b"")` feeds it (re-entrantly, from inside
     `_read_nowait_chunk`) until reading is paused again or EOF was fed.
   * `wt` is the state of the single reader's waiter future: `Waiting` = `self._waiter is not None`;
     `WokenOk`/`WokenExc` = the future was completed by a producer but the reader task has not run yet.
   * `fedlog`, `conslog`, `endlog` are ghost logs (bytes accepted by feed_data, bytes taken out by
     `_read_nowait_chunk`, positions recorded by end_http_chunk_receiving); nothing reads them. *)
From AV Require Import Lib.Base Generated.StreamGen.
Open Scope Z_scope.

Definition len {A} (l : list A) : Z := Z.of_nat (length l).

Inductive pitem := PData (d : bytes) | PEndC.
Inductive wstate := NoTask | Waiting | WokenOk | WokenExc (e : N).

(* Python exceptions as data.  ExFuel is a model artefact (recursion fuel ran out); it is proved
   unreachable for the fuel the model supplies.  ExIndex is `self._buffer[0]` on an empty deque. *)
Inductive exn :=
| ExStream (e : N)                       (* the exception object given to set_exception *)
| ExLineTooLong
| ExIncomplete (partial : bytes) (expected : Z)
| ExRuntime | ExAssertion | ExValue | ExIndex | ExFuel.

Record st := mkSt {
  buf : list bytes; size : Z; cursor : Z; splits : option (list Z);
  eof : bool; exc : option N; total : Z;
  low : Z; high : Z; lowc : Z; highc : Z;
  paused : bool; pend : list pitem; wt : wstate;
  fedlog : bytes; conslog : bytes; endlog : list Z }.

Definition init (limit : Z) : st :=
  mkSt [] 0 0 None false None 0
       (init_low_water limit) (init_high_water limit) (init_low_water_chunks limit) (init_high_water_chunks limit)
       false [] NoTask [] [] [].

Definition set_splits (s : st) v := mkSt (buf s) (size s) (cursor s) v (eof s) (exc s) (total s) (low s) (high s) (lowc s) (highc s) (paused s) (pend s) (wt s) (fedlog s) (conslog s) (endlog s).
Definition set_eof (s : st) v := mkSt (buf s) (size s) (cursor s) (splits s) v (exc s) (total s) (low s) (high s) (lowc s) (highc s) (paused s) (pend s) (wt s) (fedlog s) (conslog s) (endlog s).
Definition set_exc (s : st) v := mkSt (buf s) (size s) (cursor s) (splits s) (eof s) v (total s) (low s) (high s) (lowc s) (highc s) (paused s) (pend s) (wt s) (fedlog s) (conslog s) (endlog s).
Definition set_marks (s : st) l h := mkSt (buf s) (size s) (cursor s) (splits s) (eof s) (exc s) (total s) l h (lowc s) (highc s) (paused s) (pend s) (wt s) (fedlog s) (conslog s) (endlog s).
Definition set_paused (s : st) v := mkSt (buf s) (size s) (cursor s) (splits s) (eof s) (exc s) (total s) (low s) (high s) (lowc s) (highc s) v (pend s) (wt s) (fedlog s) (conslog s) (endlog s).
Definition set_pend (s : st) v := mkSt (buf s) (size s) (cursor s) (splits s) (eof s) (exc s) (total s) (low s) (high s) (lowc s) (highc s) (paused s) v (wt s) (fedlog s) (conslog s) (endlog s).
Definition set_wt (s : st) v := mkSt (buf s) (size s) (cursor s) (splits s) (eof s) (exc s) (total s) (low s) (high s) (lowc s) (highc s) (paused s) (pend s) v (fedlog s) (conslog s) (endlog s).

(* ---- producer side ------------------------------------------------------------------- *)

(* `waiter = self._waiter; if waiter is not None: self._waiter = None; set_result(waiter, None)` *)
Definition wake_ok (s : st) : st := match wt s with Waiting => set_wt s WokenOk | _ => s end.
Definition wake_exc (e : N) (s : st) : st := match wt s with Waiting => set_wt s (WokenExc e) | _ => s end.

(* BaseProtocol.pause_reading: _reading_paused = True; transport.pause_reading() *)
Definition do_pause (s : st) : st := set_paused s true.

Definition feed_data (d : bytes) (s : st) : st * option exn :=
  if eof s then (s, Some ExAssertion)                       (* assert not self._eof *)
  else match d with
  | [] => (s, None)                                         (* if not data: return *)
  | _ =>
    let s1 := mkSt (buf s ++ [d]) (size s + len d) (cursor s) (splits s) (eof s) (exc s) (total s + len d)
                   (low s) (high s) (lowc s) (highc s) (paused s) (pend s) (wt s)
                   (fedlog s ++ d) (conslog s) (endlog s) in
    let s2 := wake_ok s1 in
    (if feed_pause (size s2) (high s2) then do_pause s2 else s2, None)
  end.

Definition begin_chunk (s : st) : st * option exn :=
  match splits s with
  | Some _ => (s, None)
  | None => if total s =? 0 then (set_splits s (Some []), None) else (s, Some ExRuntime)
  end.

Definition end_chunk (s : st) : st * option exn :=
  match splits s with
  | None => (s, Some ExRuntime)
  | Some l =>
    let pos := last l 0 in                                  (* splits[-1] if splits else 0 *)
    if empty_chunk (total s) pos then (s, None)
    else
      let l' := l ++ [total s] in
      let s1 := mkSt (buf s) (size s) (cursor s) (Some l') (eof s) (exc s) (total s)
                     (low s) (high s) (lowc s) (highc s) (paused s) (pend s) (wt s)
                     (fedlog s) (conslog s) (endlog s ++ [total s]) in
      let s2 := if chunk_pause (len l') (highc s1) then do_pause s1 else s1 in
      (wake_ok s2, None)
  end.

(* feed_eof: wake the reader; protocol.resume_reading(resume_parser=False) un-pauses without
   giving the parser a turn *)
Definition feed_eof (s : st) : st := set_paused (wake_ok (set_eof s true)) false.

Definition set_exception (e : N) (s : st) : st := wake_exc e (set_exc s (Some e)).

(* ---- resume_reading(resume_parser=True): the parser stub feeds what it still holds -------- *)

Definition apply_pitem (it : pitem) (s : st) : st :=
  match it with
  | PData d => fst (feed_data d s)           (* only called with eof s = false: cannot raise *)
  | PEndC => match splits s with Some _ => fst (end_chunk s) | None => s end
  end.

Fixpoint deliver (items : list pitem) (s : st) : st :=
  match items with
  | [] => set_pend s []
  | it :: rest => if paused s || eof s then set_pend s items else deliver rest (apply_pitem it s)
  end.

Definition do_resume (s : st) : st := let s1 := set_paused s false in deliver (pend s1) s1.

(* ---- the single consumption primitive: _read_nowait_chunk ------------------------------- *)

Definition take_chunk (n : Z) (f : bytes) (r : list bytes) : bytes * list bytes :=
  if take_partial (len f) n then (firstn (Z.to_nat n) f, skipn (Z.to_nat n) f :: r) else (f, r).

Fixpoint drop_stale (c : Z) (l : list Z) : list Z :=
  match l with
  | [] => []
  | p :: l' => if split_stale p c then drop_stale c l' else l
  end.

Definition resume_cond (s : st) : bool :=
  resume_open (eof s) &&
  resume_bytes (size s) (low s) (match buf s with [] => true | _ => false end) &&
  match splits s with None => true | Some l => resume_chunks (len l) (lowc s) end.

(* f :: r is the (non-empty) buffer deque.  `consume` is the body of _read_nowait_chunk up to the
   resume test; `rnc` adds `if <test>: self._protocol.resume_reading()`. *)
Definition consume (n : Z) (f : bytes) (r : list bytes) (s : st) : st * bytes :=
  let '(d, b') := take_chunk n f r in
  let c' := cursor s + len d in
  (mkSt b' (size s - len d) c' (option_map (drop_stale c') (splits s)) (eof s) (exc s) (total s)
        (low s) (high s) (lowc s) (highc s) (paused s) (pend s) (wt s)
        (fedlog s) (conslog s ++ d) (endlog s), d).

Definition rnc (n : Z) (f : bytes) (r : list bytes) (s : st) : st * bytes :=
  let '(s1, d) := consume n f r s in
  (if resume_cond s1 then do_resume s1 else s1, d).

Inductive status := SOk | SIndex | SFuel.

(* _read_nowait(-1): `count = len(self._buffer)` blocks, no more (re-entrant feeding may append) *)
Fixpoint drain (k : nat) (s : st) : st * bytes * status :=
  match k with
  | O => (s, [], SOk)
  | S k' =>
    match buf s with
    | [] => (s, [], SIndex)
    | f :: r => let '(s1, d) := rnc (-1) f r s in
                let '(s2, d2, e) := drain k' s1 in (s2, d ++ d2, e)
    end
  end.

(* _read_nowait(n): while self._buffer: chunk = rnc(n); n -= len(chunk); if n == 0: break *)
Fixpoint take_n (fuel : nat) (n : Z) (s : st) : st * bytes * status :=
  match buf s with
  | [] => (s, [], SOk)
  | f :: r =>
    match fuel with
    | O => (s, [], SFuel)
    | S fuel' =>
      let '(s1, d) := rnc n f r s in
      let n' := n - len d in
      if n' =? 0 then (s1, d, SOk)
      else let '(s2, d2, e) := take_n fuel' n' s1 in (s2, d ++ d2, e)
    end
  end.

Definition fuel_of (s : st) : nat := S (length (buf s) + length (pend s)).

Definition read_nowait (n : Z) (s : st) : st * bytes * status :=
  if n =? -1 then drain (length (buf s)) s else take_n (fuel_of s) n s.

(* ---- consumer operations ------------------------------------------------------------------ *)

(* `lost` = bytes this call had already taken out of the buffer when it raised *)
Inductive result :=
| RBytes (b : bytes)
| RChunk (b : bytes) (e : bool)
| RNone
| RRaise (e : exn) (lost : bytes)
| ROutOfModel.

Inductive cont :=
| KRead (n : Z)                                   (* read(n) / readany (n = -1): in the wait loop *)
| KReadAll (acc : bytes)                          (* read(-1): inside readany's wait loop *)
| KReadUntil (sep : bytes) (maxsz : Z) (acc : bytes)
| KReadExactly (n : Z) (acc : bytes)              (* readexactly: inside read(n)'s wait loop *)
| KReadChunk.

Inductive outcome := Done (r : result) | Block (k : cont).

Definition acc_of (k : cont) : bytes :=
  match k with KReadAll a => a | KReadUntil _ _ a => a | KReadExactly _ a => a | _ => [] end.


Definition finish (e : status) (ok : result) (lost : bytes) : result :=
  match e with SOk => ok | SIndex => RRaise ExIndex lost | SFuel => RRaise ExFuel lost end.

(* `await self._wait(...)`: a pending exception is raised first (repair 497a2a6; translated as found),
   otherwise self._waiter = create_future() and the call suspends.  A call that raises here loses what
   it had accumulated. *)
Definition wait_exc (s : st) : option N := if wait_checks_exception then exc s else None.
Definition block (k : cont) (s : st) : st * outcome :=
  match wait_exc s with
  | Some x => (s, Done (RRaise (ExStream x) (acc_of k)))
  | None => (set_wt s Waiting, Block k)
  end.

(* `while not self._buffer and not self._eof` *)
Definition need_wait (s : st) : bool := match buf s with [] => negb (eof s) | _ => false end.

Definition set_chunk_size (n : Z) (s : st) : st :=
  if chunk_size_raises n (low s) then set_marks s (chunk_size_low n) (chunk_size_high n) else s.

Definition k_read (n : Z) (s : st) : st * outcome :=
  if need_wait s then block (KRead n) s
  else let '(s1, d, e) := read_nowait n s in (s1, Done (finish e (RBytes d) d)).

(* read(-1): blocks = []; while True: block = await self.readany(); if not block: break *)
Fixpoint k_readall (fuel : nat) (acc : bytes) (s : st) : st * outcome :=
  if need_wait s then block (KReadAll acc) s
  else
    let '(s1, d, e) := read_nowait (-1) s in
    match e with
    | SOk =>
      match d with
      | [] => (s1, Done (RBytes acc))
      | _ =>
        match exc s1 with                          (* the next readany() starts with the exception test *)
        | Some x => (s1, Done (RRaise (ExStream x) (acc ++ d)))
        | None =>
          match fuel with
          | O => (s1, Done (RRaise ExFuel (acc ++ d)))
          | S fuel' => k_readall fuel' (acc ++ d) s1
          end
        end
      end
    | _ => (s1, Done (finish e RNone (acc ++ d)))
    end.

(* bytes.find(sep): index of the first occurrence *)
Fixpoint find_sub (sep l : bytes) : option Z :=
  if starts_with sep l then Some 0
  else match l with [] => None | _ :: l' => option_map Z.succ (find_sub sep l') end.

Fixpoint k_until (fuel : nat) (sep : bytes) (maxsz : Z) (acc : bytes) (s : st) : st * outcome :=
  match buf s with
  | [] => if eof s then (s, Done (RBytes acc)) else block (KReadUntil sep maxsz acc) s
  | f :: r =>
    match fuel with
    | O => (s, Done (RRaise ExFuel acc))
    | S fuel' =>
      match find_sub sep f with
      | Some i =>
        let '(s1, d) := rnc (i + len sep) f r s in
        let acc' := acc ++ d in
        if line_too_long (len acc') maxsz then (s1, Done (RRaise ExLineTooLong acc'))
        else (s1, Done (RBytes acc'))
      | None =>
        let '(s1, d) := rnc (-1) f r s in
        let acc' := acc ++ d in
        if line_too_long (len acc') maxsz then (s1, Done (RRaise ExLineTooLong acc'))
        else k_until fuel' sep maxsz acc' s1
      end
    end
  end.

(* readexactly: while n > 0: block = await self.read(n); ... *)
Fixpoint k_exactly (fuel : nat) (n : Z) (acc : bytes) (s : st) : st * outcome :=
  if need_wait s then block (KReadExactly n acc) s
  else
    let '(s1, d, e) := read_nowait n s in
    match e with
    | SOk =>
      match d with
      | [] => (s1, Done (RRaise (ExIncomplete acc (len acc + n)) []))
      | _ =>
        let n' := n - len d in
        let acc' := acc ++ d in
        if n' <=? 0 then (s1, Done (RBytes acc'))
        else
          match exc s1 with                        (* read(n') starts with the exception test *)
          | Some x => (s1, Done (RRaise (ExStream x) acc'))
          | None =>
            match fuel with
            | O => (s1, Done (RRaise ExFuel acc'))
            | S fuel' => k_exactly fuel' n' acc' (set_chunk_size n' s1)
            end
          end
      end
    | _ => (s1, Done (finish e RNone (acc ++ d)))
    end.

(* readchunk: `while self._http_chunk_splits: pos = popleft(); ==, >, else skip` *)
Fixpoint pop_splits (c : Z) (l : list Z) : option Z * list Z :=
  match l with
  | [] => (None, [])
  | p :: l' => if readchunk_at p c then (Some p, l')
               else if readchunk_ahead p c then (Some p, l')
               else pop_splits c l'
  end.

Definition k_readchunk (s : st) : st * outcome :=
  match exc s with
  | Some x => (s, Done (RRaise (ExStream x) []))
  | None =>
    let '(found, s0) :=
      match splits s with
      | None => (None, s)
      | Some l => let '(p, l') := pop_splits (cursor s) l in (p, set_splits s (Some l'))
      end in
    match found with
    | Some p =>
      if readchunk_at p (cursor s) then (s0, Done (RChunk [] true))
      else let '(s1, d, e) := read_nowait (p - cursor s) s0 in (s1, Done (finish e (RChunk d true) d))
    | None =>
      match buf s0 with
      | f :: r => let '(s1, d) := rnc (-1) f r s0 in (s1, Done (RChunk d false))
      | [] => if eof s0 then (s0, Done (RChunk [] false)) else block KReadChunk s0
      end
    end
  end.

Inductive cop :=
| CRead (n : Z)                          (* read(n); n < 0: everything; also iter_chunked *)
| CReadAny                               (* readany; iter_any *)
| CReadUntil (sep : bytes) (maxsz : Z)   (* readuntil / readline; maxsz 0 = None *)
| CReadExactly (n : Z)
| CReadChunk                             (* readchunk; iter_chunks *)
| CReadNowait (n : Z)
| CUnread (d : bytes)
| CSetChunkSize (n : Z).

Definition raise_exc (s : st) (k : st * outcome) : st * outcome :=
  match exc s with Some x => (s, Done (RRaise (ExStream x) [])) | None => k end.

Definition fuel_all (s : st) : nat := S (fuel_of s).

(* unread_data: the ghost logs treat it as inserting `d` at the current read position *)
Definition unread (d : bytes) (s : st) : st :=
  match d with
  | [] => s
  | _ => mkSt (d :: buf s) (size s + len d) (cursor s - len d) (splits s) (eof s) (exc s) (total s)
              (low s) (high s) (lowc s) (highc s) (paused s) (pend s) (wt s)
              (conslog s ++ d ++ skipn (length (conslog s)) (fedlog s)) (conslog s) (endlog s)
  end.

(* operations that never wait *)
Definition sync_op (c : cop) (s : st) : option (st * result) :=
  match c with
  | CReadNowait n =>
    Some match exc s with
         | Some x => (s, RRaise (ExStream x) [])
         | None =>
           match wt s with
           | Waiting => (s, RRaise ExRuntime [])
           | _ => if n <? -1 then (s, ROutOfModel)
                  else let '(s1, d, e) := read_nowait n s in (s1, finish e (RBytes d) d)
           end
         end
  | CSetChunkSize n => Some (set_chunk_size n s, RNone)
  | CUnread d => Some (unread d s, RNone)
  | _ => None
  end.

Definition start (c : cop) (s : st) : st * outcome :=
  match c with
  | CRead n =>
    raise_exc s (
      if n =? 0 then (s, Done (RBytes []))
      else if n <? 0 then let s1 := set_chunk_size read_all_chunk_size s in k_readall (fuel_all s1) [] s1
      else k_read n (set_chunk_size n s))
  | CReadAny => raise_exc s (k_read (-1) s)
  | CReadUntil sep maxsz =>
    match sep with
    | [] => (s, Done (RRaise ExValue []))
    | _ => raise_exc s (k_until (fuel_of s) sep (until_max maxsz (high s)) [] s)
    end
  | CReadExactly n =>
    raise_exc s (if n <=? 0 then (s, Done (RBytes []))
                 else let s1 := set_chunk_size n s in k_exactly (fuel_all s1) n [] s1)
  | CReadChunk => k_readchunk s
  | _ => match sync_op c s with Some (s', r) => (s', Done r) | None => (s, Done ROutOfModel) end
  end.

Definition resume_k (k : cont) (s : st) : st * outcome :=
  match k with
  | KRead n => k_read n s
  | KReadAll acc => k_readall (fuel_all s) acc s
  | KReadUntil sep m acc => k_until (fuel_of s) sep m acc s
  | KReadExactly n acc => k_exactly (fuel_all s) n acc s
  | KReadChunk => k_readchunk s
  end.

(* ---- the system: stream + (at most one) suspended reader task ------------------------------ *)

Record sys := mkSys { sst : st; task : option cont }.

Definition init_sys (limit : Z) : sys := mkSys (init limit) None.

Inductive op :=
| OFeed (d : bytes) | OBegin | OEnd | OEof | OExc (e : N)
| OPend (it : pitem)            (* the parser stub receives input it will feed on the next resume *)
| OStart (c : cop)              (* the consumer calls a method (awaits it if it is a coroutine) *)
| ORun.                         (* the event loop runs the reader task if it was woken *)

Inductive obs :=
| ObNone
| ObErr (e : exn)               (* the producer call raised *)
| ObBlocked                     (* the reader is suspended in _wait *)
| ObDone (r : result)
| ObNotEnabled.                 (* a second reader while one is suspended: outside the single-reader discipline *)

Definition finish_task (so : st * outcome) : sys * obs :=
  let '(s, o) := so in
  match o with
  | Done r => (mkSys (set_wt s NoTask) None, ObDone r)
  | Block k => (mkSys s (Some k), ObBlocked)
  end.

Definition prod (y : sys) (r : st * option exn) : sys * obs :=
  (mkSys (fst r) (task y), match snd r with None => ObNone | Some x => ObErr x end).

Definition step (o : op) (y : sys) : sys * obs :=
  let s := sst y in
  match o with
  | OFeed d => prod y (feed_data d s)
  | OBegin => prod y (begin_chunk s)
  | OEnd => prod y (end_chunk s)
  | OEof => prod y (feed_eof s, None)
  | OExc e => prod y (set_exception e s, None)
  | OPend it => prod y (set_pend s (pend s ++ [it]), None)
  | OStart c =>
    match task y with
    | None => finish_task (start c s)
    | Some _ =>
      (* while a reader is suspended only calls that do not read are modelled: set_read_chunk_size,
         and read_nowait while the waiter is still pending (it raises, nothing changes) *)
      match c with
      | CSetChunkSize n => (mkSys (set_chunk_size n s) (task y), ObDone RNone)
      | CReadNowait _ =>
        match wt s with
        | Waiting => (y, ObDone (match exc s with Some x => RRaise (ExStream x) [] | None => RRaise ExRuntime [] end))
        | _ => (y, ObNotEnabled)
        end
      | _ => (y, ObNotEnabled)
      end
    end
  | ORun =>
    match task y with
    | None => (y, ObNone)
    | Some k =>
      match wt s with
      | WokenOk => finish_task (resume_k k (set_wt s NoTask))
      | WokenExc e => (mkSys (set_wt s NoTask) None, ObDone (RRaise (ExStream e) (acc_of k)))
      | _ => (y, ObNone)
      end
    end
  end.

Fixpoint run (ops : list op) (y : sys) : sys * list obs :=
  match ops with
  | [] => (y, [])
  | o :: ops' => let '(y1, b) := step o y in let '(y2, bs) := run ops' y1 in (y2, b :: bs)
  end.

(* public accessors used by the correspondence *)
Definition at_eof (s : st) : bool := eof s && match buf s with [] => true | _ => false end.
