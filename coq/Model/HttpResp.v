(* Model of aiohttp/http_parser.py: HttpResponseParser in its default LAX mode (lax = not DEBUG):
   SEP = LF with line.rstrip(CR); HeadersParser with obs-fold continuation lines (their
   max_field_size accounting), the lax value check ("\n" / "\r" / "\x00" in value) and no
   duplicate-singleton check; status line parsed on the utf-8/surrogateescape-DECODED text with
   str.split()/strip(); _is_chunked_te by rsplit; close defaults; HttpPayloadParser in lax mode
   (strip()'ed chunk sizes, optional CR skipped after chunk data);
   response_with_body=False (HEAD), read_until_eof, EMPTY_BODY_STATUS_CODES; feed_eof.
   The parser is created as the client does: method=None, code=None, no payload_exception.
   Definitions only.  The payload consumer never pauses (no decompression, large read limit). *)
From AV Require Import Lib.Base Lib.BytesX Lib.Utf8Valid Lib.Utf8Decode
  Generated.HttpGen Generated.HttpRespGen Model.Http.
Open Scope N_scope.

(* shared with the request model (Model/Http.v): limits, herr, nonempty, has_header, get_header,
   header-name constants, conn_tokens, hinfo, parse_version, int_max_str_digits *)

Record rcfg := mkCfg {
  c_lim : limits;
  c_with_body : bool;       (* response_with_body: False for the response to a HEAD request *)
  c_until_eof : bool }.     (* read_until_eof *)

Inductive rres (A : Type) := QOk (a : A) | QErr (e : herr).
Arguments QOk {A} a. Arguments QErr {A} e.

Record rmsg := mkRMsg {
  rm_vmaj : N; rm_vmin : N; rm_code : N; rm_reason : str (* code points *);
  rm_headers : list (bytes * bytes);          (* raw, in order, OWS-stripped, folds joined *)
  rm_close : bool; rm_compression : option bytes; rm_upgrade : bool; rm_chunked : bool }.

(* ---------------- line endings ---------------- *)
(* split at the first occurrence of a byte: (before, after).  Linear (BytesX.split_first reverses its
   accumulator with the quadratic List.rev; lines here are up to 8 KiB) *)
Fixpoint split_byte (sep : N) (s : bytes) : option (bytes * bytes) :=
  match s with
  | [] => None
  | c :: s' => if c =? sep then Some ([], s')
               else match split_byte sep s' with
                    | Some (l, r) => Some (c :: l, r)
                    | None => None
                    end
  end.
(* data.find(b"\n"): (bytes before the first LF, bytes after it) *)
Definition find_lf (s : bytes) : option (bytes * bytes) := split_byte 10 s.

(* line.rstrip(b"\r"): ALL trailing CRs *)
Definition rstrip_cr (s : bytes) : bytes := rstrip_by (fun c => c =? 13) s.

(* the length a lax line - complete (before its LF) or still partial - is measured with: one trailing CR
   belongs to the line terminator and does not count; further trailing CRs are stripped from the value
   by rstrip_cr but do count (len(line) - line.endswith(b"\r")) *)
Fixpoint ends_cr (s : bytes) : bool :=
  match s with
  | [] => false
  | c :: s' => match s' with [] => c =? 13 | _ => ends_cr s' end
  end.
Definition len1 (s : bytes) : N := if ends_cr s then lenN s - 1 else lenN s.

(* bytes.strip() without argument: ASCII whitespace *)
Definition is_bws (c : N) : bool := ((9 <=? c) && (c <=? 13)) || (c =? 32).
Definition strip_bws (s : bytes) : bytes := strip_by is_bws s.

(* bytes.strip(b" \t") / lstrip *)
Definition lstrip_ows_l (s : bytes) : bytes := lstrip_by is_ows s.
Definition strip_ows_l (s : bytes) : bytes := strip_by is_ows s.

(* s.rsplit(sep, 1)[-1]: the part after the last occurrence of sep (all of s if there is none) *)
Fixpoint after_last_aux (sep : N) (s : bytes) : option bytes :=
  match s with
  | [] => None
  | c :: s' => match after_last_aux sep s' with
               | Some t => Some t
               | None => if c =? sep then Some s' else None
               end
  end.
Definition after_last (sep : N) (s : bytes) : bytes :=
  match after_last_aux sep s with Some t => t | None => s end.

(* ---------------- HeadersParser.parse_headers (lax) ---------------- *)
(* field line -> (name, value with leading OWS removed) *)
Definition parse_field_name (line : bytes) : rres (bytes * bytes) :=
  match split_byte 58 line with
  | None => QErr EInvalidHeader
  | Some (bname, bvalue) =>
    match bname with
    | [] => QErr EInvalidHeader
    | f :: _ =>
      if is_ows f || is_ows (last bname 0) then QErr EInvalidHeader
      else if negb (forallb tchar bname) then QErr EInvalidHeader
      else QOk (bname, lstrip_ows_l bvalue)
    end
  end.

(* the field being assembled: name, value so far (first piece and continuation lines joined),
   header_length, and whether at least one continuation line was taken *)
Record cur := mkCur { cu_name : bytes; cu_value : bytes; cu_len : N; cu_cont : bool }.

Definition finish_field (c : cur) : rres (bytes * bytes) :=
  let v := strip_ows_l (cu_value c) in
  if existsb lax_value_forbidden v then QErr EInvalidHeader else QOk (cu_name c, v).

Definition starts_ows (l : bytes) : bool := match l with c :: _ => is_ows c | [] => false end.

(* lines: the field lines; the list handed to parse_headers ends with an empty line, which is not
   included here (end of list = that empty line).  An empty line elsewhere cannot occur (feed_data
   parses as soon as one is appended); Python's treatment is transcribed nevertheless: at a field
   position it ends the loop, inside a run of continuation lines it is absorbed. *)
Fixpoint parse_fields_lax (mf : N) (lines : list bytes) (c : option cur) (acc : list (bytes * bytes))
  : rres (list (bytes * bytes)) :=
  match lines with
  | [] => match c with
          | None => QOk acc
          | Some cu => match finish_field cu with QOk kv => QOk (acc ++ [kv]) | QErr e => QErr e end
          end
  | l :: ls =>
    match c with
    | Some cu =>
      if starts_ows l then
        let n := cu_len cu + lenN l in
        if mf <? n then QErr ELineTooLong
        else parse_fields_lax mf ls (Some (mkCur (cu_name cu) (cu_value cu ++ l) n true)) acc
      else
        match l with
        | [] => if cu_cont cu then parse_fields_lax mf ls c acc      (* absorbed: `if line:` keeps continuation set *)
                else match finish_field cu with QOk kv => QOk (acc ++ [kv]) | QErr e => QErr e end
        | _ =>
          match finish_field cu with
          | QErr e => QErr e
          | QOk kv =>
            match parse_field_name l with
            | QErr e => QErr e
            | QOk (n, v) => parse_fields_lax mf ls (Some (mkCur n v (lenN v) false)) (acc ++ [kv])
            end
          end
        end
    | None =>
      match l with
      | [] => QOk acc
      | _ => match parse_field_name l with
             | QErr e => QErr e
             | QOk (n, v) => parse_fields_lax mf ls (Some (mkCur n v (lenN v) false)) acc
             end
      end
    end
  end.

Definition parse_headers_lax (mf : N) (lines : list bytes) : rres (list (bytes * bytes)) :=
  parse_fields_lax mf lines None [].

(* HttpResponseParser._is_chunked_te: te.rsplit(",", 1)[-1].strip(" \t").lower() == "chunked" on the
   DECODED value: no isascii() test, so KELVIN SIGN lower-cases into it *)
Definition is_chunked_te_resp (te : bytes) : bool :=
  list_eqb (map lowerU (decode_se (strip_ows_l (after_last 44 te)))) t_chunked.

(* HttpParser.parse_headers after the field list is known (response flavour) *)
Definition derive_resp (hs : list (bytes * bytes)) : rres hinfo :=
  let conn := match get_header h_connection hs with Some v => v | None => [] end in
  let toks := conn_tokens conn in
  let close_conn :=
    if mem_bytes t_close toks then Some true
    else if mem_bytes t_keep_alive toks then Some false else None in
  let upg := mem_bytes t_upgrade toks &&
             match get_header h_upgrade hs with Some v => nonempty v | None => false end in
  let encv := match get_header h_content_encoding hs with Some v => v | None => [] end in
  let enc := if is_ascii encv && mem_bytes (map lower encv) [t_gzip; t_deflate; t_br; t_zstd]
             then Some (if content_encoding_lowered then map lower encv else encv) else None in
  match get_header h_transfer_encoding hs with
  | None => QOk (mkHinfo close_conn enc upg false)
  | Some te => if has_header h_content_length hs then QErr EBadMessage
               else QOk (mkHinfo close_conn enc upg (is_chunked_te_resp te))
  end.

(* ---------------- HttpResponseParser.parse_message ---------------- *)
(* status line on decoded text: (version, status, reason before its final strip()) *)
Definition split_status_line (line : str) : option (str * str * str) :=
  match split1 line with
  | Some (version, Some status0) =>
    match split1 status0 with
    | Some (st, Some rs) => Some (version, st, rs)
    | _ => Some (version, strip_sp status0, [])      (* except ValueError: status.strip(), "" *)
    end
  | _ => None
  end.

(* lines: status line :: field lines (terminating empty line removed) *)
Definition parse_response (mf : N) (lines : list bytes) : rres rmsg :=
  match lines with
  | [] => QErr EBadStatus
  | sl :: fls =>
    match split_status_line (decode_se sl) with
    | None => QErr EBadStatus
    | Some (version, status, reason) =>
      match parse_version version with
      | None => QErr EBadStatus
      | Some (vmaj, vmin) =>
        if negb ((lenN status =? status_code_len) && forallb dec_digit status) then QErr EBadStatus else
        let code := parse_dec status in
        match parse_headers_lax mf fls with
        | QErr e => QErr e
        | QOk hs =>
          match derive_resp hs with
          | QErr e => QErr e
          | QOk hi =>
            let v10 := (vmaj <? 1) || ((vmaj =? 1) && (vmin <=? 0)) in
            let close :=
              match hi_close hi with
              | Some c => c
              | None =>
                if v10 then true
                else if close_default_bodiless code then false
                else if has_header h_content_length hs || has_header h_transfer_encoding hs then false
                else true
              end in
            QOk (mkRMsg vmaj vmin code (strip_sp reason) hs close (hi_enc hi) (hi_upgrade hi) (hi_chunked hi))
          end
        end
      end
    end
  end.

(* ---------------- payload ---------------- *)
(* RDataEnd: after chunk data, before its line terminator (one optional CR, then LF).  A CR that is
   the last byte of a read is kept in the chunk tail and looked at again together with the next read
   (repair of C03-lax-double-cr), so the state does not depend on read boundaries.  After the
   last-chunk line nothing is skipped (repair eb945bb): a CR there belongs to the first trailer line,
   whose rstrip(CR) makes "CR LF" the empty line. *)
Inductive rcstate := RSize | RData (rem : N) | RDataEnd | RTrailers.
Inductive rpkind := RLength (rem : N) | RChunked (c : rcstate) | RUntilEof.
Record rpstate := mkRP { rpk : rpkind; rctail : bytes; rtlines : list bytes (* in order *); rmax_trailers : N }.

Record rrec := mkRR {
  rr_msg : rmsg; rr_body : bool (* a real payload stream, not EMPTY_PAYLOAD *);
  rr_data : bytes; rr_splits : list N; rr_eof : bool; rr_exc : option herr }.

(* newest message first *)
Definition racc := list rrec.
Definition rupd_cur (f : rrec -> rrec) (a : racc) : racc :=
  match a with m :: r => f m :: r | [] => [] end.
Definition rev_msg (m : rmsg) (body eof : bool) (a : racc) : racc := mkRR m body [] [] eof None :: a.
Definition rev_data (d : bytes) : racc -> racc :=
  rupd_cur (fun m => mkRR (rr_msg m) (rr_body m) (rr_data m ++ d) (rr_splits m) (rr_eof m) (rr_exc m)).
Definition rev_chunk_end : racc -> racc :=
  rupd_cur (fun m => mkRR (rr_msg m) (rr_body m) (rr_data m) (rr_splits m ++ [lenN (rr_data m)]) (rr_eof m) (rr_exc m)).
Definition rev_eof : racc -> racc :=
  rupd_cur (fun m => mkRR (rr_msg m) (rr_body m) (rr_data m) (rr_splits m) true (rr_exc m)).
Definition rev_err (e : herr) : racc -> racc :=
  rupd_cur (fun m => mkRR (rr_msg m) (rr_body m) (rr_data m) (rr_splits m) (rr_eof m) (Some e)).

Inductive rpres :=
| QNeed (p : rpstate) (a : racc)                (* PAYLOAD_NEEDS_INPUT *)
| QDone (rest : bytes) (a : racc)               (* PAYLOAD_COMPLETE, unconsumed bytes *)
| QFail (e : herr) (a : racc).                  (* exception *)

Definition parse_trailers_lax (mf : N) (lines : list bytes) : option herr :=
  match parse_headers_lax mf lines with QOk _ => None | QErr e => Some e end.

(* the `while chunk` loop of the chunked parser, lax mode, SEP = LF; fuel bounds the iterations.
   With SEP = LF the tests `b"\n" in chunk` (no separator found) and `b"\n" in ext` can never fire. *)
Fixpoint rchunked_loop (fuel : nat) (lim : limits) (mt : N) (c : rcstate) (tl : list bytes)
         (chunk : bytes) (evs : racc) : rpres :=
  match fuel with
  | O => QFail EBadMessage evs     (* unreachable: fuel = 2 * length chunk + 2 *)
  | S f =>
    match chunk with
    | [] => QNeed (mkRP (RChunked c) [] tl mt) evs
    | a :: r =>
      match c with
      | RSize =>
        match find_lf chunk with
        | Some (raw, rest) =>
          (* pos > max_line_size: the raw line, its CR included *)
          if max_line lim <? lenN raw then QFail ELineTooLong evs else
          let size_b := strip_bws (match split_byte 59 raw with Some (sz, _) => sz | None => raw end) in
          if negb (nonempty size_b && forallb hex_digit size_b) then QFail ETransferEncoding evs
          else let size := parse_hex size_b in
               if size =? 0 then rchunked_loop f lim mt RTrailers tl rest evs
               else rchunked_loop f lim mt (RData size) tl rest evs
        | None => QNeed (mkRP (RChunked RSize) chunk tl mt) evs
        end
      | RData rem =>
        let '(d, rest) := takeN rem chunk in
        let left' := rem - lenN d in
        let evs' := rev_data d evs in
        if left' =? 0 then rchunked_loop f lim mt RDataEnd tl rest (rev_chunk_end evs')
        else QNeed (mkRP (RChunked (RData left')) [] tl mt) evs'
      | RDataEnd =>
        (* lax: one optional CR, then the LF; a CR at the very end of the read stays buffered *)
        if a =? 13 then
          match r with
          | [] => QNeed (mkRP (RChunked RDataEnd) [13] tl mt) evs
          | b :: rest => if b =? 10 then rchunked_loop f lim mt RSize tl rest evs
                         else QFail ETransferEncoding evs
          end
        else if a =? 10 then rchunked_loop f lim mt RSize tl r evs
        else QFail ETransferEncoding evs
      | RTrailers =>
        match find_lf chunk with
        | None => QNeed (mkRP (RChunked RTrailers) chunk tl mt) evs
        | Some (raw, rest) =>
          let line := rstrip_cr raw in
          if max_field lim <? len1 raw then QFail ELineTooLong evs else
          let tl' := tl ++ [line] in
          if mt <? lenN tl' then QFail EBadMessage evs else
          match line with
          | [] => match parse_trailers_lax (max_field lim) tl with
                  | Some e => QFail e evs
                  | None => QDone rest (rev_eof evs)
                  end
          | _ => rchunked_loop f lim mt RTrailers tl' rest evs
          end
        end
      end
    end
  end.

(* the re-check of a buffered partial line made before new data is appended *)
Definition rtoo_long (lim : limits) (p : rpstate) : bool :=
  match rpk p with
  | RChunked c =>
    match rctail p, c with
    | [], _ => false
    | _, RData _ => false
    | t, RTrailers => max_field lim <? len1 t
    | t, RDataEnd => max_line lim <? len1 t
    | t, RSize => max_line lim <? lenN t      (* a lax chunk-size line is measured raw, complete or not *)
    end
  | _ => false
  end.

Definition rfeed_payload (lim : limits) (p : rpstate) (data : bytes) (evs : racc) : rpres :=
  match rpk p with
  | RLength rem =>
    let '(d, rest) := takeN rem data in
    let left' := rem - lenN d in
    if left' =? 0 then QDone rest (rev_eof (rev_data d evs))
    else QNeed (mkRP (RLength left') [] [] (rmax_trailers p)) (rev_data d evs)
  | RUntilEof => QNeed p (rev_data data evs)
  | RChunked c =>
    if rtoo_long lim p then QFail ELineTooLong evs
    else let chunk := rctail p ++ data in
         rchunked_loop (2 * length chunk + 2) lim (rmax_trailers p) c (rtlines p) chunk evs
  end.

(* ---------------- HttpParser.feed_data (response instance) ---------------- *)
Record rst := mkRS {
  rlines : list bytes;          (* header lines collected so far, in order *)
  rtail : bytes;
  rpayload : option rpstate;
  rupgraded : bool; rpending_upgrade : bool; rshould_close : bool; rin_flight : N }.

Definition rinit : rst := mkRS [] [] None false false false 0.

Inductive routcome :=
| OOk (unconsumed : bytes)       (* normal return; third element of the tuple *)
| OErr (e : herr).               (* exception leaves feed_data *)

(* what feed_data does once the blank line has been read; ls includes the final empty line *)
Definition rstart_message (cfg : rcfg) (s : rst) (ls : list bytes) : rres (rst * (racc -> racc)) :=
  let lim := c_lim cfg in
  let max_tr := max_headers lim - lenN ls in
  match parse_response (max_field lim) (removelast ls) with
  | QErr e => QErr e
  | QOk m =>
    let hs := rm_headers m in
    let lenr :=
      match get_header h_content_length hs with
      | None => QOk None
      | Some v => if nonempty v && forallb dec_digit v && (lenN v <=? int_max_str_digits)
                  then QOk (Some (parse_dec v)) else QErr EInvalidHeader
      end in
    match lenr with
    | QErr e => QErr e
    | QOk len =>
      if has_header h_sec_websocket_key1 hs then QErr EInvalidHeader else
      let upg := rm_upgrade m &&
                 match get_header h_upgrade hs with
                 | Some u => is_ascii u && mem_bytes (map lower u) [t_tcp; t_websocket]
                 | None => false end in
      (* method is None: only the status code can make the body empty *)
      let empty_body := empty_body_status (rm_code m) in
      let has_len := match len with Some n => 0 <? n | None => false end in
      let inflight := if 0 <? max_queue lim then rin_flight s + 1 else rin_flight s in
      let base p u pu body eof :=
        QOk (mkRS [] [] p u pu (rm_close m) inflight, rev_msg m body eof) in
      if negb empty_body && (has_len || rm_chunked m) then
        if c_with_body cfg then
          let k := if rm_chunked m then RChunked RSize
                   else RLength (match len with Some n => n | None => 0 end) in
          base (Some (mkRP k [] [] max_tr)) (rupgraded s) upg true false
        else (* HEAD: the payload parser is done at once; a requested upgrade is dropped *)
          base None (rupgraded s) (rpending_upgrade s) true true
      else if negb empty_body && (match len with None => true | Some _ => false end) && c_until_eof cfg then
        if c_with_body cfg then base (Some (mkRP RUntilEof [] [] max_tr)) (rupgraded s) (rpending_upgrade s) true false
        else base None (rupgraded s) (rpending_upgrade s) true true
      else if upg then base None true (rpending_upgrade s) false true
      else base None (rupgraded s) (rpending_upgrade s) false true
    end
  end.

(* which payload-parser exceptions leave feed_data (shared rule, Generated/HttpGen.v) *)
Definition rpayload_error_is_fatal (e : herr) : bool := payload_error_is_fatal e.

Fixpoint rfeed_loop (fuel : nat) (cfg : rcfg) (s : rst) (buf : bytes) (evs : racc)
  : rst * racc * routcome :=
  let lim := c_lim cfg in
  match fuel with
  | O => (s, evs, OErr EBadMessage)      (* unreachable: fuel > 2 * length buf *)
  | S f =>
    match buf with
    | [] => (s, evs, OOk [])
    | _ :: _ =>
      match rpayload s with
      | Some p =>
        match rfeed_payload lim p buf evs with
        | QNeed p' e1 =>
          (mkRS (rlines s) (rtail s) (Some p') (rupgraded s) (rpending_upgrade s) (rshould_close s) (rin_flight s),
           e1, OOk [])
        | QDone rest e1 =>
          let s' := mkRS (rlines s) (rtail s) None (rupgraded s || rpending_upgrade s) false
                         (rshould_close s) (rin_flight s) in
          rfeed_loop f cfg s' rest e1
        | QFail e e1 =>
          if rpayload_error_is_fatal e then (s, rev_err e e1, OErr e)
          else
            (mkRS (rlines s) (rtail s) None (rupgraded s || rpending_upgrade s) false (rshould_close s) (rin_flight s),
             rev_err e e1, OOk [])
        end
      | None =>
        if rupgraded s then (s, evs, OOk buf)
        else if (0 <? max_queue lim) && (max_queue lim <=? rin_flight s) then
          (mkRS (rlines s) buf None (rupgraded s) (rpending_upgrade s) (rshould_close s) (rin_flight s), evs, OOk [])
        else
          match find_lf buf with
          | Some (raw, rest) =>
            match raw, rlines s with
            | [], [] => rfeed_loop f cfg s rest evs        (* pos == start_pos and not self._lines *)
            | _, _ =>
              if rshould_close s then (s, evs, OErr EBadMessage) else
              let line := rstrip_cr raw in
              let limit := match rlines s with [] => max_line lim | _ => max_field lim end in
              if limit <? len1 raw then (s, evs, OErr ELineTooLong) else
              let ls := rlines s ++ [line] in
              if max_headers lim <? lenN ls then (s, evs, OErr EBadMessage) else
              match line with
              | [] =>
                match rstart_message cfg s ls with
                | QErr e => (s, evs, OErr e)
                | QOk (s', e1) => rfeed_loop f cfg s' rest (e1 evs)
                end
              | _ =>
                rfeed_loop f cfg
                  (mkRS ls (rtail s) None (rupgraded s) (rpending_upgrade s) (rshould_close s) (rin_flight s))
                  rest evs
              end
            end
          | None =>
            (* the buffered tail is measured like a complete line: its last CR does not count *)
            let limit := match rlines s with [] => max_line lim | _ => max_field lim end in
            if limit <? len1 buf then (s, evs, OErr ELineTooLong)
            else (mkRS (rlines s) buf None (rupgraded s) (rpending_upgrade s) (rshould_close s) (rin_flight s),
                  evs, OOk [])
          end
      end
    end
  end.

Definition rfeed (cfg : rcfg) (s : rst) (data : bytes) (a : racc) : rst * racc * routcome :=
  let buf := rtail s ++ data in
  let s0 := mkRS (rlines s) [] (rpayload s) (rupgraded s) (rpending_upgrade s) (rshould_close s) (rin_flight s) in
  rfeed_loop (2 * length buf + 2) cfg s0 buf a.

(* run a whole segmentation; stops at the first exception *)
Fixpoint rrun_segs (cfg : rcfg) (s : rst) (segs : list bytes) (a : racc) (lo : bytes)
  : rst * racc * routcome :=
  match segs with
  | [] => (s, a, OOk lo)
  | d :: segs' =>
    match rfeed cfg s d a with
    | (s', a', OOk l) => rrun_segs cfg s' segs' a' (lo ++ l)
    | (s', a', r) => (s', a', r)
    end
  end.

(* ---------------- HttpParser.feed_eof ---------------- *)
Inductive eofres :=
| EofOk (partial : option rmsg)      (* return value: the message parsed from an incomplete head, if any *)
| EofErr (e : herr).                 (* ContentLengthError / TransferEncodingError *)

Definition rfeed_eof (cfg : rcfg) (s : rst) (a : racc) : rst * racc * eofres :=
  match rpayload s with
  | Some p =>
    match rpk p with
    | RUntilEof =>
      (mkRS (rlines s) (rtail s) None (rupgraded s) (rpending_upgrade s) (rshould_close s) (rin_flight s),
       rev_eof a, EofOk None)
    | RLength rem =>
      if rem =? 0 then
        (mkRS (rlines s) (rtail s) None (rupgraded s) (rpending_upgrade s) (rshould_close s) (rin_flight s),
         rev_eof a, EofOk None)
      else (s, a, EofErr EContentLength)
    | RChunked _ => (s, a, EofErr ETransferEncoding)
    end
  | None =>
    (* try to extract a partial message: the buffered tail counts as a last line *)
    let ls := rlines s ++ (match rtail s with [] => [] | t => [t] end) in
    match ls with
    | [] => (s, a, EofOk None)
    | _ => match parse_response (max_field (c_lim cfg)) ls with
           | QOk m => (s, a, EofOk (Some m))
           | QErr _ => (s, a, EofOk None)         (* with suppress(Exception) *)
           end
    end
  end.
