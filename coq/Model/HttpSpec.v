(* A whole-stream, non-incremental reading of RFC 9112 request framing (sections 2-7) with the
   strictness choices aiohttp documents.  Short on purpose: no buffers, no resumption, no per-call
   state.  It shares the field-level validators (parse_request, parse_fields, ...) with
   Model/Http.v and is independent of it in everything that concerns splitting the stream:
   finding header blocks, taking bodies, de-chunking.  Definitions only. *)
From AV Require Import Lib.Base Lib.BytesX Generated.HttpGen Model.Http.
Open Scope N_scope.

(* one message as read from the stream, with the span of bytes it occupies *)
Record smsg := mkSM { s_msg : msg; s_body : bytes; s_chunk_ends : list N; s_span : bytes }.

Inductive sverdict :=
| SAccept (ms : list smsg) (skipped : list bytes) (* the stream is exactly these messages *)
| SUpgraded (ms : list smsg) (rest : bytes)        (* last message switches protocols; rest is not HTTP *)
| SIncomplete (ms : list smsg) (rest : bytes)      (* rest is a proper prefix of a message *)
| SReject (ms : list smsg) (e : herr)              (* answered with a client error *)
| SAsk (connect : bool) (target : bytes).

(* lines of a header block: up to and excluding the first empty line *)
Fixpoint take_block (fuel : nat) (s : bytes) (ls : list bytes) : option (list bytes * bytes) :=
  match fuel with
  | O => None
  | S f =>
    match find_crlf s with
    | None => None
    | Some ([], rest) => Some (ls, rest)
    | Some (l, rest) => take_block f rest (ls ++ [l])
    end
  end.

Inductive dres := DOk (data : bytes) (ends : list N) (rest : bytes) | DIncomplete | DReject (e : herr).

Fixpoint dechunk (fuel : nat) (lim : limits) (max_tr : N) (s : bytes) (data : bytes) (ends : list N) : dres :=
  match fuel with
  | O => DIncomplete
  | S f =>
    match find_crlf s with
    | None => if has_byte 10 s then DReject ETransferEncoding else DIncomplete
    | Some (line, rest) =>
      if max_line lim <? lenN line then DReject ELineTooLong else
      let size_b := match split_first 59 line with Some (sz, _) => sz | None => line end in
      let ext_bad := match split_first 59 line with Some (_, ext) => has_byte 10 ext | None => false end in
      if ext_bad || negb (nonempty size_b && forallb hex_digit size_b) then DReject ETransferEncoding else
      let size := parse_hex size_b in
      if size =? 0 then
        match take_block (S (length rest)) rest [] with
        | None => DIncomplete
        | Some (tls, rest') =>
          if existsb (fun l => max_field lim <? lenN l) tls then DReject ELineTooLong
          else if max_tr <? lenN tls + 1 then DReject EBadMessage
          else match parse_trailers tls with
               | Some e => DReject e
               | None => DOk data ends rest'
               end
        end
      else
        let '(d, rest1) := takeN size rest in
        if lenN d <? size then DIncomplete else
        match rest1 with
        | 13 :: 10 :: rest2 => dechunk f lim max_tr rest2 (data ++ d) (ends ++ [lenN (data ++ d)])
        | [] | [13] => DIncomplete
        | _ => DReject ETransferEncoding
        end
    end
  end.

Fixpoint skip_crlfs (s : bytes) : bytes :=
  match s with
  | 13 :: 10 :: s' => skip_crlfs s'
  | _ => s
  end.

Definition span_of (before after : bytes) : bytes := firstn (length before - length after) before.

Fixpoint spec_loop (fuel : nat) (lim : limits) (o : oracle) (s : bytes) (ms : list smsg) (closing : bool)
  : sverdict :=
  match fuel with
  | O => SIncomplete ms s
  | S f =>
    let s1 := skip_crlfs s in
    match s1 with
    | [] => SAccept ms []
    | _ :: _ =>
      match take_block (S (length s1)) s1 [] with
      | None => SIncomplete ms s1
      | Some (ls, rest) =>
        if closing then SReject ms EBadMessage else
        match ls with
        | [] => SReject ms EBadMessage          (* cannot happen: leading CRLFs were skipped *)
        | rl :: fls =>
          if (max_line lim <? lenN rl) || existsb (fun l => max_field lim <? lenN l) fls then SReject ms ELineTooLong
          else if max_headers lim <? lenN ls + 1 then SReject ms EBadMessage
          else
            match start_message lim o init (ls ++ [[]]) with
            | PErr e => SReject ms e
            | PAsk c t => SAsk c t
            | POk (st, _) =>
              match parse_request o ls with
              | POk m =>
                match payload st with
                | None =>
                  let sm := mkSM m [] [] (span_of s1 rest) in
                  if upgraded st then SUpgraded (ms ++ [sm]) rest
                  else spec_loop f lim o rest (ms ++ [sm]) (m_close m)
                | Some p =>
                  match pk p with
                  | PUntilEof => SUpgraded (ms ++ [mkSM m [] [] (span_of s1 rest)]) rest
                  | PLength n =>
                    let '(d, rest') := takeN n rest in
                    if lenN d <? n then SIncomplete ms s1
                    else let sm := mkSM m d [] (span_of s1 rest') in
                         if pending_upgrade st then SUpgraded (ms ++ [sm]) rest'
                         else spec_loop f lim o rest' (ms ++ [sm]) (m_close m)
                  | PChunked _ =>
                    match dechunk (S (length rest)) lim (max_trailers p) rest [] [] with
                    | DIncomplete => SIncomplete ms s1
                    | DReject e => SReject ms e
                    | DOk d ends rest' =>
                      let sm := mkSM m d ends (span_of s1 rest') in
                      if pending_upgrade st then SUpgraded (ms ++ [sm]) rest'
                      else spec_loop f lim o rest' (ms ++ [sm]) (m_close m)
                    end
                  end
                end
              | PErr e => SReject ms e
              | PAsk c t => SAsk c t
              end
            end
        end
      end
    end
  end.

Definition spec (lim : limits) (o : oracle) (s : bytes) : sverdict :=
  spec_loop (S (length s)) lim o s [] false.
