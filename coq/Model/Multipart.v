(* Model of aiohttp/multipart.py: MultipartWriter framing and size, MultipartReader / BodyPartReader
   over a StreamReader whose bytes arrive in segments.  Definitions only.

   Transcribed: MultipartWriter.write/as_bytes/size (identity parts; an encoded part is an opaque wire
   body and makes size None), StreamReader.read/readuntil/unread_data/at_eof as used by the reader,
   BodyPartReader.read_chunk/_read_chunk_from_stream/_read_chunk_from_length/_align_base64_chunk/
   read/release/readline, MultipartReader.next/_read_until_first_boundary/_read_boundary/_read_headers/
   _maybe_release_last_part, HeadersParser.parse_headers (strict).
   Nested multipart parts are walked depth-first (child reader on the same stream, limits inherited).
   Not modelled (explicit outcome FUnmodelled): the form-data `_charset_` part, a nested part whose Content-Type is
   not ASCII, a nested reader abandoned before its closing delimiter.
   Python exceptions are the constructors of [err]; EFuel is the model's own "loop bound exhausted"
   outcome and is proved unreachable for the part-reading loops in Proofs/MultipartTerm.v. *)
From AV Require Import Lib.Base Lib.BytesX Generated.HttpGen Generated.MultipartGen.
Open Scope N_scope.

Definition takeb (n : N) (l : bytes) : bytes := firstn (N.to_nat n) l.
Definition dropb (n : N) (l : bytes) : bytes := skipn (N.to_nat n) l.
Definition is_nil {A} (l : list A) : bool := match l with [] => true | _ => false end.

(* ------------------------------------------------------------------ writer *)

(* one part as the writer sees it: Payload._binary_headers (already ending with the empty line) and the
   bytes part.write() produces; [wp_identity] = no Content-Encoding / Content-Transfer-Encoding *)
Record wpart := mkW { wp_headers : bytes; wp_body : bytes; wp_identity : bool }.

Definition encode_part (b : bytes) (p : wpart) : bytes :=
  frame_open ++ b ++ frame_open_end ++ wp_headers p ++ wp_body p ++ frame_part_end.
Definition close_delim (b : bytes) : bytes := frame_close ++ b ++ frame_close_end.
Fixpoint encode_parts (b : bytes) (ps : list wpart) : bytes :=
  match ps with [] => [] | p :: r => encode_part b p ++ encode_parts b r end.
(* MultipartWriter.write(writer, close_boundary=True) *)
Definition encode (b : bytes) (ps : list wpart) : bytes := encode_parts b ps ++ close_delim b.

(* MultipartWriter.size; part.size of a bytes-like payload is the length of what it writes *)
Fixpoint size_parts (b : bytes) (ps : list wpart) : option N :=
  match ps with
  | [] => Some 0
  | p :: r =>
    if wp_identity p then
      match size_parts b r with
      | Some t => Some (part_size_formula (lenN b) (lenN (wp_body p)) (lenN (wp_headers p)) + t)
      | None => None
      end
    else None
  end.
Definition size (b : bytes) (ps : list wpart) : option N :=
  match size_parts b ps with Some t => Some (t + closing_size_formula (lenN b)) | None => None end.

(* ------------------------------------------------------------------ stream *)

(* s_pending: (delay, segment): before every read()/readuntil() the head delay is decremented and all head
   segments with delay 0 arrive; when the reader must wait the head segment arrives alone.  s_eager:
   feed_eof() comes together with the last segment, otherwise when the reader waits once more. *)
Record stream := mkStream {
  s_buf : bytes; s_pending : list (N * bytes); s_eof : bool; s_eager : bool; s_low : N; s_high : N }.

Definition s_init (segs : list (N * bytes)) (eager : bool) (limit : N) : stream :=
  mkStream [] segs (eager && is_nil segs) eager limit (limit * 2).

Definition s_with (s : stream) (b : bytes) (p : list (N * bytes)) (e : bool) : stream :=
  mkStream b p e (s_eager s) (s_low s) (s_high s).

Fixpoint arrive0 (p : list (N * bytes)) : bytes * list (N * bytes) :=
  match p with
  | (d, seg) :: r => if d =? 0 then let '(b, r') := arrive0 r in (seg ++ b, r') else ([], p)
  | [] => ([], [])
  end.
Definition dec_head (p : list (N * bytes)) : list (N * bytes) :=
  match p with (d, seg) :: r => (d - 1, seg) :: r | [] => [] end.

Definition s_tick (s : stream) : stream :=
  if s_eof s then s else
  let '(b, r) := arrive0 (dec_head (s_pending s)) in
  s_with s (s_buf s ++ b) r (s_eager s && is_nil r).

(* the reader waits: the next non-empty segment arrives alone (feed_data(b"") wakes nobody), or EOF *)
Fixpoint next_seg (p : list (N * bytes)) : bytes * list (N * bytes) :=
  match p with
  | [] => ([], [])
  | (_, seg) :: r => match seg with [] => next_seg r | _ => (seg, r) end
  end.
Definition s_wait (s : stream) : stream :=
  let '(seg, r) := next_seg (s_pending s) in
  match seg with
  | [] => s_with s (s_buf s) [] true
  | _ => s_with s (s_buf s ++ seg) r (s_eager s && is_nil r)
  end.

Definition s_at_eof (s : stream) : bool := s_eof s && is_nil (s_buf s).

Definition s_unread (d : bytes) (s : stream) : stream :=
  match d with [] => s | _ => s_with s (d ++ s_buf s) (s_pending s) (s_eof s) end.

Definition s_set_chunk_size (n : N) (s : stream) : stream :=
  if s_low s <? n then mkStream (s_buf s) (s_pending s) (s_eof s) (s_eager s) n (n * 2) else s.

(* StreamReader.read(n), n >= 0 *)
Definition s_read (n : N) (s : stream) : bytes * stream :=
  let s := s_tick s in
  if n =? 0 then ([], s) else
  let s := s_set_chunk_size n s in
  let s := if is_nil (s_buf s) && negb (s_eof s) then s_wait s else s in
  (takeb n (s_buf s), s_with s (dropb n (s_buf s)) (s_pending s) (s_eof s)).

Fixpoint find_lf (b : bytes) : option (bytes * bytes) :=
  match b with
  | [] => None
  | c :: r => if c =? 10 then Some ([c], r)
              else match find_lf r with Some (l, rest) => Some (c :: l, rest) | None => None end
  end.

(* StreamReader.readuntil(b"\n", max_size): None = LineTooLong *)
Fixpoint readline_go (p : list (N * bytes)) (acc buf : bytes) (eof eager : bool) (max : N)
  : option bytes * (bytes * list (N * bytes) * bool) :=
  match find_lf buf with
  | Some (line, rest) =>
    let acc' := acc ++ line in
    if max <? lenN acc' then (None, (rest, p, eof)) else (Some acc', (rest, p, eof))
  | None =>
    let acc' := acc ++ buf in
    if max <? lenN acc' then (None, ([], p, eof))
    else if eof then (Some acc', ([], p, eof))
    else match p with
         | [] => (Some acc', ([], [], true))
         | (_, seg) :: r => readline_go r acc' seg (eager && is_nil r) eager max
         end
  end.

(* readline(max_line_length=max); max = 0 stands for None (`max_size or self._high_water`) *)
Definition s_readline (max : N) (s : stream) : option bytes * stream :=
  let s := s_tick s in
  let m := if max =? 0 then s_high s else max in
  let '(r, (b, p, e)) := readline_go (s_pending s) [] (s_buf s) (s_eof s) (s_eager s) m in
  (r, s_with s b p e).

Fixpoint pending_total (p : list (N * bytes)) : N :=
  match p with [] => 0 | (_, seg) :: r => lenN seg + pending_total r end.
Definition s_total (s : stream) : N := lenN (s_buf s) + pending_total (s_pending s).

(* ------------------------------------------------------------------ results *)

Inductive err := EValue | ELineTooLong | EBadHttp | EInvalidHeader | EMaxSize | EAssert | EFuel.
Inductive res (A : Type) := Ok (a : A) | Err (e : err).
Arguments Ok {A} a. Arguments Err {A} e.

(* ------------------------------------------------------------------ BodyPartReader *)

Record part := mkPart {
  p_boundary : bytes;          (* "--" ++ boundary *)
  p_length : option N;         (* Content-Length, None for form-data *)
  p_b64 : bool;                (* Content-Transfer-Encoding: base64 *)
  p_at_eof : bool;
  p_read_bytes : N;
  p_carry : bytes;
  p_unread : list bytes;       (* deque: append at the end, popleft at the head *)
  p_prev : option bytes;
  p_content_eof : N;
  p_max : N;
  p_prev_crlf : bool }.        (* readline: the previous line ended with CRLF *)                 (* client_max_size *)

Definition p_blen (p : part) : N := boundary_len_formula (lenN (p_boundary p)).

Definition new_part (boundary : bytes) (length : option N) (b64 : bool) (max : N) : part :=
  mkPart boundary length b64 false 0 [] [] None 0 max true.

Definition p_set_eof (p : part) : part :=
  mkPart (p_boundary p) (p_length p) (p_b64 p) true (p_read_bytes p) (p_carry p) (p_unread p) (p_prev p)
         (p_content_eof p) (p_max p) (p_prev_crlf p).
Definition p_set_carry (c : bytes) (p : part) : part :=
  mkPart (p_boundary p) (p_length p) (p_b64 p) (p_at_eof p) (p_read_bytes p) c (p_unread p) (p_prev p)
         (p_content_eof p) (p_max p) (p_prev_crlf p).
Definition p_add_read (n : N) (p : part) : part :=
  mkPart (p_boundary p) (p_length p) (p_b64 p) (p_at_eof p) (p_read_bytes p + n) (p_carry p) (p_unread p)
         (p_prev p) (p_content_eof p) (p_max p) (p_prev_crlf p).
Definition p_set_unread (u : list bytes) (p : part) : part :=
  mkPart (p_boundary p) (p_length p) (p_b64 p) (p_at_eof p) (p_read_bytes p) (p_carry p) u (p_prev p)
         (p_content_eof p) (p_max p) (p_prev_crlf p).
Definition p_set_line (ceof : N) (crlf : bool) (p : part) : part :=
  mkPart (p_boundary p) (p_length p) (p_b64 p) (p_at_eof p) (p_read_bytes p) (p_carry p) (p_unread p) (p_prev p)
         ceof (p_max p) crlf.
Definition p_set_window (prev : bytes) (ceof : N) (ateof : bool) (p : part) : part :=
  mkPart (p_boundary p) (p_length p) (p_b64 p) (ateof || p_at_eof p) (p_read_bytes p) (p_carry p) (p_unread p)
         (Some prev) ceof (p_max p) (p_prev_crlf p).

Fixpoint find_at (sub w : bytes) (i : N) : option N :=
  if starts_with sub w then Some i
  else match w with [] => None | _ :: w' => find_at sub w' (i + 1) end.
(* bytes.find(sub, start) for a non-empty sub *)
Definition find_from (sub w : bytes) (start : N) : option N := find_at sub (dropb start w) start.

(* the `while len(chunk) < self._boundary_len` loop of _read_chunk_from_stream *)
Fixpoint fill_chunk (fuel : nat) (size blen : N) (chunk : bytes) (ceof : N) (s : stream)
  : res (bytes * N * stream) :=
  if fill_more (lenN chunk) blen then
    match fuel with
    | O => Err EFuel
    | S f =>
      let '(d, s1) := s_read size s in
      let chunk' := chunk ++ d in
      let ceof' := ceof + (if s_at_eof s1 then 1 else 0) in
      if content_eof_exceeded ceof' then Err EValue
      else if negb (ceof' =? 0) then Ok (chunk', ceof', s1)
      else fill_chunk f size blen chunk' ceof' s1
    end
  else Ok (chunk, ceof, s).

Definition delimiter (p : part) : bytes := delim_prefix ++ p_boundary p.

Definition read_chunk_from_stream (size : N) (p : part) (s : stream) : res (bytes * part * stream) :=
  let blen := p_blen p in
  if size <? blen then Err EAssert else
  let first := match p_prev p with None => true | Some _ => false end in
  let '(prev, s1) := match p_prev p with
                     | None => let '(d, s') := s_read size s in (delim_prefix ++ d, s')
                     | Some pv => (pv, s)
                     end in
  match fill_chunk (S (N.to_nat blen)) size blen [] (p_content_eof p) s1 with
  | Err e => Err e
  | Ok (chunk0, ceof, s2) =>
    let '(chunk, s3) := if overflow (lenN chunk0) size
                        then (takeb size chunk0, s_unread (dropb size chunk0) s2)
                        else (chunk0, s2) in
    let window := prev ++ chunk in
    let sub := delimiter p in
    let start := if first then 0 else window_search_start (lenN prev) (lenN sub) in
    let strip := if first then first_chunk_strip else 0 in
    match find_from sub window start with
    | Some idx =>
      let s4 := s_unread (dropb idx window) s3 in
      let prev' := takeb idx prev in
      let chunk' := dropb (lenN prev') (takeb idx window) in
      Ok (dropb strip prev', p_set_window chunk' ceof (is_nil chunk') p, s4)
    | None => Ok (dropb strip prev, p_set_window chunk ceof false p, s3)
    end
  end.

Definition read_chunk_from_length (size len : N) (p : part) (s : stream) : res (bytes * part * stream) :=
  let n := N.min size (len - p_read_bytes p) in
  let '(d, s1) := s_read n s in
  Ok (d, if s_at_eof s1 then p_set_eof p else p, s1).

Definition count_b64 (b : bytes) : N := lenN (filter base64_char b).

(* walking back from the end over [left] base64 characters; r = reversed chunk; result = bytes walked *)
Fixpoint walk_back (r : bytes) (left taken : N) : N :=
  if left =? 0 then taken else
  match r with
  | [] => taken
  | c :: r' => if base64_char c then walk_back r' (left - 1) (taken + 1) else walk_back r' left (taken + 1)
  end.

Definition align_base64 (chunk : bytes) (size : N) (p : part) : bytes * part :=
  let at_end := p_at_eof p || match p_length p with Some l => l <=? p_read_bytes p | None => false end in
  let '(chunk, p) := if negb at_end && (size <? lenN chunk)
                     then (takeb size chunk, p_set_carry (dropb size chunk) p) else (chunk, p) in
  let remainder := count_b64 chunk mod 4 in
  if (remainder =? 0) || at_end then (chunk, p) else
  let cut := lenN chunk - walk_back (rev chunk) remainder 0 in
  if cut =? 0 then
    (* no whole quartet: after a short read keep the lot for the next call, else hand the chunk back as it is *)
    if lenN chunk <? size then ([], p_set_carry (chunk ++ p_carry p) p) else (chunk, p)
  else (takeb cut chunk, p_set_carry (dropb cut chunk ++ p_carry p) p).

Definition length_reached (p : part) : bool :=
  match p_length p with Some l => p_read_bytes p =? l | None => false end.

Definition read_chunk_once (size : N) (p : part) (s : stream) : res (bytes * part * stream) :=
  if p_at_eof p then Ok ([], p, s) else
  let carry := p_carry p in
  let want := if is_nil carry then size else N.max (size - lenN carry) (p_blen p) in
  let p0 := p_set_carry [] p in
  let r := match p_length p with
           | Some l => if l =? 0 then read_chunk_from_stream want p0 s else read_chunk_from_length want l p0 s
           | None => read_chunk_from_stream want p0 s
           end in
  match r with
  | Err e => Err e
  | Ok (fresh, p1, s1) =>
    let chunk := carry ++ fresh in
    let p2 := p_add_read (lenN fresh) p1 in
    let '(chunk2, p3) := if p_b64 p then align_base64 chunk (lenN carry + want) p2 else (chunk, p2) in
    let p4 := if length_reached p3 then p_set_eof p3 else p3 in
    if p_at_eof p4 then
      match s_readline 0 s1 with
      | (None, _) => Err ELineTooLong
      | (Some l, s2) => if list_eqb l CRLF then Ok (chunk2, p4, s2) else Err EValue
      end
    else Ok (chunk2, p4, s1)
  end.

(* `if not chunk and self._b64_carry and not self._at_eof: return await self.read_chunk(size)` *)
Definition retry (d : bytes) (p : part) : bool := is_nil d && negb (is_nil (p_carry p)) && negb (p_at_eof p).
Fixpoint read_chunk_n (n : nat) (size : N) (p : part) (s : stream) : res (bytes * part * stream) :=
  match read_chunk_once size p s with
  | Err e => Err e
  | Ok (d, p', s') =>
    if retry d p' then match n with O => Err EFuel | S n' => read_chunk_n n' size p' s' end
    else Ok (d, p', s')
  end.
(* a bound on the number of re-reads (each one strictly decreases the measure of Proofs/MultipartTerm.v) *)
Definition chunk_budget (p : part) (s : stream) : nat :=
  S (N.to_nat (4 * (2 * s_total s + match p_prev p with Some v => lenN v | None => 0 end) + 3)).
(* BodyPartReader.read_chunk(size) *)
Definition read_chunk (size : N) (p : part) (s : stream) : res (bytes * part * stream) :=
  read_chunk_n (chunk_budget p s) size p s.

(* BodyPartReader.read(): `while not at_eof: data += read_chunk(chunk_size); if len(data) > max: raise` *)
Fixpoint read_loop (fuel : nat) (acc : bytes) (p : part) (s : stream) : res (bytes * part * stream) :=
  if p_at_eof p then Ok (acc, p, s) else
  match fuel with
  | O => Err EFuel
  | S f =>
    match read_chunk chunk_size p s with
    | Err e => Err e
    | Ok (d, p', s') =>
      let acc' := acc ++ d in
      if over_client_max (lenN acc') (p_max p) then Err EMaxSize else read_loop f acc' p' s'
    end
  end.
Definition part_read (fuel : nat) (p : part) (s : stream) := read_loop fuel [] p s.

(* BodyPartReader.release() *)
Fixpoint release_loop (fuel : nat) (p : part) (s : stream) : res (part * stream) :=
  if p_at_eof p then Ok (p, s) else
  match fuel with
  | O => Err EFuel
  | S f =>
    match read_chunk chunk_size p s with
    | Err e => Err e
    | Ok (_, p', s') => release_loop f p' s'
    end
  end.

(* the user's `while not part.at_eof(): await part.read_chunk(size_i)`; count = 0: until at_eof, else at most
   [count] calls; sizes are used in rotation *)
Fixpoint chunks_loop (fuel : nat) (sizes : list N) (count : N) (bounded : bool) (acc : bytes) (p : part) (s : stream)
  : res (bytes * part * stream) :=
  if p_at_eof p || (bounded && (count =? 0)) then Ok (acc, p, s) else
  match fuel with
  | O => Err EFuel
  | S f =>
    let '(sz, sizes') := match sizes with [] => (chunk_size, []) | z :: r => (z, r ++ [z]) end in
    match read_chunk sz p s with
    | Err e => Err e
    | Ok (d, p', s') => chunks_loop f sizes' (count - 1) bounded (acc ++ d) p' s'
    end
  end.

Definition rstrip_with (f : N -> bool) (b : bytes) : bytes :=
  rev ((fix go (r : bytes) : bytes := match r with c :: r' => if f c then go r' else r | [] => [] end) (rev b)).
Definition is_crlf_byte (c : N) : bool := (c =? 13) || (c =? 10).
Definition is_space_byte (c : N) : bool := ((9 <=? c) && (c <=? 13)) || (c =? 32).
Definition rstrip_crlf := rstrip_with is_crlf_byte.   (* bytes.rstrip(b"\r\n") *)
Definition rstrip_ws := rstrip_with is_space_byte.    (* bytes.rstrip() *)

Definition drop_last2 (l : bytes) : bytes := takeb (lenN l - 2) l.      (* line[:-2] *)

(* BodyPartReader.readline() *)
Definition ends_crlf (l : bytes) : bool := list_eqb (dropb (lenN l - 2) l) CRLF.
Definition part_readline (p : part) (s : stream) : res (bytes * part * stream) :=
  if p_at_eof p then Ok ([], p, s) else
  let r1 := match p_unread p with
            | l :: u => Ok (l, p_set_unread u p, s)
            | [] => match s_readline 0 s with
                    | (None, _) => Err ELineTooLong
                    | (Some l, s') => Ok (l, p, s')
                    end
            end in
  match r1 with
  | Err e => Err e
  | Ok (line, p1, s1) =>
    (* the stream ended before the closing boundary: count, and refuse the third time *)
    let ceof := if is_nil line && s_at_eof s1 then p_content_eof p1 + 1 else p_content_eof p1 in
    if is_nil line && s_at_eof s1 && content_eof_exceeded ceof then Err EValue else
    let after_crlf := p_prev_crlf p1 in
    let crlf := ends_crlf line in
    let p2 := p_set_line ceof crlf p1 in
    let b := p_boundary p in
    if after_crlf && starts_with b line then
      let sline := rstrip_crlf line in
      if list_eqb sline b || list_eqb sline (b ++ [45; 45])
      then Ok ([], p_set_unread (p_unread p2 ++ [line]) (p_set_eof p2), s1)
      else Ok (line, p2, s1)
    else
      match s_readline 0 s1 with
      | (None, _) => Err ELineTooLong
      | (Some nl, s2) =>
        let line' := if crlf && starts_with b nl then drop_last2 line else line in
        Ok (line', p_set_unread (p_unread p2 ++ [nl]) p2, s2)
      end
  end.

(* the user's `while not part.at_eof(): await part.readline()` (bounded like chunks_loop) *)
Fixpoint lines_loop (fuel : nat) (count : N) (bounded : bool) (acc : bytes) (p : part) (s : stream)
  : res (bytes * part * stream) :=
  if p_at_eof p || (bounded && (count =? 0)) then Ok (acc, p, s) else
  match fuel with
  | O => Err EFuel
  | S f =>
    match part_readline p s with
    | Err e => Err e
    | Ok (d, p', s') => lines_loop f (count - 1) bounded (acc ++ d) p' s'
    end
  end.

(* ------------------------------------------------------------------ HeadersParser (strict) *)

Definition parse_field (line : bytes) : res (bytes * bytes) :=
  match split_first 58 line with
  | None => Err EInvalidHeader
  | Some (bname, bvalue) =>
    match bname with
    | [] => Err EInvalidHeader
    | f :: _ =>
      if is_ows f || is_ows (last bname 0) then Err EInvalidHeader
      else if negb (forallb tchar bname) then Err EInvalidHeader
      else let v := strip_ows bvalue in
           if existsb field_forbidden_ctl v then Err EInvalidHeader else Ok (bname, v)
    end
  end.

Definition has_header (name : bytes) (hs : list (bytes * bytes)) : bool :=
  existsb (fun kv => ieqb (fst kv) name) hs.
Definition is_singleton (name : bytes) : bool := mem_bytes (map lower name) singleton_headers.

Fixpoint parse_fields (lines : list bytes) (acc : list (bytes * bytes)) : res (list (bytes * bytes)) :=
  match lines with
  | [] => Ok acc
  | l :: ls =>
    match parse_field l with
    | Ok (n, v) => if has_header n acc && is_singleton n then Err EBadHttp else parse_fields ls (acc ++ [(n, v)])
    | Err e => Err e
    end
  end.

(* HeadersDictProxy.get(name): all values whose name matches case-insensitively, joined by ", " *)
Fixpoint get_all (name : bytes) (hs : list (bytes * bytes)) : list bytes :=
  match hs with
  | [] => []
  | (k, v) :: hs' => if ieqb k name then v :: get_all name hs' else get_all name hs'
  end.
Fixpoint join_comma (vs : list bytes) : bytes :=
  match vs with
  | [] => []
  | [v] => v
  | v :: r => v ++ [44; 32] ++ join_comma r
  end.
Definition get_header (name : bytes) (hs : list (bytes * bytes)) : option bytes :=
  match get_all name hs with [] => None | vs => Some (join_comma vs) end.

Definition h_content_length : bytes := [99;111;110;116;101;110;116;45;108;101;110;103;116;104].
Definition h_content_type : bytes := [99;111;110;116;101;110;116;45;116;121;112;101].
Definition h_content_disposition : bytes :=
  [99;111;110;116;101;110;116;45;100;105;115;112;111;115;105;116;105;111;110].
Definition h_cte : bytes :=
  [99;111;110;116;101;110;116;45;116;114;97;110;115;102;101;114;45;101;110;99;111;100;105;110;103].
Definition t_base64 : bytes := [98;97;115;101;54;52].
Definition t_multipart : bytes := [109;117;108;116;105;112;97;114;116].
Definition t_charset_name : bytes := [95;99;104;97;114;115;101;116;95].      (* _charset_ *)

Fixpoint contains (sub w : bytes) : bool :=
  starts_with sub w || match w with [] => false | _ :: w' => contains sub w' end.

(* parse_mimetype(ctype).type == "multipart" (ASCII whitespace / case only) *)
Definition lstrip_ws (b : bytes) : bytes :=
  (fix go (r : bytes) : bytes := match r with c :: r' => if is_space_byte c then go r' else r | [] => [] end) b.
Definition is_multipart_ctype (v : bytes) : bool :=
  let full := match split_first 59 v with Some (a, _) => a | None => v end in
  let full := map lower (rstrip_ws (lstrip_ws full)) in
  let mtype := match split_first 47 full with Some (a, _) => a | None => full end in
  list_eqb mtype t_multipart.

(* ------------------------------------------------------------------ MultipartReader *)

Record reader := mkReader {
  r_boundary : bytes;          (* "--" ++ boundary parameter *)
  r_at_eof : bool; r_at_bof : bool;
  r_unread : list bytes;       (* Python list used as a stack; head = next pop() *)
  r_form : bool;               (* subtype == "form-data" *)
  r_max_field : N; r_max_headers : N; r_client_max : N }.

Definition new_reader (boundary : bytes) (form : bool) (max_field max_headers client_max : N) : reader :=
  mkReader (reader_boundary_prefix ++ boundary) false true [] form max_field max_headers client_max.

Definition r_upd (r : reader) (ateof atbof : bool) (u : list bytes) : reader :=
  mkReader (r_boundary r) ateof atbof u (r_form r) (r_max_field r) (r_max_headers r) (r_client_max r).

Definition r_readline (r : reader) (s : stream) : res (bytes * reader * stream) :=
  match r_unread r with
  | l :: u => Ok (l, r_upd r (r_at_eof r) (r_at_bof r) u, s)
  | [] => match s_readline 0 s with
          | (None, _) => Err ELineTooLong
          | (Some l, s') => Ok (l, r, s')
          end
  end.

(* _read_closing_boundary_tail: what follows a closing boundary belongs to the parent *)
Definition closing_tail (r1 : reader) (s1 : stream) : res (reader * stream) :=
  match r_readline r1 s1 with
  | Err e => Err e
  | Ok (epilogue, r2, s2) =>
    match r_readline r2 s2 with
    | Err e => Err e
    | Ok (next_line, r3, s3) =>
      let u := if list_eqb (takeb 2 next_line) [45; 45] then next_line :: r_unread r3
               else epilogue :: next_line :: r_unread r3 in
      Ok (r_upd r3 true (r_at_bof r3) u, s3)
    end
  end.

Fixpoint read_until_first_boundary (fuel : nat) (r : reader) (s : stream) : res (reader * stream) :=
  match fuel with
  | O => Err EFuel
  | S f =>
    match r_readline r s with
    | Err e => Err e
    | Ok (chunk, r1, s1) =>
      if is_nil chunk then Err EValue else
      let c := rstrip_ws chunk in
      if list_eqb c (r_boundary r) then Ok (r1, s1)
      else if list_eqb c (r_boundary r ++ [45; 45]) then closing_tail r1 s1
      else read_until_first_boundary f r1 s1
    end
  end.

Definition read_boundary (r : reader) (s : stream) : res (reader * stream) :=
  match r_readline r s with
  | Err e => Err e
  | Ok (chunk, r1, s1) =>
    let c := rstrip_ws chunk in
    if list_eqb c (r_boundary r) then Ok (r1, s1)
    else if list_eqb c (r_boundary r ++ [45; 45]) then closing_tail r1 s1
    else Err EValue
  end.

Fixpoint read_header_lines (fuel : nat) (lines : list bytes) (r : reader) (s : stream) : res (list bytes * stream) :=
  match fuel with
  | O => Err EFuel
  | S f =>
    match s_readline (r_max_field r) s with
    | (None, _) => Err ELineTooLong
    | (Some l, s1) =>
      let c := rstrip_crlf l in
      if is_nil c then Ok (lines, s1)
      else if too_many_headers (lenN lines + 1) (r_max_headers r) then Err EBadHttp
      else read_header_lines f (lines ++ [c]) r s1
    end
  end.

Definition all_digits (v : bytes) : bool := negb (is_nil v) && forallb dec_digit v.

(* parse_mimetype(value): the `boundary` parameter and the subtype, for ASCII values (anything else: not modelled) *)
Definition is_sq (c : N) : bool := (c =? 32) || (c =? 34).
Definition strip_with (f : N -> bool) (b : bytes) : bytes :=
  rstrip_with f ((fix go (r : bytes) : bytes := match r with c :: r' => if f c then go r' else r | [] => [] end) b).
Definition h_boundary : bytes := [98; 111; 117; 110; 100; 97; 114; 121].
Definition t_form_data : bytes := [102; 111; 114; 109; 45; 100; 97; 116; 97].

Fixpoint first_boundary_param (items : list bytes) : option bytes :=
  match items with
  | [] => None
  | it :: r =>
    if is_nil (strip_with is_space_byte it) then first_boundary_param r else
    let '(k, v) := match split_first 61 it with Some (k, v) => (k, v) | None => (it, []) end in
    if list_eqb (strip_with is_space_byte (map lower k)) h_boundary then Some (strip_with is_sq v)
    else first_boundary_param r
  end.
Definition mime_boundary (v : bytes) : option bytes :=
  match split_all 59 v with _ :: items => first_boundary_param items | [] => None end.
Definition mime_subtype (v : bytes) : bytes :=
  let full := match split_first 59 v with Some (a, _) => a | None => v end in
  let full := map lower (strip_with is_space_byte full) in
  let st := match split_first 47 full with Some (_, b) => b | None => [] end in
  match split_first 43 st with Some (a, _) => a | None => st end.

Inductive fetched :=
| FPart (hs : list (bytes * bytes)) (p : part)
| FNested (hs : list (bytes * bytes)) (child : reader)      (* a nested MultipartReader on the same stream *)
| FCharset | FOther.

(* _get_part_reader: the nested reader gets its parent's client_max_size, max_field_size, max_headers *)
Definition nested_reader (r : reader) (boundary : bytes) (form : bool) : reader :=
  new_reader boundary form (r_max_field r) (r_max_headers r) (r_client_max r).

Definition make_part (r : reader) (hs : list (bytes * bytes)) : res fetched :=
  let ctype := match get_header h_content_type hs with Some v => v | None => [] end in
  if is_multipart_ctype ctype then
    if negb (is_ascii ctype) then Ok FOther else
    match mime_boundary ctype with
    | None => Err EValue                                  (* boundary missed *)
    | Some b => if max_boundary_len <? lenN b then Err EValue
                else Ok (FNested hs (nested_reader r b (list_eqb (mime_subtype ctype) t_form_data)))
    end
  else
  let cd := match get_header h_content_disposition hs with Some v => v | None => [] end in
  if r_form r && contains t_charset_name cd then Ok FCharset else
  let b64 := match get_header h_cte hs with Some v => list_eqb (map lower v) t_base64 | None => false end in
  let mk := fun len => Ok (FPart hs (new_part (r_boundary r) len b64 (r_client_max r))) in
  if r_form r then mk None else
  match get_header h_content_length hs with
  | None => mk None
  | Some v => if all_digits v then mk (Some (parse_dec v)) else Err EValue
  end.

Definition fetch_next_part (fuel : nat) (r : reader) (s : stream) : res (fetched * stream) :=
  match read_header_lines fuel [] r s with
  | Err e => Err e
  | Ok (lines, s1) =>
    match parse_fields lines [] with
    | Err e => Err e
    | Ok hs => match make_part r hs with Err e => Err e | Ok f => Ok (f, s1) end
    end
  end.

(* what MultipartReader._last_part holds *)
Inductive lastitem := LNone | LPart (p : part) | LReader (child : reader).

(* _maybe_release_last_part; None = a nested reader that was not read to its end (not modelled: the driver always
   walks a nested reader to its closing delimiter) *)
Definition maybe_release (fuel : nat) (r : reader) (last : lastitem) (s : stream) : option (res (reader * stream)) :=
  match last with
  | LNone => Some (Ok (r, s))
  | LPart p =>
    match release_loop fuel p s with
    | Err e => Some (Err e)
    | Ok (p', s') => Some (Ok (r_upd r (r_at_eof r) (r_at_bof r) (rev (p_unread p') ++ r_unread r), s'))
    end
  | LReader c =>
    if r_at_eof c then Some (Ok (r_upd r (r_at_eof r) (r_at_bof r) (r_unread c ++ r_unread r), s)) else None
  end.

Inductive nextres := NEnd | NPart (hs : list (bytes * bytes)) (p : part)
                   | NNested (hs : list (bytes * bytes)) (child : reader) | NUnmodelled.

(* MultipartReader.next() *)
Definition reader_next (fuel : nat) (r : reader) (last : lastitem) (s : stream) : res (nextres * reader * stream) :=
  if r_at_eof r then Ok (NEnd, r, s) else
  match maybe_release fuel r last s with
  | None => Ok (NUnmodelled, r, s)
  | Some (Err e) => Err e
  | Some (Ok (r1, s1)) =>
    let rb := if r_at_bof r1
              then match read_until_first_boundary fuel r1 s1 with
                   | Ok (r2, s2) => Ok (r_upd r2 (r_at_eof r2) false (r_unread r2), s2)
                   | Err e => Err e
                   end
              else read_boundary r1 s1 in
    match rb with
    | Err e => Err e
    | Ok (r2, s2) =>
      if r_at_eof r2 then Ok (NEnd, r2, s2) else
      match fetch_next_part fuel r2 s2 with
      | Err e => Err e
      | Ok (FPart hs p, s3) => Ok (NPart hs p, r2, s3)
      | Ok (FNested hs c, s3) => Ok (NNested hs c, r2, s3)
      | Ok (_, s3) => Ok (NUnmodelled, r2, s3)
      end
    end
  end.

(* ------------------------------------------------------------------ whole-body driver *)

Inductive api :=
| ARead                                     (* await part.read() *)
| AChunks (sizes : list N) (count : N)      (* read_chunk in a loop; count = 0: until at_eof *)
| ALines (count : N)                        (* readline in a loop; count = 0: until at_eof *)
| ARelease                                  (* await part.release() *)
| ASkip.                                    (* nothing: next() releases *)

Inductive partobs :=
| mkObs (o_headers : list (bytes * bytes)) (o_data : bytes) (o_eof : bool)
| mkNested (o_headers : list (bytes * bytes)).           (* the reader stepped into a nested multipart part *)
Inductive final := FEnd | FErr (e : err) | FUnmodelled.

Definition run_api (fuel : nat) (a : api) (p : part) (s : stream) : res (bytes * part * stream) :=
  match a with
  | ARead => part_read fuel p s
  | AChunks sizes count => chunks_loop fuel sizes count (negb (count =? 0)) [] p s
  | ALines count => lines_loop fuel count (negb (count =? 0)) [] p s
  | ARelease => match release_loop fuel p s with Ok (p', s') => Ok ([], p', s') | Err e => Err e end
  | ASkip => Ok ([], p, s)
  end.

(* depth-first walk: `async for part in reader: if it is a reader, walk it, else apply the next API of the schedule`;
   [stack] = the readers above the current one *)
Fixpoint run_parts (n : nat) (fuel : nat) (r : reader) (stack : list reader) (last : lastitem) (s : stream)
  (sched : list api) (acc : list partobs) : list partobs * final :=
  match n with
  | O => (acc, FErr EFuel)
  | S n' =>
    match reader_next fuel r last s with
    | Err e => (acc, FErr e)
    | Ok (NEnd, r1, s1) =>
      match stack with
      | [] => (acc, FEnd)
      | parent :: up => run_parts n' fuel parent up (LReader r1) s1 sched acc
      end
    | Ok (NUnmodelled, _, _) => (acc, FUnmodelled)
    | Ok (NNested hs c, r1, s1) => run_parts n' fuel c (r1 :: stack) LNone s1 sched (acc ++ [mkNested hs])
    | Ok (NPart hs p, r1, s1) =>
      let '(a, sched') := match sched with [] => (ARead, []) | a :: t => (a, t) end in
      match run_api fuel a p s1 with
      | Err e => (acc, FErr e)
      | Ok (d, p1, s2) => run_parts n' fuel r1 stack (LPart p1) s2 sched' (acc ++ [mkObs hs d (p_at_eof p1)])
      end
    end
  end.

Definition run (fuel : nat) (boundary : bytes) (form : bool) (max_field max_headers client_max limit : N)
  (segs : list (N * bytes)) (eager : bool) (sched : list api) : list partobs * final :=
  run_parts fuel fuel (new_reader boundary form max_field max_headers client_max) [] LNone
            (s_init segs eager limit) sched [].
