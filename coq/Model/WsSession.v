(* C13 — WebSocket sessions (server WebSocketResponse / client ClientWebSocketResponse) as a transition
   system at await/callback granularity.  Definitions only.

   What is transcribed (aiohttp/web_ws.py, client_ws.py, _websocket/writer.py, _websocket/reader_py.py
   (WebSocketDataQueue), web_protocol.py / client_proto.py (data_received, connection_lost)):
     * receive(): entry checks, `_waiting`, reader.read() with optional receive timeout, the `finally`
       (clears `_waiting`, resolves `_close_wait`), error mapping, auto-close, auto-pong;
     * close(): closed flag, close frame, wake-up of a blocked receive() through `_close_wait`,
       wait for the peer's close frame under the close timeout, all exception exits;
     * heartbeat: `_on_data_received` / `_flush_heartbeat_reset` / `_reset_heartbeat` / `_send_heartbeat` /
       `_pong_not_received` / `_handle_ping_pong_exception`;
     * WebSocketWriter.send_frame's closing guard and transport check, WebSocketWriter.close;
     * WebSocketDataQueue: buffer, eof, exception, single waiter future;
     * asyncio: FIFO ready queue (call_soon), future completion -> task wake-up, task.cancel()
       (pending future cancelled / must_cancel), asyncio.timeout() (cancel + conversion to TimeoutError unless
       cancelled from outside), timers fire in deadline order.
   Time is in units of 1/16 s.  Frames/messages are abstract (kind + close code); the frame codec is C11/C12's.

   Ghost fields (no influence on behaviour): peer_closes, code_defect (cw_leak is never set any more). *)
From Coq Require Import List NArith Bool Arith.
Import ListNotations.
From AV Require Import Generated.WsSessionGen.
Open Scope N_scope.

Inductive side := Server | Client.

Record config := mkConfig {
  c_side : side;
  c_autoclose : bool;
  c_autoping : bool;
  c_hb : option N;          (* heartbeat period *)
  c_close_tmo : N;          (* WebSocketResponse(timeout=) / ClientWSTimeout.ws_close; > 0 *)
  c_recv_tmo : option N     (* receive_timeout / ws_receive *)
}.

(* messages in the reader queue / returned by receive() *)
Inductive msg := MText | MPing | MPong | MClose (code : N) | MClosing | MClosed | MError.
(* frames written to the transport *)
Inductive frame := FText | FPing | FPong | FClose (code : N).
Inductive sendkind := SText | SPing | SPong.
Inductive op := OpRecv | OpClose (code : N) | OpSend (k : sendkind).
Inductive outcome :=
  | RMsg (m : msg) | RBool (b : bool) | RNone
  | XRuntime | XTimeout | XCancelled | XConnReset | XAssert.
(* who called close(): the application (KTop) or receive() (which then returns m); ph = a provisional close
   code was stored just before the call *)
Inductive kont := KTop | KRecv (m : msg) (ph : bool).
Inductive pc :=
  | PIdle | PStart (o : op)
  | PRecvWait                      (* receive(): suspended in reader.read() *)
  | PCloseCW (k : kont) (code : N) (* close(): suspended in `await self._close_wait` *)
  | PCloseRead (k : kont)          (* close(): suspended in reader.read() under the close timeout *)
  | PDone (r : outcome).
Inductive fres := FOk | FExc (code : N) | FCancelled.
Record task := mkTask {
  t_pc : pc;
  t_fut : option fres;     (* the awaited future: None = pending, Some r = done (wake-up queued) *)
  t_cancel : bool;         (* task.cancel() from outside since the last suspension *)
  t_tmo : option N;        (* deadline of the enclosing asyncio.timeout() *)
  t_expired : bool         (* that timeout fired *)
}.
Inductive timer := THb | TPong | TTask (t : nat).
Inductive peer := PMsg (m : msg) | PBad (code : N).
Inductive ritem := RWake (t : nat) | RConnLost | RFlushHb | RTimer (k : timer) | RPeer (p : peer).

Record state := mkState {
  closed : bool;
  closing : bool;
  close_code : option N;
  waiting : bool;
  close_wait : option nat;
  lost_cnt : N;
  q_buf : list msg;
  q_eof : bool;
  q_exc : option N;
  q_waiter : option nat;
  rd_exc : bool;
  w_closing : bool;
  tr_closing : bool;
  lost : bool;
  proto_close : bool;
  sent : list frame;
  now : N;
  hb_cb : option N;
  hb_when : N;
  pong_cb : option N;
  need_reset : bool;
  tasks : nat -> task;
  ready : list ritem;
  bad : bool;
  has_exc : bool;
  peer_closes : list N;
  cw_leak : bool;
  code_defect : bool
}.

Definition set_closed (s : state) (v : bool) : state :=
  mkState v (closing s) (close_code s) (waiting s) (close_wait s) (lost_cnt s) (q_buf s) (q_eof s) (q_exc s) (q_waiter s) (rd_exc s) (w_closing s) (tr_closing s) (lost s) (proto_close s) (sent s) (now s) (hb_cb s) (hb_when s) (pong_cb s) (need_reset s) (tasks s) (ready s) (bad s) (has_exc s) (peer_closes s) (cw_leak s) (code_defect s).
Definition set_closing (s : state) (v : bool) : state :=
  mkState (closed s) v (close_code s) (waiting s) (close_wait s) (lost_cnt s) (q_buf s) (q_eof s) (q_exc s) (q_waiter s) (rd_exc s) (w_closing s) (tr_closing s) (lost s) (proto_close s) (sent s) (now s) (hb_cb s) (hb_when s) (pong_cb s) (need_reset s) (tasks s) (ready s) (bad s) (has_exc s) (peer_closes s) (cw_leak s) (code_defect s).
Definition set_close_code (s : state) (v : option N) : state :=
  mkState (closed s) (closing s) v (waiting s) (close_wait s) (lost_cnt s) (q_buf s) (q_eof s) (q_exc s) (q_waiter s) (rd_exc s) (w_closing s) (tr_closing s) (lost s) (proto_close s) (sent s) (now s) (hb_cb s) (hb_when s) (pong_cb s) (need_reset s) (tasks s) (ready s) (bad s) (has_exc s) (peer_closes s) (cw_leak s) (code_defect s).
Definition set_waiting (s : state) (v : bool) : state :=
  mkState (closed s) (closing s) (close_code s) v (close_wait s) (lost_cnt s) (q_buf s) (q_eof s) (q_exc s) (q_waiter s) (rd_exc s) (w_closing s) (tr_closing s) (lost s) (proto_close s) (sent s) (now s) (hb_cb s) (hb_when s) (pong_cb s) (need_reset s) (tasks s) (ready s) (bad s) (has_exc s) (peer_closes s) (cw_leak s) (code_defect s).
Definition set_close_wait (s : state) (v : option nat) : state :=
  mkState (closed s) (closing s) (close_code s) (waiting s) v (lost_cnt s) (q_buf s) (q_eof s) (q_exc s) (q_waiter s) (rd_exc s) (w_closing s) (tr_closing s) (lost s) (proto_close s) (sent s) (now s) (hb_cb s) (hb_when s) (pong_cb s) (need_reset s) (tasks s) (ready s) (bad s) (has_exc s) (peer_closes s) (cw_leak s) (code_defect s).
Definition set_lost_cnt (s : state) (v : N) : state :=
  mkState (closed s) (closing s) (close_code s) (waiting s) (close_wait s) v (q_buf s) (q_eof s) (q_exc s) (q_waiter s) (rd_exc s) (w_closing s) (tr_closing s) (lost s) (proto_close s) (sent s) (now s) (hb_cb s) (hb_when s) (pong_cb s) (need_reset s) (tasks s) (ready s) (bad s) (has_exc s) (peer_closes s) (cw_leak s) (code_defect s).
Definition set_q_buf (s : state) (v : list msg) : state :=
  mkState (closed s) (closing s) (close_code s) (waiting s) (close_wait s) (lost_cnt s) v (q_eof s) (q_exc s) (q_waiter s) (rd_exc s) (w_closing s) (tr_closing s) (lost s) (proto_close s) (sent s) (now s) (hb_cb s) (hb_when s) (pong_cb s) (need_reset s) (tasks s) (ready s) (bad s) (has_exc s) (peer_closes s) (cw_leak s) (code_defect s).
Definition set_q_eof (s : state) (v : bool) : state :=
  mkState (closed s) (closing s) (close_code s) (waiting s) (close_wait s) (lost_cnt s) (q_buf s) v (q_exc s) (q_waiter s) (rd_exc s) (w_closing s) (tr_closing s) (lost s) (proto_close s) (sent s) (now s) (hb_cb s) (hb_when s) (pong_cb s) (need_reset s) (tasks s) (ready s) (bad s) (has_exc s) (peer_closes s) (cw_leak s) (code_defect s).
Definition set_q_exc (s : state) (v : option N) : state :=
  mkState (closed s) (closing s) (close_code s) (waiting s) (close_wait s) (lost_cnt s) (q_buf s) (q_eof s) v (q_waiter s) (rd_exc s) (w_closing s) (tr_closing s) (lost s) (proto_close s) (sent s) (now s) (hb_cb s) (hb_when s) (pong_cb s) (need_reset s) (tasks s) (ready s) (bad s) (has_exc s) (peer_closes s) (cw_leak s) (code_defect s).
Definition set_q_waiter (s : state) (v : option nat) : state :=
  mkState (closed s) (closing s) (close_code s) (waiting s) (close_wait s) (lost_cnt s) (q_buf s) (q_eof s) (q_exc s) v (rd_exc s) (w_closing s) (tr_closing s) (lost s) (proto_close s) (sent s) (now s) (hb_cb s) (hb_when s) (pong_cb s) (need_reset s) (tasks s) (ready s) (bad s) (has_exc s) (peer_closes s) (cw_leak s) (code_defect s).
Definition set_rd_exc (s : state) (v : bool) : state :=
  mkState (closed s) (closing s) (close_code s) (waiting s) (close_wait s) (lost_cnt s) (q_buf s) (q_eof s) (q_exc s) (q_waiter s) v (w_closing s) (tr_closing s) (lost s) (proto_close s) (sent s) (now s) (hb_cb s) (hb_when s) (pong_cb s) (need_reset s) (tasks s) (ready s) (bad s) (has_exc s) (peer_closes s) (cw_leak s) (code_defect s).
Definition set_w_closing (s : state) (v : bool) : state :=
  mkState (closed s) (closing s) (close_code s) (waiting s) (close_wait s) (lost_cnt s) (q_buf s) (q_eof s) (q_exc s) (q_waiter s) (rd_exc s) v (tr_closing s) (lost s) (proto_close s) (sent s) (now s) (hb_cb s) (hb_when s) (pong_cb s) (need_reset s) (tasks s) (ready s) (bad s) (has_exc s) (peer_closes s) (cw_leak s) (code_defect s).
Definition set_tr_closing (s : state) (v : bool) : state :=
  mkState (closed s) (closing s) (close_code s) (waiting s) (close_wait s) (lost_cnt s) (q_buf s) (q_eof s) (q_exc s) (q_waiter s) (rd_exc s) (w_closing s) v (lost s) (proto_close s) (sent s) (now s) (hb_cb s) (hb_when s) (pong_cb s) (need_reset s) (tasks s) (ready s) (bad s) (has_exc s) (peer_closes s) (cw_leak s) (code_defect s).
Definition set_lost (s : state) (v : bool) : state :=
  mkState (closed s) (closing s) (close_code s) (waiting s) (close_wait s) (lost_cnt s) (q_buf s) (q_eof s) (q_exc s) (q_waiter s) (rd_exc s) (w_closing s) (tr_closing s) v (proto_close s) (sent s) (now s) (hb_cb s) (hb_when s) (pong_cb s) (need_reset s) (tasks s) (ready s) (bad s) (has_exc s) (peer_closes s) (cw_leak s) (code_defect s).
Definition set_proto_close (s : state) (v : bool) : state :=
  mkState (closed s) (closing s) (close_code s) (waiting s) (close_wait s) (lost_cnt s) (q_buf s) (q_eof s) (q_exc s) (q_waiter s) (rd_exc s) (w_closing s) (tr_closing s) (lost s) v (sent s) (now s) (hb_cb s) (hb_when s) (pong_cb s) (need_reset s) (tasks s) (ready s) (bad s) (has_exc s) (peer_closes s) (cw_leak s) (code_defect s).
Definition set_sent (s : state) (v : list frame) : state :=
  mkState (closed s) (closing s) (close_code s) (waiting s) (close_wait s) (lost_cnt s) (q_buf s) (q_eof s) (q_exc s) (q_waiter s) (rd_exc s) (w_closing s) (tr_closing s) (lost s) (proto_close s) v (now s) (hb_cb s) (hb_when s) (pong_cb s) (need_reset s) (tasks s) (ready s) (bad s) (has_exc s) (peer_closes s) (cw_leak s) (code_defect s).
Definition set_now (s : state) (v : N) : state :=
  mkState (closed s) (closing s) (close_code s) (waiting s) (close_wait s) (lost_cnt s) (q_buf s) (q_eof s) (q_exc s) (q_waiter s) (rd_exc s) (w_closing s) (tr_closing s) (lost s) (proto_close s) (sent s) v (hb_cb s) (hb_when s) (pong_cb s) (need_reset s) (tasks s) (ready s) (bad s) (has_exc s) (peer_closes s) (cw_leak s) (code_defect s).
Definition set_hb_cb (s : state) (v : option N) : state :=
  mkState (closed s) (closing s) (close_code s) (waiting s) (close_wait s) (lost_cnt s) (q_buf s) (q_eof s) (q_exc s) (q_waiter s) (rd_exc s) (w_closing s) (tr_closing s) (lost s) (proto_close s) (sent s) (now s) v (hb_when s) (pong_cb s) (need_reset s) (tasks s) (ready s) (bad s) (has_exc s) (peer_closes s) (cw_leak s) (code_defect s).
Definition set_hb_when (s : state) (v : N) : state :=
  mkState (closed s) (closing s) (close_code s) (waiting s) (close_wait s) (lost_cnt s) (q_buf s) (q_eof s) (q_exc s) (q_waiter s) (rd_exc s) (w_closing s) (tr_closing s) (lost s) (proto_close s) (sent s) (now s) (hb_cb s) v (pong_cb s) (need_reset s) (tasks s) (ready s) (bad s) (has_exc s) (peer_closes s) (cw_leak s) (code_defect s).
Definition set_pong_cb (s : state) (v : option N) : state :=
  mkState (closed s) (closing s) (close_code s) (waiting s) (close_wait s) (lost_cnt s) (q_buf s) (q_eof s) (q_exc s) (q_waiter s) (rd_exc s) (w_closing s) (tr_closing s) (lost s) (proto_close s) (sent s) (now s) (hb_cb s) (hb_when s) v (need_reset s) (tasks s) (ready s) (bad s) (has_exc s) (peer_closes s) (cw_leak s) (code_defect s).
Definition set_need_reset (s : state) (v : bool) : state :=
  mkState (closed s) (closing s) (close_code s) (waiting s) (close_wait s) (lost_cnt s) (q_buf s) (q_eof s) (q_exc s) (q_waiter s) (rd_exc s) (w_closing s) (tr_closing s) (lost s) (proto_close s) (sent s) (now s) (hb_cb s) (hb_when s) (pong_cb s) v (tasks s) (ready s) (bad s) (has_exc s) (peer_closes s) (cw_leak s) (code_defect s).
Definition set_tasks (s : state) (v : nat -> task) : state :=
  mkState (closed s) (closing s) (close_code s) (waiting s) (close_wait s) (lost_cnt s) (q_buf s) (q_eof s) (q_exc s) (q_waiter s) (rd_exc s) (w_closing s) (tr_closing s) (lost s) (proto_close s) (sent s) (now s) (hb_cb s) (hb_when s) (pong_cb s) (need_reset s) v (ready s) (bad s) (has_exc s) (peer_closes s) (cw_leak s) (code_defect s).
Definition set_ready (s : state) (v : list ritem) : state :=
  mkState (closed s) (closing s) (close_code s) (waiting s) (close_wait s) (lost_cnt s) (q_buf s) (q_eof s) (q_exc s) (q_waiter s) (rd_exc s) (w_closing s) (tr_closing s) (lost s) (proto_close s) (sent s) (now s) (hb_cb s) (hb_when s) (pong_cb s) (need_reset s) (tasks s) v (bad s) (has_exc s) (peer_closes s) (cw_leak s) (code_defect s).
Definition set_bad (s : state) (v : bool) : state :=
  mkState (closed s) (closing s) (close_code s) (waiting s) (close_wait s) (lost_cnt s) (q_buf s) (q_eof s) (q_exc s) (q_waiter s) (rd_exc s) (w_closing s) (tr_closing s) (lost s) (proto_close s) (sent s) (now s) (hb_cb s) (hb_when s) (pong_cb s) (need_reset s) (tasks s) (ready s) v (has_exc s) (peer_closes s) (cw_leak s) (code_defect s).
Definition set_has_exc (s : state) (v : bool) : state :=
  mkState (closed s) (closing s) (close_code s) (waiting s) (close_wait s) (lost_cnt s) (q_buf s) (q_eof s) (q_exc s) (q_waiter s) (rd_exc s) (w_closing s) (tr_closing s) (lost s) (proto_close s) (sent s) (now s) (hb_cb s) (hb_when s) (pong_cb s) (need_reset s) (tasks s) (ready s) (bad s) v (peer_closes s) (cw_leak s) (code_defect s).
Definition set_peer_closes (s : state) (v : list N) : state :=
  mkState (closed s) (closing s) (close_code s) (waiting s) (close_wait s) (lost_cnt s) (q_buf s) (q_eof s) (q_exc s) (q_waiter s) (rd_exc s) (w_closing s) (tr_closing s) (lost s) (proto_close s) (sent s) (now s) (hb_cb s) (hb_when s) (pong_cb s) (need_reset s) (tasks s) (ready s) (bad s) (has_exc s) v (cw_leak s) (code_defect s).
Definition set_cw_leak (s : state) (v : bool) : state :=
  mkState (closed s) (closing s) (close_code s) (waiting s) (close_wait s) (lost_cnt s) (q_buf s) (q_eof s) (q_exc s) (q_waiter s) (rd_exc s) (w_closing s) (tr_closing s) (lost s) (proto_close s) (sent s) (now s) (hb_cb s) (hb_when s) (pong_cb s) (need_reset s) (tasks s) (ready s) (bad s) (has_exc s) (peer_closes s) v (code_defect s).
Definition set_code_defect (s : state) (v : bool) : state :=
  mkState (closed s) (closing s) (close_code s) (waiting s) (close_wait s) (lost_cnt s) (q_buf s) (q_eof s) (q_exc s) (q_waiter s) (rd_exc s) (w_closing s) (tr_closing s) (lost s) (proto_close s) (sent s) (now s) (hb_cb s) (hb_when s) (pong_cb s) (need_reset s) (tasks s) (ready s) (bad s) (has_exc s) (peer_closes s) (cw_leak s) v.


Definition ntasks : nat := 4.
Definition idle_task : task := mkTask PIdle None false None false.

Definition frame_opcode (f : frame) : N :=
  match f with FText => op_text | FPing => op_ping | FPong => op_pong | FClose _ => op_close end.
Definition is_close_frame (f : frame) : bool := match f with FClose _ => true | _ => false end.
Definition is_data_frame (f : frame) : bool := match f with FText => true | _ => false end.

(* ---- tasks, futures, ready queue ---------------------------------------------------------- *)
Definition upd_task (s : state) (t : nat) (f : task -> task) : state :=
  set_tasks s (fun x => if Nat.eqb x t then f (tasks s x) else tasks s x).
Definition enq (s : state) (r : ritem) : state := set_ready s (ready s ++ [r]).
Definition set_fut (k : task) (r : option fres) : task := mkTask (t_pc k) r (t_cancel k) (t_tmo k) (t_expired k).
Definition set_tmo (k : task) (d : option N) : task := mkTask (t_pc k) (t_fut k) (t_cancel k) d (t_expired k).
(* complete the future task t is suspended on, if it is still pending: its wake-up is queued *)
Definition fut_done (s : state) (t : nat) (r : fres) : state :=
  match t_fut (tasks s t) with
  | None => enq (upd_task s t (fun k => set_fut k (Some r))) (RWake t)
  | Some _ => s
  end.
Definition finish (s : state) (t : nat) (r : outcome) : state :=
  upd_task s t (fun _ => mkTask (PDone r) None false None false).
Definition suspend (s : state) (t : nat) (p : pc) (d : option N) : state :=
  upd_task s t (fun _ => mkTask p None false d false).

(* ---- WebSocketDataQueue --------------------------------------------------------------------- *)
Definition release_waiter (s : state) : state :=
  match q_waiter s with
  | None => s
  | Some t => fut_done (set_q_waiter s None) t FOk
  end.
Definition feed_data (s : state) (m : msg) : state := release_waiter (set_q_buf s (q_buf s ++ [m])).
Definition feed_eof (s : state) : state := set_q_exc (release_waiter (set_q_eof s true)) None.
Definition q_set_exception (s : state) (code : N) : state :=
  let s := set_q_exc (set_q_eof s true) (Some code) in
  match q_waiter s with
  | None => s
  | Some t => fut_done (set_q_waiter s None) t (FExc code)
  end.
Inductive rres := RRMsg (m : msg) | RRExc (code : N) | RREof | RRCancelled | RRTimeout.
Definition read_from_buffer (s : state) : state * rres :=
  match q_buf s with
  | m :: r => (set_q_buf s r, RRMsg m)
  | [] => match q_exc s with Some c => (s, RRExc c) | None => (s, RREof) end
  end.

(* ---- heartbeat ------------------------------------------------------------------------------- *)
Definition not_flush (r : ritem) : bool := match r with RFlushHb => false | _ => true end.
Definition cancel_heartbeat (s : state) : state :=
  set_hb_cb (set_need_reset (set_ready (set_pong_cb s None) (filter not_flush (ready s))) false) None.
Definition mark_closed (s : state) : state := cancel_heartbeat (set_closed s true).
Definition mark_closing (s : state) : state := cancel_heartbeat (set_closing s true).
Definition pong_delay (hb : N) : N := hb / pong_divisor.
Definition reset_heartbeat (c : config) (s : state) : state :=
  match c_hb c with
  | None => s
  | Some hb =>
    let s := set_hb_when (set_pong_cb s None) (now s + hb) in
    match hb_cb s with None => set_hb_cb s (Some (now s + hb)) | Some _ => s end
  end.
Definition on_data_received (c : config) (s : state) : state :=
  match c_hb c with
  | None => s
  | Some _ => if need_reset s then s else enq (set_need_reset s true) RFlushHb
  end.
Definition flush_heartbeat (c : config) (s : state) : state :=
  if need_reset s then set_need_reset (reset_heartbeat c s) false else s.

(* ---- writer / transport ---------------------------------------------------------------------- *)
(* (state, raised ClientConnectionResetError) *)
Definition send_frame (s : state) (f : frame) : state * bool :=
  if w_closing s && negb (closing_write_allowed (frame_opcode f)) then (s, true)
  else if tr_closing s then (s, true)
  else (set_sent s (sent s ++ [f]), false).
(* WebSocketWriter.close(): `self._closing = True` FIRST, then the close frame (the guard lets CLOSE through) *)
Definition writer_close (s : state) (code : N) : state * bool :=
  send_frame (set_w_closing s true) (FClose code).
(* transport.close(): connection_lost is delivered by a later callback *)
Definition transport_close (s : state) : state :=
  if tr_closing s then s else enq (set_tr_closing s true) RConnLost.
(* server `_close_transport` (`self._req.transport` is None once the connection was lost) /
   client `self._response.close()` *)
Definition close_transport (c : config) (s : state) : state :=
  match c_side c with
  | Server => if lost s then s else transport_close s
  | Client => transport_close s
  end.
Definition abnormal (c : config) (s : state) : state :=
  close_transport c (set_close_code s (Some ws_close_abnormal)).

Definition truthy_code (o : option N) : bool := match o with Some c => negb (c =? 0) | None => false end.

(* ---- close() ---------------------------------------------------------------------------------- *)
Definition close_ret (s : state) (t : nat) (k : kont) (b : bool) : state :=
  match k with
  | KTop => finish s t (RBool b)
  | KRecv m ph => finish (if ph && negb b then set_code_defect s true else s) t (RMsg m)
  end.

(* the `except Exception` exits of close() *)
Definition close_exc (c : config) (s : state) (t : nat) (k : kont) : state :=
  close_ret (abnormal c (set_has_exc s true)) t k true.

(* the loop `msg = await reader.read()` until a CLOSE message; buf is the reader's buffer (recursion is on it);
   entered with the timeout deadline d: on both sides ONE asyncio.timeout() spans the whole loop. *)
Definition next_deadline (c : config) (s : state) (d : N) : N := d.
Fixpoint close_read_loop (c : config) (buf : list msg) (s : state) (t : nat) (k : kont) (d : N) : state :=
  match buf with
  | m :: rest =>
    let s := set_q_buf s rest in
    match m with
    | MClose code => close_ret (close_transport c (set_close_code s (Some code))) t k true
    | _ => close_read_loop c rest s t k (next_deadline c s d)
    end
  | [] =>
    if q_eof s then close_exc c s t k        (* _read_from_buffer raises the stored exception / EofStream *)
    else match q_waiter s with
         | Some _ => close_exc c s t k       (* `assert not self._waiter` inside the try *)
         | None => suspend (set_q_waiter s (Some t)) t (PCloseRead k) (Some d)
         end
  end.
(* resumed after the waiter completed normally: `return self._read_from_buffer()` and on with the loop *)
Definition close_read_resume (c : config) (s : state) (t : nat) (k : kont) (d : N) : state :=
  match q_buf s with
  | [] =>
    (* EofStream.  Client: woken without a message although the queue is not at EOF and a close code is stored —
       a receive() of another task took the peer's close frame: return normally. *)
    match c_side c with
    | Client => if truthy_code (close_code s) && negb (q_eof s)
                then close_ret (close_transport c s) t k true
                else close_exc c s t k
    | Server => close_exc c s t k
    end
  | _ => close_read_loop c (q_buf s) s t k d
  end.

(* server: after `await self._close_wait` (or directly when no receive() was blocked) *)
Definition server_close_tail (c : config) (s : state) (t : nat) (k : kont) : state :=
  if closing s then close_ret (close_transport c s) t k true
  else close_read_loop c (q_buf s) s t k (now s + c_close_tmo c).

(* client: after the optional `await self._close_wait` *)
Definition client_close_body (c : config) (s : state) (t : nat) (k : kont) (code : N) : state :=
  if closed s then close_ret s t k false
  else
    let s := mark_closed s in
    let '(s, raised) := writer_close s code in
    if raised then close_exc c s t k
    else if truthy_code (close_code s) then
      let s := match k with KRecv _ true => set_code_defect s true | _ => s end in
      close_ret (close_transport c s) t k true
    else close_read_loop c (q_buf s) s t k (now s + c_close_tmo c).

Definition close_entry (c : config) (s : state) (t : nat) (k : kont) (code : N) : state :=
  match c_side c with
  | Server =>
    if closed s then close_ret s t k false
    else
      let s := mark_closed s in
      let '(s, raised) := writer_close s code in
      if raised then close_exc c s t k
      else if waiting s then
        match close_wait s with
        | Some _ => finish s t XAssert       (* `assert self._close_wait is None` *)
        | None => suspend (feed_data (set_close_wait s (Some t)) MClosing) t (PCloseCW k code) None
        end
      else server_close_tail c s t k
  | Client =>
    if waiting s && negb (closing s) then
      suspend (feed_data (mark_closing (set_close_wait s (Some t))) MClosing) t (PCloseCW k code) None
    else client_close_body c s t k code
  end.

(* ---- receive() -------------------------------------------------------------------------------- *)
Definition is_close_cw (p : pc) : bool := match p with PCloseCW _ _ => true | _ => false end.
(* `finally: self._waiting = False; if self._close_wait: set_result(self._close_wait, None)` *)
Definition recv_finally (s : state) : state :=
  let s := set_waiting s false in
  match close_wait s with
  | Some t => if is_close_cw (t_pc (tasks s t)) then fut_done s t FOk else s
  | None => s
  end.

Inductive lres := Stop (s : state) | Cont (s : state).

(* what receive() does with the outcome of reader.read() (after the finally) *)
Definition recv_handle (c : config) (s : state) (t : nat) (r : rres) : lres :=
  match r with
  | RRTimeout =>
    Stop (finish (match c_side c with Client => set_close_code s (Some ws_close_abnormal) | Server => s end) t XTimeout)
  | RRCancelled =>
    Stop (finish (match c_side c with Client => set_close_code s (Some ws_close_abnormal) | Server => s end) t XCancelled)
  | RREof =>
    (* `if not self._closed: self._close_code = OK` — a close() of another task owns the code otherwise *)
    let s := if closed s then s else set_close_code s (Some ws_close_ok) in
    Stop (close_entry c s t (KRecv MClosed true) ws_close_ok)
  | RRExc code =>
    let s := match c_side c with
             | Server => if closed s then s else set_close_code s (Some code)
             | Client => set_close_code s (Some ws_close_abnormal)   (* the frame carries exc.code, the report is 1006 *)
             end in
    Stop (close_entry c s t (KRecv MError true) code)
  | RRMsg m =>
    match m with
    | MClose code =>
      let s := set_close_code (mark_closing s) (Some code) in
      if negb (closed s) && c_autoclose c then Stop (close_entry c s t (KRecv m false) ws_close_ok)
      else Stop (finish s t (RMsg m))
    | MClosing =>
      let s := match c_side c with
               | Server => if closed s then s else set_close_code (mark_closing s) (Some ws_close_ok)
               | Client => mark_closing s
               end in
      Stop (finish s t (RMsg m))
    | MPing =>
      if c_autoping c then
        let '(s, raised) := send_frame s FPong in
        if raised then Stop (finish s t XConnReset) else Cont s
      else Stop (finish s t (RMsg m))
    | MPong => if c_autoping c then Cont s else Stop (finish s t (RMsg m))
    | _ => Stop (finish s t (RMsg m))
    end
  end.

Definition stop_state (r : lres) : state := match r with Stop s => s | Cont s => s end.

(* recursion on the reader's buffer: an iteration that `continue`s has consumed its first message *)
Fixpoint recv_loop (c : config) (buf : list msg) (s : state) (t : nat) : state :=
  if waiting s then finish s t XRuntime
  else if closed s then
    match c_side c with
    | Server =>
      let s := set_lost_cnt s (lost_cnt s + 1) in
      if connlost_threshold <=? lost_cnt s then finish s t XRuntime else finish s t (RMsg MClosed)
    | Client => finish s t (RMsg MClosed)
    end
  else if closing s then
    match c_side c with
    | Server => finish s t (RMsg MClosing)
    | Client => close_entry c s t (KRecv MClosed false) ws_close_ok
    end
  else
    let s := set_waiting s true in
    match buf with
    | m :: rest =>
      match recv_handle c (recv_finally (set_q_buf s rest)) t (RRMsg m) with
      | Stop s => s
      | Cont s => recv_loop c rest s t
      end
    | [] =>
      if q_eof s then
        stop_state (recv_handle c (recv_finally s) t (match q_exc s with Some code => RRExc code | None => RREof end))
      else
        match q_waiter s with
        | Some _ =>     (* `assert not self._waiter` -> AssertionError -> `except Exception` *)
          let s := recv_finally s in
          let s := set_close_code (mark_closing (set_has_exc s true)) (Some ws_close_abnormal) in
          close_entry c s t (KRecv MError false) ws_close_ok
        | None =>
          suspend (set_q_waiter s (Some t)) t PRecvWait
                  (match c_recv_tmo c with Some d => Some (now s + d) | None => None end)
        end
    end.

(* ---- wake-up of a suspended task --------------------------------------------------------------- *)
Definition was_cancelled (k : task) : bool :=
  t_cancel k || t_expired k || match t_fut k with Some FCancelled => true | _ => false end.
(* CancelledError is turned into TimeoutError by asyncio.timeout() iff it expired and nobody else cancelled *)
Definition is_timeout (k : task) : bool := t_expired k && negb (t_cancel k).

Definition start_op (c : config) (s : state) (t : nat) (o : op) : state :=
  match o with
  | OpRecv => recv_loop c (q_buf s) s t
  | OpClose code => close_entry c s t KTop code
  | OpSend k =>
    let '(s, raised) := send_frame s (match k with SText => FText | SPing => FPing | SPong => FPong end) in
    finish s t (if raised then XConnReset else RNone)
  end.

Definition run_wake (c : config) (s : state) (t : nat) : state :=
  let k := tasks s t in
  match t_pc k with
  | PStart o => if t_cancel k then finish s t XCancelled else start_op c s t o
  | PRecvWait =>
    match t_fut k with
    | None => s
    | Some fr =>
      let '(s, r) :=
        if was_cancelled k then (set_q_waiter s None, if is_timeout k then RRTimeout else RRCancelled)
        else match fr with FExc code => (s, RRExc code) | _ => read_from_buffer s end in
      match recv_handle c (recv_finally s) t r with
      | Stop s => s
      | Cont s => recv_loop c (q_buf s) s t
      end
    end
  | PCloseCW kk code =>
    match t_fut k with
    | None => s
    | Some _ =>
      if was_cancelled k then
        (* server: `except CancelledError: self._set_code_close_transport(1006); raise`; client: not closed yet *)
        finish (match c_side c with Server => abnormal c s | Client => s end) t XCancelled
      else match c_side c with
           | Server => server_close_tail c s t kk
           | Client => client_close_body c s t kk code
           end
    end
  | PCloseRead kk =>
    match t_fut k with
    | None => s
    | Some fr =>
      if was_cancelled k then
        let s := set_q_waiter s None in
        if is_timeout k then close_exc c s t kk
        else finish (abnormal c s) t XCancelled
      else match fr with
           | FExc _ => close_exc c s t kk
           | _ =>
             let d := match t_tmo k with
                      | Some d => d
                      | None => now s + c_close_tmo c
                      end in
             close_read_resume c s t kk d
           end
    end
  | PIdle | PDone _ => s
  end.

(* ---- protocol callbacks ------------------------------------------------------------------------ *)
Definition conn_lost (c : config) (s : state) : state :=
  if lost s then s
  else
    let s := set_lost s true in
    match c_side c with
    | Server => feed_eof s
    | Client => if proto_close s then s else set_proto_close (feed_eof s) true   (* _payload_parser = None *)
    end.

(* data_received with one frame (or one malformed frame) *)
Definition deliver (c : config) (s : state) (p : peer) : state :=
  if tr_closing s || lost s || proto_close s then s
  else
    let s := on_data_received c s in
    if rd_exc s then set_proto_close s true
    else match p with
         | PMsg m =>
           let s := match m with MClose code => set_peer_closes s (peer_closes s ++ [code]) | _ => s end in
           feed_data s m
         | PBad code => set_proto_close (q_set_exception (set_rd_exc s true) code) true
         end.

Definition ping_pong_exc (c : config) (s : state) : state :=
  if closed s then s
  else
    let s := mark_closed s in
    let s := set_has_exc (abnormal c s) true in
    if waiting s && negb (closing s) then feed_data s MError else s.

Definition fire_hb (c : config) (s : state) : state :=
  let s := set_hb_cb s None in
  if need_reset s then s
  else if now s <? hb_when s then set_hb_cb s (Some (hb_when s))
  else
    match c_hb c with
    | None => s
    | Some hb =>
      let s := set_pong_cb s (Some (now s + pong_delay hb)) in
      let '(s, raised) := send_frame s FPing in
      if raised then ping_pong_exc c s else s
    end.

Definition fire_pong (c : config) (s : state) : state :=
  let s := set_pong_cb s None in
  match c_side c with
  | Server => if lost s then s else ping_pong_exc c s
  | Client => ping_pong_exc c s
  end.

(* Timeout._on_timeout: task.cancel() *)
Definition fire_task_timeout (s : state) (t : nat) : state :=
  let s := upd_task s t (fun k => mkTask (t_pc k) (t_fut k) (t_cancel k) None true) in
  fut_done s t FCancelled.

Definition due (o : option N) (n : N) : bool := match o with Some d => d <=? n | None => false end.

Definition run_timer (c : config) (s : state) (k : timer) : state :=
  match k with
  | THb => if due (hb_cb s) (now s) then fire_hb c s else s
  | TPong => if due (pong_cb s) (now s) then fire_pong c s else s
  | TTask t => if due (t_tmo (tasks s t)) (now s) then fire_task_timeout s t else s
  end.

Definition run_item (c : config) (s : state) (r : ritem) : state :=
  match r with
  | RWake t => run_wake c s t
  | RConnLost => conn_lost c s
  | RFlushHb => flush_heartbeat c s
  | RTimer k => run_timer c s k
  | RPeer p => deliver c s p
  end.

(* ---- external events ---------------------------------------------------------------------------- *)
Inductive event :=
  | ECall (t : nat) (o : op)     (* the application starts a task running receive()/close()/send *)
  | EPeer (p : peer)             (* data_received now *)
  | EPeerQ (p : peer)            (* data_received as a queued I/O callback *)
  | EDrop                        (* the connection is lost (connection_lost(None)) *)
  | ECancel (t : nat)            (* task.cancel() *)
  | EAdvance (dt : N)            (* time passes; due timers are queued in deadline order *)
  | ERun                         (* the event loop runs the next ready callback *)
  | ELocalClose.                 (* the connection is closed from the local side by another actor (ClientSession /
                                    connector close -> ResponseHandler.close()): transport.close(), connection_lost follows *)

Definition task_free (k : task) : bool := match t_pc k with PIdle | PDone _ => true | _ => false end.
Definition task_blocked (k : task) : bool :=
  match t_pc k with PRecvWait | PCloseCW _ _ | PCloseRead _ => true | _ => false end.

Definition cancel_task (s : state) (t : nat) : state :=
  let k := tasks s t in
  if task_blocked k then
    fut_done (upd_task s t (fun k => mkTask (t_pc k) (t_fut k) true (t_tmo k) (t_expired k))) t FCancelled
  else match t_pc k with
       | PStart _ => upd_task s t (fun k => mkTask (t_pc k) (t_fut k) true (t_tmo k) (t_expired k))
       | _ => s
       end.

(* due timers, sorted by deadline (ties: heartbeat, pong, tasks in index order) *)
Fixpoint insert_timer (x : N * timer) (l : list (N * timer)) : list (N * timer) :=
  match l with
  | [] => [x]
  | y :: r => if fst y <=? fst x then y :: insert_timer x r else x :: l
  end.
Definition cand (o : option N) (n : N) (k : timer) : list (N * timer) :=
  match o with Some d => if d <=? n then [(d, k)] else [] | None => [] end.
Definition due_timers (s : state) (n : N) : list timer :=
  let cs := cand (hb_cb s) n THb ++ cand (pong_cb s) n TPong
            ++ flat_map (fun t => cand (t_tmo (tasks s t)) n (TTask t)) (seq 0 ntasks) in
  map snd (fold_right insert_timer [] (rev cs)).
Definition advance (s : state) (dt : N) : state :=
  let n := now s + dt in
  let s := set_now s n in
  set_ready s (ready s ++ map RTimer (due_timers s n)).

Definition step (c : config) (s : state) (e : event) : option state :=
  match e with
  | ECall t o =>
    if Nat.ltb t ntasks && task_free (tasks s t)
    then Some (enq (upd_task s t (fun _ => mkTask (PStart o) None false None false)) (RWake t))
    else None
  | EPeer p => Some (deliver c s p)
  | EPeerQ p => Some (enq s (RPeer p))
  | EDrop => Some (if tr_closing s then s else conn_lost c (set_tr_closing s true))
  | ECancel t => if Nat.ltb t ntasks then Some (cancel_task s t) else None
  | EAdvance dt => Some (advance s dt)
  | ERun => match ready s with [] => None | r :: rest => Some (run_item c (set_ready s rest) r) end
  | ELocalClose => Some (transport_close s)
  end.

Definition init (c : config) : state :=
  reset_heartbeat c
    (mkState false false None false None 0 [] false None None false false false false false []
             16000 None 0 None false (fun _ => idle_task) [] false false [] false false).

(* FIFO run until no callback is ready (what loop.run_until_idle does) *)
Fixpoint run_idle (c : config) (fuel : nat) (s : state) : state :=
  match fuel with
  | O => s
  | S fuel =>
    match ready s with
    | [] => s
    | r :: rest => run_idle c fuel (run_item c (set_ready s rest) r)
    end
  end.

Fixpoint apply_events (c : config) (s : state) (es : list event) : option state :=
  match es with
  | [] => Some s
  | e :: r => match step c s e with Some s' => apply_events c s' r | None => None end
  end.

Inductive reach (c : config) : state -> Prop :=
  | reach_init : reach c (init c)
  | reach_step : forall s e s', reach c s -> step c s e = Some s' -> reach c s'.
