(* C02: the request direction of the wire between two aiohttp endpoints, as a composition of
   Model/Writer.v (StreamWriter + header serialisation) and Model/Http.v (HttpRequestParser).
   Definitions only.

   cinput --build--> creq --client_serialize--> bytes --(any segmentation) run_segs--> mrec

   build              the header decisions of ClientRequest.__init__ and ClientRequestBase._send for the
                      modelled subset (no cookies, no compression, no Expect, no proxy, no user-supplied
                      Content-Length / Transfer-Encoding): Host, default headers, Content-Length vs
                      chunked selection (_update_body_from_data, _update_transfer_encoding), default
                      Content-Type, Connection by version / force_close.
   client_serialize   _send + _write_bytes as StreamWriter operations: enable_chunking (as the code
                      decides it: Generated/WireGen.writer_chunking_enabled), write_headers, then
                      set_eof (no body) or write(...)* ; write_eof().
   Body kinds: none / bytes (size known) / piece list (async iterable: size unknown). *)
From AV Require Import Lib.Base Lib.Utf8 Lib.BytesX Generated.WriterGen Generated.HttpGen Generated.WireGen
  Model.Writer Model.Http.
Open Scope N_scope.

Inductive cbody := BNone | BBytes (d : bytes) | BPieces (ps : list bytes).

(* the request as it stands when _send runs: self.method (not yet upper-cased here), the origin-form
   target url.raw_path_qs, self.version, self.headers in order, self.chunked, the body *)
Record creq := mkCreq {
  c_method : str; c_target : str; c_v11 : bool;
  c_headers : list (str * str);
  c_chunked : option bool;
  c_body : cbody }.

Definition version_str (v11 : bool) : str := [72; 84; 84; 80; 47; 49; 46; if v11 then 49 else 48].
(* f"{self.method} {path} HTTP/{v.major}.{v.minor}" with self.method = method.upper() *)
Definition status_line (r : creq) : str :=
  map upper (c_method r) ++ [32] ++ c_target r ++ [32] ++ version_str (c_v11 r).

Definition body_bytes_of (b : cbody) : bytes :=
  match b with BNone => [] | BBytes d => d | BPieces ps => concat ps end.

(* _send: if _should_write() the body goes through _write_bytes (write_with_length: one write() per piece, an empty
   write for an empty body; then write_eof()), otherwise set_eof() *)
Definition body_writes (b : cbody) : list wop :=
  match b with BNone => [WWrite []] | BBytes d => [WWrite d] | BPieces ps => map WWrite ps end.
Definition body_ops (sw : bool) (b : cbody) : list wop :=
  if sw then body_writes b ++ [WEof []] else [WSetEof].

(* the body is chunk-encoded iff self.chunked is true AND the head announces it (Transfer-Encoding in self.headers) *)
Definition req_chunking (r : creq) : bool :=
  writer_chunking_enabled (c_chunked r) (existsb (fun kv => ieqb (fst kv) [84; 114; 97; 110; 115; 102; 101; 114; 45; 69; 110; 99; 111; 100; 105; 110; 103]) (c_headers r)).

(* ClientRequestBase._get_content_length: None = ValueError (not ASCII digits, or more digits than int() converts) *)
Fixpoint first_value (k : str) (hs : list (str * str)) : option str :=
  match hs with
  | [] => None
  | (k', v') :: t => if ieqb k' k then Some v' else first_value k t
  end.
Definition header_content_length (r : creq) : option (option N) :=
  match first_value [67; 111; 110; 116; 101; 110; 116; 45; 76; 101; 110; 103; 116; 104] (c_headers r) with
  | None => Some None
  | Some v => if nonempty v && forallb dec_digit v && (lenN v <=? int_max_str_digits) then Some (Some (parse_dec v)) else None
  end.

(* _should_write (no Expect, transport not paused): body.size != 0, or (if the code says so) the head carries a
   Content-Length other than "0" *)
Definition should_write_body (b : cbody) : bool :=
  match b with BNone => false | BBytes [] => false | _ => true end.
Definition declares_length (r : creq) : bool :=
  match first_value [67; 111; 110; 116; 101; 110; 116; 45; 76; 101; 110; 103; 116; 104] (c_headers r) with
  | Some v => negb (list_eqb v [48])
  | None => false
  end.
Definition should_write (r : creq) : bool :=
  should_write_body (c_body r) || (should_write_on_declared_length && declares_length r).

(* _send: writer.length = content_length before _write_bytes (if the code does that) *)
Definition client_ops_len (r : creq) (cl : option N) (head : bytes) : list wop :=
  (if req_chunking r then [WEnableChunking] else []) ++ WHeaders head ::
  (if should_write r && client_counts_declared_length then [WSetLength cl] else []) ++ body_ops (should_write r) (c_body r).
Definition client_ops (r : creq) (head : bytes) : list wop :=
  client_ops_len r (match header_content_length r with Some cl => cl | None => None end) head.

(* _write_bytes: what is still missing of the declared Content-Length after the body source is exhausted; > 0 means
   ClientPayloadError: no write_eof, the request fails, the connection is not reused *)
Definition body_shortfall (r : creq) : N :=
  match header_content_length r with
  | Some (Some n) => if client_counts_declared_length && should_write r then n - lenN (body_bytes_of (c_body r)) else 0
  | _ => 0
  end.

(* None = ValueError before anything is written (bad method, forbidden character in the head) *)
Definition client_serialize (r : creq) : option bytes :=
  if method_ok (c_method r) then
    match serialize_headers (status_line r) (c_headers r), header_content_length r with
    | Some head, Some _ => Some (snd (wrun winit (client_ops r head)))
    | _, _ => None
    end
  else None.

(* the body source raises (OSError / Exception, handled in _write_bytes) after k pieces were written: the writes so
   far, and write_eof() only if the code also runs it after a handled failure (Generated: it does not) *)
Definition body_pieces (b : cbody) : list bytes :=
  match b with BPieces ps => ps | BBytes d => [d] | BNone => [] end.
Definition aborted_ops (r : creq) (head : bytes) (k : nat) : list wop :=
  (if req_chunking r then [WEnableChunking] else []) ++
  WHeaders head :: (if client_counts_declared_length then [WSetLength None] else []) ++
  map WWrite (firstn k (body_pieces (c_body r))) ++
  (if write_eof_only_after_success then [] else [WEof []]).
Definition client_serialize_aborted (r : creq) (k : nat) : option bytes :=
  if method_ok (c_method r) then
    match serialize_headers (status_line r) (c_headers r) with
    | Some head => Some (snd (wrun winit (aborted_ops r head k)))
    | None => None
    end
  else None.

(* the bytes handed to the writer as body *)
Definition body_bytes (b : cbody) : bytes :=
  match b with BNone => [] | BBytes d => d | BPieces ps => concat ps end.

(* ------------------------------------------------------------------ CIMultiDict as an association list *)
Definition md := list (str * str).
Definition md_has (k : str) (hs : md) : bool := existsb (fun kv => ieqb (fst kv) k) hs.
Definition md_del (k : str) (hs : md) : md := filter (fun kv => negb (ieqb (fst kv) k)) hs.
(* headers[k] = v : the first entry with that name is replaced (key spelling included), further ones removed *)
Fixpoint md_set (k v : str) (hs : md) : md :=
  match hs with
  | [] => [(k, v)]
  | (k', v') :: t => if ieqb k' k then (k, v) :: md_del k t else (k', v') :: md_set k v t
  end.
Fixpoint md_get (k : str) (hs : md) : option str :=
  match hs with
  | [] => None
  | (k', v') :: t => if ieqb k' k then Some v' else md_get k t
  end.
(* headers.pop(k, default): first value, that entry removed *)
Fixpoint md_pop (k : str) (hs : md) : option str * md :=
  match hs with
  | [] => (None, [])
  | (k', v') :: t => if ieqb k' k then (Some v', t) else let '(r, t') := md_pop k t in (r, (k', v') :: t')
  end.
Definition md_setdefault (k v : str) (hs : md) : md := if md_has k hs then hs else md_set k v hs.

Definition n_host : str := [72; 111; 115; 116].
Definition n_accept : str := [65; 99; 99; 101; 112; 116].
Definition n_accept_encoding : str := [65; 99; 99; 101; 112; 116; 45; 69; 110; 99; 111; 100; 105; 110; 103].
Definition n_user_agent : str := [85; 115; 101; 114; 45; 65; 103; 101; 110; 116].
Definition n_content_length : str := [67; 111; 110; 116; 101; 110; 116; 45; 76; 101; 110; 103; 116; 104].
Definition n_content_type : str := [67; 111; 110; 116; 101; 110; 116; 45; 84; 121; 112; 101].
Definition n_transfer_encoding : str := [84; 114; 97; 110; 115; 102; 101; 114; 45; 69; 110; 99; 111; 100; 105; 110; 103].
Definition n_connection : str := [67; 111; 110; 110; 101; 99; 116; 105; 111; 110].
Definition n_expect : str := [69; 120; 112; 101; 99; 116].
Definition n_content_encoding : str := [67; 111; 110; 116; 101; 110; 116; 45; 69; 110; 99; 111; 100; 105; 110; 103].
Definition n_cookie : str := [67; 111; 111; 107; 105; 101].
Definition v_chunked : str := [99; 104; 117; 110; 107; 101; 100].
Definition v_close : str := [99; 108; 111; 115; 101].
Definition v_keep_alive : str := [107; 101; 101; 112; 45; 97; 108; 105; 118; 101].

(* str(n) *)
Fixpoint to_dec_aux (fuel : nat) (n : N) (acc : bytes) : bytes :=
  match fuel with
  | O => acc
  | S f => let acc' := (48 + n mod 10) :: acc in
           if n / 10 =? 0 then acc' else to_dec_aux f (n / 10) acc'
  end.
Definition to_dec (n : N) : bytes := to_dec_aux (S (N.to_nat (N.log2 n))) n [].

Record cinput := mkIn {
  i_method : str; i_target : str; i_host : str; i_v11 : bool;
  i_headers : md;                   (* headers= given by the caller *)
  i_accept_encoding : str;          (* DEFAULT_HEADERS[Accept-Encoding] (depends on installed codecs) *)
  i_user_agent : str;               (* SERVER_SOFTWARE *)
  i_chunked : option bool;          (* chunked= *)
  i_body : cbody;                   (* data= *)
  i_force_close : bool }.           (* connector.force_close *)

Inductive bres := BOk (r : creq) | BValueError | BUnmodelled.

Definition truthy_ob (c : option bool) : bool := match c with Some true => true | _ => false end.

Definition build (i : cinput) : bres :=
  let method := map upper (i_method i) in
  if md_has n_content_length (i_headers i) || md_has n_transfer_encoding (i_headers i)
     || md_has n_expect (i_headers i) || md_has n_content_encoding (i_headers i) || md_has n_cookie (i_headers i)
  then BUnmodelled else
  (* _update_headers *)
  let '(uh, rest) := md_pop n_host (i_headers i) in
  let h0 := (n_host, match uh with Some v => v | None => i_host i end) :: rest in
  (* _update_auto_headers (skip_auto_headers = None) *)
  let h1 := md_setdefault n_accept default_accept h0 in
  let h2 := md_setdefault n_accept_encoding (i_accept_encoding i) h1 in
  let h3 := md_setdefault n_user_agent (i_user_agent i) h2 in
  let is_get := mem_bytes method client_get_methods in
  (* _update_body_from_data *)
  let '(h4, ch) :=
    match i_body i with
    | BNone =>
      (if negb is_get && negb (truthy_ob (i_chunked i)) then md_set n_content_length [48] h3 else h3, i_chunked i)
    | BBytes d =>
      let '(h, c) := if negb (truthy_ob (i_chunked i)) then (md_set n_content_length (to_dec (lenN d)) h3, i_chunked i)
                     else (h3, i_chunked i) in
      (md_setdefault n_content_type default_content_type h, c)
    | BPieces _ =>
      let c := if negb (truthy_ob (i_chunked i)) then Some true else i_chunked i in
      (md_setdefault n_content_type default_content_type h3, c)
    end in
  (* _update_transfer_encoding, run when data is not None or the method is not a GET method *)
  let run_te := match i_body i with BNone => negb is_get | _ => true end in
  let te_res :=
    if run_te && truthy_ob ch then
      if md_has n_content_length h4 then None else Some (md_set n_transfer_encoding v_chunked h4)
    else Some h4 in
  match te_res with
  | None => BValueError
  | Some h5 =>
    (* _send: default Content-Type for POST methods, Connection *)
    let h6 := if mem_bytes method client_post_methods then md_setdefault n_content_type default_content_type h5 else h5 in
    let h7 := if md_has n_connection h6 then h6
              else if i_force_close i then (if i_v11 i then md_set n_connection v_close h6 else h6)
              else if i_v11 i then h6 else md_set n_connection v_keep_alive h6 in
    BOk (mkCreq (i_method i) (i_target i) (i_v11 i) h7 ch (i_body i))
  end.

(* ------------------------------------------------------------------ what the server must see *)
(* bytes of a code-point string on the wire ([] never matters: used only under serialize = Some) *)
Definition u8 (s : str) : bytes := match utf8_encode s with Some b => b | None => [] end.

Definition wire_headers (r : creq) : list (bytes * bytes) :=
  map (fun kv => (u8 (fst kv), strip_ows (u8 (snd kv)))) (c_headers r).

Definition hinfo_of (hs : list (bytes * bytes)) : hinfo :=
  match derive hs with POk hi => hi | _ => mkHinfo None None false false end.

(* the RawRequestMessage the handler's request is built from *)
Definition expected_msg (r : creq) : msg :=
  let hs := wire_headers r in
  let hi := hinfo_of hs in
  mkMsg (map upper (c_method r)) (c_target r) 1 (if c_v11 r then 1 else 0) hs
        (match hi_close hi with Some c => c | None => negb (c_v11 r) end)
        (hi_enc hi) (hi_upgrade hi) (hi_chunked hi).

Definition nonempty_pieces (b : cbody) : list bytes :=
  match b with BPieces ps => ps | BBytes d => [d] | BNone => [] end.

Fixpoint offsets_from (base : N) (ds : list bytes) : list N :=
  match ds with
  | [] => []
  | d :: ds' => match d with
                | [] => offsets_from base ds'
                | _ :: _ => (base + lenN d) :: offsets_from (base + lenN d) ds'
                end
  end.

(* what the payload stream of that message receives *)
Definition expected_rec (r : creq) : mrec :=
  let chunked := req_chunking r in
  let has_body := chunked || nonempty (body_bytes (c_body r)) in
  mkR (expected_msg r) has_body (body_bytes (c_body r))
      (if chunked then offsets_from 0 (nonempty_pieces (c_body r)) else [])
      true None.

(* ------------------------------------------------------------------ validity (exact hypotheses of the round trip) *)
Definition ascii_tok (s : str) : bool := nonempty s && forallb tchar s.

Definition hline (kv : str * str) : bytes := fst kv ++ [58; 32] ++ u8 (snd kv).

Fixpoint no_dup_singletons (seen : list bytes) (names : list bytes) : bool :=
  match names with
  | [] => true
  | n :: t => negb (existsb (fun k => ieqb k n) seen && is_singleton n) && no_dup_singletons (seen ++ [n]) t
  end.

Definition dec_numeral (v : bytes) (n : N) : bool :=
  nonempty v && forallb dec_digit v && (lenN v <=? int_max_str_digits) && (parse_dec v =? n).

Definition framing_ok (r : creq) : bool :=
  let hs := wire_headers r in
  if req_chunking r then
    match get_header h_transfer_encoding hs with
    | Some te => list_eqb te t_chunked && negb (has_header h_content_length hs)
    | None => false
    end
  else
    negb (has_header h_transfer_encoding hs) &&
    match c_body r, get_header h_content_length hs with
    | BPieces _, _ => false
    | b, Some v => dec_numeral v (lenN (body_bytes b))
    | b, None => negb (nonempty (body_bytes b))
    end.

(* the Content-Length the client reads back from its own headers agrees with the body (writer.length) *)
Definition length_ok (r : creq) : bool :=
  match header_content_length r with
  | None => false
  | Some None => req_chunking r || negb (should_write r)
  | Some (Some n) => negb (req_chunking r) && (n =? lenN (body_bytes (c_body r)))
  end.

Definition limits_ok (lim : limits) (r : creq) : bool :=
  (lenN (u8 (status_line r)) + 1 <=? max_line lim) &&
  forallb (fun kv => lenN (hline kv) + 1 <=? max_field lim) (c_headers r) &&
  (lenN (c_headers r) + 3 <=? max_headers lim) &&
  (2 <=? max_line lim) && (1 <=? max_field lim) &&
  forallb (fun p => lenN (to_hex (lenN p)) + 1 <=? max_line lim) (nonempty_pieces (c_body r)).

Definition valid (lim : limits) (r : creq) : bool :=
  ascii_tok (c_method r) && negb (list_eqb (map upper (c_method r)) m_CONNECT) &&
  starts_with [47] (c_target r) && is_ascii (c_target r) && negb (existsb target_forbidden (c_target r)) &&
  negb (lenN (c_headers r) =? 0) && forallb (fun kv => ascii_tok (fst kv)) (c_headers r) &&
  no_dup_singletons [] (map fst (c_headers r)) &&
  negb (has_header h_upgrade (wire_headers r)) && negb (has_header h_sec_websocket_key1 (wire_headers r)) &&
  (negb (c_v11 r) || has_header h_host (wire_headers r)) &&
  framing_ok r && length_ok r && limits_ok lim r.

(* a segmentation of w *)
Definition segmentation (segs : list bytes) (w : bytes) : Prop := concat segs = w /\ segs <> [].
