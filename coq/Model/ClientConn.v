(* C06 — executable model of aiohttp's client connection reuse (definitions only).

   Scope: client_proto.ResponseHandler (DataQueue of parsed responses, should_close, raw _tail,
   set_response_params, data_received, connection_lost), connector.BaseConnector._get/_release
   (pool keyed by ConnectionKey, FIFO per key), client_reqrep.ClientResponse.start/_response_eof/
   release/close/read and client._connect_and_send_request, at the granularity of the atomic
   (non-suspending) stretches of the real code.  The HTTP byte parser itself is abstracted: what the
   peer sends is a sequence of *tokens* (a complete response head announcing a Content-Length body,
   body bytes, a complete invalid head, an incomplete line); one data_received call is a segment of
   tokens.  Every token carries a ghost *tag*: the exchange that owned the connection when the
   segment arrived (TFlight e) or TIdle when it arrived while the connection sat in the pool.
   Everything a caller is given (heads, body items) is appended to s_log with its tag.

   A segment is processed token by token between ESegBegin and ESegEnd; while a segment is open no
   other event is enabled (data_received runs to completion), but the callbacks the real parser
   fires inside feed_data (payload eof -> ClientResponse._response_eof -> Connection.release) are
   part of the token step, so the connection can go back to the pool in the middle of a segment —
   the messages parsed after that point are queued on a pooled connection.

   The decisions come from Generated/ClientConnGen.v (translated from the source on every run). *)
From AV Require Import Lib.Base Generated.ClientConnGen.
Open Scope N_scope.

Definition upd {A} (f : N -> A) (i : N) (v : A) : N -> A := fun j => if j =? i then v else f j.

Definition nonempty {A} (l : list A) : bool := match l with [] => false | _ :: _ => true end.

(* ghost tag: who owned the connection when the bytes arrived *)
Inductive tag := TFlight (e : N) | TIdle.

Definition tag_eqb (a b : tag) : bool :=
  match a, b with
  | TFlight x, TFlight y => x =? y
  | TIdle, TIdle => true
  | _, _ => false
  end.

(* what the peer sends; id identifies the token in the harness (marker carried by the bytes) *)
Inductive token :=
| KHead (id blen : N) (close upg : bool)   (* complete head; Content-Length blen; Connection: close; 101 upgrade *)
| KBody (id n : N)                         (* n bytes without a line end *)
| KJunk (id : N)                           (* a complete head block that is not HTTP *)
| KPartial (id : N).                       (* an incomplete line / incomplete head block *)

Definition tok_id (t : token) : N :=
  match t with KHead i _ _ _ => i | KBody i _ => i | KJunk i => i | KPartial i => i end.

Inductive phase := PFlight (e : N) | PIdle | PClosed.
Inductive pstate := PSHead | PSBody (pid rem : N).
(* ghost: how much of the single response the current exchange is entitled to has arrived *)
Inductive prog := GNone | GBody (rem : N) | GDone.

Record msg := { m_id : N; m_tag : tag; m_pay : option N; m_close : bool; m_upg : bool }.

(* a StreamReader: shared by the parser (feeds it), the protocol (_payload), the queued message and
   the response object (content) *)
Record payload := {
  p_tag : tag;                 (* ghost: tag of the head that created it *)
  p_conn : N;                  (* ghost: connection whose parser created it *)
  p_items : list (N * tag);    (* body tokens fed so far, with their tags *)
  p_eof : bool;
  p_exc : bool;
  p_cb : option N              (* exchange whose _response_eof is registered with on_eof *)
}.

Record conn := {
  c_rq : reqp;                 (* ghost: parameters of the request it was created for *)
  c_key : list N;              (* ConnectionKey it is pooled under *)
  c_phase : phase;             (* in _acquired for exchange e | in _conns[key] | closed by our side *)
  c_conn : bool;               (* is_connected(): transport present and not closing *)
  c_parser : bool;             (* self._parser is not None *)
  c_pst : pstate;              (* parser: expecting a head | inside a body *)
  c_ptail : bool;              (* parser holds an incomplete line / head block *)
  c_psc : bool;                (* parser._should_close (last message announced close) *)
  c_pupg : bool;               (* parser._upgraded *)
  c_htail : list (token * tag);(* ResponseHandler._tail: raw bytes kept for a later parser *)
  c_buf : list msg;            (* DataQueue._buffer *)
  c_sc : bool;                 (* ResponseHandler._should_close *)
  c_exc : N;                   (* 0 none | 1 parse error | 2 server disconnected | 3 OS error *)
  c_upg : bool;                (* ResponseHandler._upgraded *)
  c_pay : option N;            (* ResponseHandler._payload (None also stands for EMPTY_PAYLOAD) *)
  c_prog : prog;               (* ghost *)
  c_dirty : bool               (* ghost: the property's own notion of "must not be reused" *)
}.

Inductive xstate := XFree | XConn | XWait | XHead | XDone.

(* one request/response exchange = one call of client._connect_and_send_request *)
Record exch := {
  x_st : xstate;
  x_conn : N;
  x_held : bool;               (* ClientResponse._connection is not None / Connection._protocol is not None *)
  x_closed : bool;             (* ClientResponse._closed *)
  x_pay : option N             (* ClientResponse.content *)
}.

Record deliv := { d_e : N; d_tag : tag; d_id : N; d_head : bool (* a response head (else a body item) *) }.

Record seg := {
  g_c : N;                     (* connection whose data_received is running *)
  g_tag : tag;                 (* tag of externally arriving tokens of this segment *)
  g_stash : bool;              (* no parser / upgraded: the segment goes to _tail *)
  g_msgs : list msg;           (* messages parsed so far in this feed_data call *)
  g_err : bool;                (* feed_data raised: the rest of the segment is dropped *)
  g_rest : list (token * tag); (* tokens after the parser upgraded (returned as tail) *)
  g_queue : list (token * tag) (* tokens replayed from _tail by set_response_params *)
}.

Record state := {
  s_conn : N -> conn; s_nconn : N;
  s_pay : N -> payload; s_npay : N;
  s_pool : list N;             (* pooled connections, oldest release first (all keys) *)
  s_x : N -> exch;
  s_seg : option seg;
  s_log : list deliv;
  s_idle_parsed : bool;        (* ghost: some token was handled while its connection was pooled *)
  s_tail_surplus : bool        (* ghost: bytes beyond the end of a response were left in the parser's line buffer *)
}.

Record cfg := {
  cfg_force : bool;            (* connector force_close *)
  cfg_strict : bool            (* repaired variant: _get also refuses a pooled connection with leftovers *)
}.

(* ---- record update helpers (mechanical) ---- *)
Definition set_c_phase (x : conn) (v : phase) : conn :=
  {| c_rq := c_rq x; c_key := c_key x; c_phase := v; c_conn := c_conn x; c_parser := c_parser x; c_pst := c_pst x; c_ptail := c_ptail x; c_psc := c_psc x; c_pupg := c_pupg x; c_htail := c_htail x; c_buf := c_buf x; c_sc := c_sc x; c_exc := c_exc x; c_upg := c_upg x; c_pay := c_pay x; c_prog := c_prog x; c_dirty := c_dirty x |}.
Definition set_c_conn (x : conn) (v : bool) : conn :=
  {| c_rq := c_rq x; c_key := c_key x; c_phase := c_phase x; c_conn := v; c_parser := c_parser x; c_pst := c_pst x; c_ptail := c_ptail x; c_psc := c_psc x; c_pupg := c_pupg x; c_htail := c_htail x; c_buf := c_buf x; c_sc := c_sc x; c_exc := c_exc x; c_upg := c_upg x; c_pay := c_pay x; c_prog := c_prog x; c_dirty := c_dirty x |}.
Definition set_c_parser (x : conn) (v : bool) : conn :=
  {| c_rq := c_rq x; c_key := c_key x; c_phase := c_phase x; c_conn := c_conn x; c_parser := v; c_pst := c_pst x; c_ptail := c_ptail x; c_psc := c_psc x; c_pupg := c_pupg x; c_htail := c_htail x; c_buf := c_buf x; c_sc := c_sc x; c_exc := c_exc x; c_upg := c_upg x; c_pay := c_pay x; c_prog := c_prog x; c_dirty := c_dirty x |}.
Definition set_c_pst (x : conn) (v : pstate) : conn :=
  {| c_rq := c_rq x; c_key := c_key x; c_phase := c_phase x; c_conn := c_conn x; c_parser := c_parser x; c_pst := v; c_ptail := c_ptail x; c_psc := c_psc x; c_pupg := c_pupg x; c_htail := c_htail x; c_buf := c_buf x; c_sc := c_sc x; c_exc := c_exc x; c_upg := c_upg x; c_pay := c_pay x; c_prog := c_prog x; c_dirty := c_dirty x |}.
Definition set_c_ptail (x : conn) (v : bool) : conn :=
  {| c_rq := c_rq x; c_key := c_key x; c_phase := c_phase x; c_conn := c_conn x; c_parser := c_parser x; c_pst := c_pst x; c_ptail := v; c_psc := c_psc x; c_pupg := c_pupg x; c_htail := c_htail x; c_buf := c_buf x; c_sc := c_sc x; c_exc := c_exc x; c_upg := c_upg x; c_pay := c_pay x; c_prog := c_prog x; c_dirty := c_dirty x |}.
Definition set_c_psc (x : conn) (v : bool) : conn :=
  {| c_rq := c_rq x; c_key := c_key x; c_phase := c_phase x; c_conn := c_conn x; c_parser := c_parser x; c_pst := c_pst x; c_ptail := c_ptail x; c_psc := v; c_pupg := c_pupg x; c_htail := c_htail x; c_buf := c_buf x; c_sc := c_sc x; c_exc := c_exc x; c_upg := c_upg x; c_pay := c_pay x; c_prog := c_prog x; c_dirty := c_dirty x |}.
Definition set_c_pupg (x : conn) (v : bool) : conn :=
  {| c_rq := c_rq x; c_key := c_key x; c_phase := c_phase x; c_conn := c_conn x; c_parser := c_parser x; c_pst := c_pst x; c_ptail := c_ptail x; c_psc := c_psc x; c_pupg := v; c_htail := c_htail x; c_buf := c_buf x; c_sc := c_sc x; c_exc := c_exc x; c_upg := c_upg x; c_pay := c_pay x; c_prog := c_prog x; c_dirty := c_dirty x |}.
Definition set_c_htail (x : conn) (v : list (token * tag)) : conn :=
  {| c_rq := c_rq x; c_key := c_key x; c_phase := c_phase x; c_conn := c_conn x; c_parser := c_parser x; c_pst := c_pst x; c_ptail := c_ptail x; c_psc := c_psc x; c_pupg := c_pupg x; c_htail := v; c_buf := c_buf x; c_sc := c_sc x; c_exc := c_exc x; c_upg := c_upg x; c_pay := c_pay x; c_prog := c_prog x; c_dirty := c_dirty x |}.
Definition set_c_buf (x : conn) (v : list msg) : conn :=
  {| c_rq := c_rq x; c_key := c_key x; c_phase := c_phase x; c_conn := c_conn x; c_parser := c_parser x; c_pst := c_pst x; c_ptail := c_ptail x; c_psc := c_psc x; c_pupg := c_pupg x; c_htail := c_htail x; c_buf := v; c_sc := c_sc x; c_exc := c_exc x; c_upg := c_upg x; c_pay := c_pay x; c_prog := c_prog x; c_dirty := c_dirty x |}.
Definition set_c_sc (x : conn) (v : bool) : conn :=
  {| c_rq := c_rq x; c_key := c_key x; c_phase := c_phase x; c_conn := c_conn x; c_parser := c_parser x; c_pst := c_pst x; c_ptail := c_ptail x; c_psc := c_psc x; c_pupg := c_pupg x; c_htail := c_htail x; c_buf := c_buf x; c_sc := v; c_exc := c_exc x; c_upg := c_upg x; c_pay := c_pay x; c_prog := c_prog x; c_dirty := c_dirty x |}.
Definition set_c_exc (x : conn) (v : N) : conn :=
  {| c_rq := c_rq x; c_key := c_key x; c_phase := c_phase x; c_conn := c_conn x; c_parser := c_parser x; c_pst := c_pst x; c_ptail := c_ptail x; c_psc := c_psc x; c_pupg := c_pupg x; c_htail := c_htail x; c_buf := c_buf x; c_sc := c_sc x; c_exc := v; c_upg := c_upg x; c_pay := c_pay x; c_prog := c_prog x; c_dirty := c_dirty x |}.
Definition set_c_upg (x : conn) (v : bool) : conn :=
  {| c_rq := c_rq x; c_key := c_key x; c_phase := c_phase x; c_conn := c_conn x; c_parser := c_parser x; c_pst := c_pst x; c_ptail := c_ptail x; c_psc := c_psc x; c_pupg := c_pupg x; c_htail := c_htail x; c_buf := c_buf x; c_sc := c_sc x; c_exc := c_exc x; c_upg := v; c_pay := c_pay x; c_prog := c_prog x; c_dirty := c_dirty x |}.
Definition set_c_pay (x : conn) (v : option N) : conn :=
  {| c_rq := c_rq x; c_key := c_key x; c_phase := c_phase x; c_conn := c_conn x; c_parser := c_parser x; c_pst := c_pst x; c_ptail := c_ptail x; c_psc := c_psc x; c_pupg := c_pupg x; c_htail := c_htail x; c_buf := c_buf x; c_sc := c_sc x; c_exc := c_exc x; c_upg := c_upg x; c_pay := v; c_prog := c_prog x; c_dirty := c_dirty x |}.
Definition set_c_prog (x : conn) (v : prog) : conn :=
  {| c_rq := c_rq x; c_key := c_key x; c_phase := c_phase x; c_conn := c_conn x; c_parser := c_parser x; c_pst := c_pst x; c_ptail := c_ptail x; c_psc := c_psc x; c_pupg := c_pupg x; c_htail := c_htail x; c_buf := c_buf x; c_sc := c_sc x; c_exc := c_exc x; c_upg := c_upg x; c_pay := c_pay x; c_prog := v; c_dirty := c_dirty x |}.
Definition set_c_dirty (x : conn) (v : bool) : conn :=
  {| c_rq := c_rq x; c_key := c_key x; c_phase := c_phase x; c_conn := c_conn x; c_parser := c_parser x; c_pst := c_pst x; c_ptail := c_ptail x; c_psc := c_psc x; c_pupg := c_pupg x; c_htail := c_htail x; c_buf := c_buf x; c_sc := c_sc x; c_exc := c_exc x; c_upg := c_upg x; c_pay := c_pay x; c_prog := c_prog x; c_dirty := v |}.
Definition set_p_items (x : payload) (v : list (N * tag)) : payload :=
  {| p_tag := p_tag x; p_conn := p_conn x; p_items := v; p_eof := p_eof x; p_exc := p_exc x; p_cb := p_cb x |}.
Definition set_p_eof (x : payload) (v : bool) : payload :=
  {| p_tag := p_tag x; p_conn := p_conn x; p_items := p_items x; p_eof := v; p_exc := p_exc x; p_cb := p_cb x |}.
Definition set_p_exc (x : payload) (v : bool) : payload :=
  {| p_tag := p_tag x; p_conn := p_conn x; p_items := p_items x; p_eof := p_eof x; p_exc := v; p_cb := p_cb x |}.
Definition set_p_cb (x : payload) (v : option N) : payload :=
  {| p_tag := p_tag x; p_conn := p_conn x; p_items := p_items x; p_eof := p_eof x; p_exc := p_exc x; p_cb := v |}.
Definition set_x_st (x : exch) (v : xstate) : exch :=
  {| x_st := v; x_conn := x_conn x; x_held := x_held x; x_closed := x_closed x; x_pay := x_pay x |}.
Definition set_x_held (x : exch) (v : bool) : exch :=
  {| x_st := x_st x; x_conn := x_conn x; x_held := v; x_closed := x_closed x; x_pay := x_pay x |}.
Definition set_x_closed (x : exch) (v : bool) : exch :=
  {| x_st := x_st x; x_conn := x_conn x; x_held := x_held x; x_closed := v; x_pay := x_pay x |}.
Definition set_x_pay (x : exch) (v : option N) : exch :=
  {| x_st := x_st x; x_conn := x_conn x; x_held := x_held x; x_closed := x_closed x; x_pay := v |}.
Definition set_g_msgs (x : seg) (v : list msg) : seg :=
  {| g_c := g_c x; g_tag := g_tag x; g_stash := g_stash x; g_msgs := v; g_err := g_err x; g_rest := g_rest x; g_queue := g_queue x |}.
Definition set_g_err (x : seg) (v : bool) : seg :=
  {| g_c := g_c x; g_tag := g_tag x; g_stash := g_stash x; g_msgs := g_msgs x; g_err := v; g_rest := g_rest x; g_queue := g_queue x |}.
Definition set_g_rest (x : seg) (v : list (token * tag)) : seg :=
  {| g_c := g_c x; g_tag := g_tag x; g_stash := g_stash x; g_msgs := g_msgs x; g_err := g_err x; g_rest := v; g_queue := g_queue x |}.
Definition set_g_queue (x : seg) (v : list (token * tag)) : seg :=
  {| g_c := g_c x; g_tag := g_tag x; g_stash := g_stash x; g_msgs := g_msgs x; g_err := g_err x; g_rest := g_rest x; g_queue := v |}.
Definition set_s_conn (x : state) (v : N -> conn) : state :=
  {| s_conn := v; s_nconn := s_nconn x; s_pay := s_pay x; s_npay := s_npay x; s_pool := s_pool x; s_x := s_x x; s_seg := s_seg x; s_log := s_log x; s_idle_parsed := s_idle_parsed x; s_tail_surplus := s_tail_surplus x |}.
Definition set_s_nconn (x : state) (v : N) : state :=
  {| s_conn := s_conn x; s_nconn := v; s_pay := s_pay x; s_npay := s_npay x; s_pool := s_pool x; s_x := s_x x; s_seg := s_seg x; s_log := s_log x; s_idle_parsed := s_idle_parsed x; s_tail_surplus := s_tail_surplus x |}.
Definition set_s_pay (x : state) (v : N -> payload) : state :=
  {| s_conn := s_conn x; s_nconn := s_nconn x; s_pay := v; s_npay := s_npay x; s_pool := s_pool x; s_x := s_x x; s_seg := s_seg x; s_log := s_log x; s_idle_parsed := s_idle_parsed x; s_tail_surplus := s_tail_surplus x |}.
Definition set_s_npay (x : state) (v : N) : state :=
  {| s_conn := s_conn x; s_nconn := s_nconn x; s_pay := s_pay x; s_npay := v; s_pool := s_pool x; s_x := s_x x; s_seg := s_seg x; s_log := s_log x; s_idle_parsed := s_idle_parsed x; s_tail_surplus := s_tail_surplus x |}.
Definition set_s_pool (x : state) (v : list N) : state :=
  {| s_conn := s_conn x; s_nconn := s_nconn x; s_pay := s_pay x; s_npay := s_npay x; s_pool := v; s_x := s_x x; s_seg := s_seg x; s_log := s_log x; s_idle_parsed := s_idle_parsed x; s_tail_surplus := s_tail_surplus x |}.
Definition set_s_x (x : state) (v : N -> exch) : state :=
  {| s_conn := s_conn x; s_nconn := s_nconn x; s_pay := s_pay x; s_npay := s_npay x; s_pool := s_pool x; s_x := v; s_seg := s_seg x; s_log := s_log x; s_idle_parsed := s_idle_parsed x; s_tail_surplus := s_tail_surplus x |}.
Definition set_s_seg (x : state) (v : option seg) : state :=
  {| s_conn := s_conn x; s_nconn := s_nconn x; s_pay := s_pay x; s_npay := s_npay x; s_pool := s_pool x; s_x := s_x x; s_seg := v; s_log := s_log x; s_idle_parsed := s_idle_parsed x; s_tail_surplus := s_tail_surplus x |}.
Definition set_s_log (x : state) (v : list deliv) : state :=
  {| s_conn := s_conn x; s_nconn := s_nconn x; s_pay := s_pay x; s_npay := s_npay x; s_pool := s_pool x; s_x := s_x x; s_seg := s_seg x; s_log := v; s_idle_parsed := s_idle_parsed x; s_tail_surplus := s_tail_surplus x |}.
Definition set_s_idle_parsed (x : state) (v : bool) : state :=
  {| s_conn := s_conn x; s_nconn := s_nconn x; s_pay := s_pay x; s_npay := s_npay x; s_pool := s_pool x; s_x := s_x x; s_seg := s_seg x; s_log := s_log x; s_idle_parsed := v; s_tail_surplus := s_tail_surplus x |}.
Definition set_s_tail_surplus (x : state) (v : bool) : state :=
  {| s_conn := s_conn x; s_nconn := s_nconn x; s_pay := s_pay x; s_npay := s_npay x; s_pool := s_pool x; s_x := s_x x; s_seg := s_seg x; s_log := s_log x; s_idle_parsed := s_idle_parsed x; s_tail_surplus := v |}.

(* ---- initial state ---- *)
Definition rq0 : reqp := {| rq_host := 0; rq_port := 0; rq_is_ssl := 0; rq_ssl := 0; rq_proxy := 0; rq_phh := 0; rq_sni := 0 |}.
Definition conn0 : conn :=
  {| c_rq := rq0; c_key := key_of_req rq0; c_phase := PClosed; c_conn := false; c_parser := false; c_pst := PSHead;
     c_ptail := false; c_psc := false; c_pupg := false; c_htail := []; c_buf := []; c_sc := false; c_exc := 0;
     c_upg := false; c_pay := None; c_prog := GNone; c_dirty := false |}.
Definition pay0 : payload := {| p_tag := TIdle; p_conn := 0; p_items := []; p_eof := false; p_exc := false; p_cb := None |}.
Definition exch0 : exch := {| x_st := XFree; x_conn := 0; x_held := false; x_closed := true; x_pay := None |}.
Definition init : state :=
  {| s_conn := fun _ => conn0; s_nconn := 0; s_pay := fun _ => pay0; s_npay := 0; s_pool := []; s_x := fun _ => exch0;
     s_seg := None; s_log := []; s_idle_parsed := false; s_tail_surplus := false |}.

Definition set_conn (s : state) (c : N) (cn : conn) : state := set_s_conn s (upd (s_conn s) c cn).
Definition set_payl (s : state) (p : N) (pl : payload) : state := set_s_pay s (upd (s_pay s) p pl).
Definition set_exch (s : state) (e : N) (x : exch) : state := set_s_x s (upd (s_x s) e x).

(* ---- ResponseHandler.should_close ---- *)
Definition pay_open (s : state) (cn : conn) : bool :=
  match c_pay cn with Some pid => negb (p_eof (s_pay s pid)) | None => false end.

Definition proto_should_close (s : state) (cn : conn) : bool :=
  should_close_gen (c_sc cn) (pay_open s cn) (c_upg cn) (negb (c_exc cn =? 0)) false
                   (nonempty (c_buf cn)) (nonempty (c_htail cn)) (c_parser cn && c_ptail cn).

(* ResponseHandler.close(): transport.close(); transport = None; _payload = None; _exception = None *)
Definition close_proto (cn : conn) : conn :=
  set_c_phase (set_c_exc (set_c_pay (set_c_conn cn false) None) 0) PClosed.

Definition prog_done (p : prog) : bool := match p with GDone => true | _ => false end.

(* ghost: a connection given back before the response it owed has completely arrived is dirty *)
Definition mark_incomplete (cn : conn) : conn := if prog_done (c_prog cn) then cn else set_c_dirty cn true.

(* BaseConnector._release for a connection held by an exchange; arg = should_close argument *)
Definition release_conn (cf : cfg) (s : state) (c : N) (arg : bool) : state :=
  let cn := s_conn s c in
  match c_phase cn with
  | PFlight _ =>
      let cn := mark_incomplete cn in
      if release_closes_gen (cfg_force cf) arg (proto_should_close s cn)
      then set_conn s c (close_proto cn)
      else set_s_pool (set_conn s c (set_c_phase cn PIdle)) (s_pool s ++ [c])
  | _ => s
  end.

(* ClientResponse._response_eof (registered with payload.on_eof) *)
Definition response_eof (cf : cfg) (s : state) (e : N) : state :=
  let x := s_x s e in
  let upgraded := x_held x && c_upg (s_conn s (x_conn x)) in
  if response_eof_releases_gen (x_closed x) upgraded then
    let s1 := set_exch s e (set_x_held (set_x_closed x true) false) in
    if x_held x then release_conn cf s1 (x_conn x) false else s1
  else s.

(* ---- ghost bookkeeping for one arriving token (not for tokens replayed from _tail) ---- *)
Definition ghost_prog (p : prog) (tk : token) : prog * bool :=   (* new progress, became dirty *)
  match p, tk with
  | GNone, KHead _ blen cl up =>   (* an upgrade, or a response announcing `Connection: close`, ends the connection's reusable life *)
      if up then (GDone, true) else if blen =? 0 then (GDone, cl) else (GBody blen, cl)
  | GNone, _ => (GNone, true)
  | GBody rem, KBody _ n => if n <? rem then (GBody (rem - n), false) else if n =? rem then (GDone, false) else (GDone, true)
  | GBody rem, _ => (GBody rem, true)
  | GDone, _ => (GDone, true)
  end.

Definition ghost_tok (s : state) (c : N) (tk : token) : state :=
  let cn := s_conn s c in
  match c_phase cn with
  | PFlight _ =>
      let '(p, d) := ghost_prog (c_prog cn) tk in
      set_conn s c (set_c_dirty (set_c_prog cn p) (c_dirty cn || d))
  | _ => set_s_idle_parsed (set_conn s c (set_c_dirty cn true)) true
  end.

(* feed_data raised: transport.close(); set_exception *)
Definition parse_error (s : state) (g : seg) : state * seg :=
  let c := g_c g in
  let cn := s_conn s c in
  (set_conn s c (set_c_exc (set_c_sc (set_c_conn cn false) true) 1), set_g_err (set_g_msgs g []) true).

Definition surplus_tail (s : state) (cn : conn) : state :=
  if prog_done (c_prog cn) then set_s_tail_surplus s true else s.

(* one token through HttpResponseParser.feed_data (None: outside the modelled domain — inside a body
   every byte string is body bytes, so only KBody is meaningful there) *)
Definition parse_tok (cf : cfg) (s : state) (g : seg) (tk : token) (tg : tag) : option (state * seg) :=
  let c := g_c g in
  let cn := s_conn s c in
  match c_pst cn, tk with
  | PSBody pid rem, KBody id n =>
      let pl := s_pay s pid in
      let pl := set_p_items pl (p_items pl ++ [(id, tg)]) in
      if n <? rem then
        Some (set_conn (set_payl s pid pl) c (set_c_pst cn (PSBody pid (rem - n))), g)
      else
        let s1 := set_payl s pid (set_p_cb (set_p_eof pl true) None) in
        let s2 := set_conn s1 c (set_c_pst cn PSHead) in
        let s3 := match p_cb pl with Some e => response_eof cf s2 e | None => s2 end in
        (* bytes beyond the announced length reach the parser's line buffer after the end-of-body callbacks ran *)
        Some (if rem <? n then surplus_tail (set_conn s3 c (set_c_ptail (s_conn s3 c) true)) cn else s3, g)
  | PSBody _ _, _ => None
  | PSHead, KHead id blen cl up =>
      if c_ptail cn || c_psc cn then Some (parse_error s g)
      else if up then
        let m := {| m_id := id; m_tag := tg; m_pay := None; m_close := cl; m_upg := true |} in
        Some (set_conn s c (set_c_pupg (set_c_psc cn cl) true), set_g_msgs g (g_msgs g ++ [m]))
      else if blen =? 0 then
        let m := {| m_id := id; m_tag := tg; m_pay := None; m_close := cl; m_upg := false |} in
        Some (set_conn s c (set_c_psc cn cl), set_g_msgs g (g_msgs g ++ [m]))
      else
        let pid := s_npay s in
        let pl := {| p_tag := tg; p_conn := c; p_items := []; p_eof := false; p_exc := false; p_cb := None |} in
        let m := {| m_id := id; m_tag := tg; m_pay := Some pid; m_close := cl; m_upg := false |} in
        Some (set_conn (set_s_npay (set_payl s pid pl) (pid + 1)) c (set_c_pst (set_c_psc cn cl) (PSBody pid blen)),
              set_g_msgs g (g_msgs g ++ [m]))
  | PSHead, KJunk _ => Some (parse_error s g)
  | PSHead, (KBody _ _ | KPartial _) => Some (surplus_tail (set_conn s c (set_c_ptail cn true)) cn, g)
  end.

(* one token of the open segment *)
Definition proc_tok (cf : cfg) (s : state) (g : seg) (tk : token) (tg : tag) : option (state * seg) :=
  let c := g_c g in
  let cn := s_conn s c in
  if g_err g then Some (s, g)
  else if g_stash g then Some (set_conn s c (set_c_htail cn (c_htail cn ++ [(tk, tg)])), g)
  else if c_pupg cn then Some (s, set_g_rest g (g_rest g ++ [(tk, tg)]))
  else parse_tok cf s g tk tg.

(* after feed_data returned: queue the messages, latch close, remember the last payload *)
Fixpoint push_msgs (cn : conn) (ms : list msg) : conn :=
  match ms with
  | [] => cn
  | m :: ms' =>
      let cn := if m_close m && msg_close_latches_gen then set_c_sc cn true else cn in
      push_msgs (set_c_buf (set_c_pay cn (m_pay m)) (c_buf cn ++ [m])) ms'
  end.

Definition phase_tag (p : phase) : tag := match p with PFlight e => TFlight e | _ => TIdle end.

(* ---- _get: scan the pooled connections of this key, oldest first ---- *)
Definition reusable (cf : cfg) (s : state) (cn : conn) : bool :=
  get_reuses_gen (c_conn cn) (proto_should_close s cn) 0%Z 15%Z
  && (negb (cfg_strict cf) || (negb (proto_should_close s cn) && negb (c_ptail cn) && negb (c_psc cn)
                               && match c_pst cn with PSHead => true | _ => false end)).

(* returns the state with unusable same-key entries closed and removed, and the reused connection *)
Fixpoint pool_get (cf : cfg) (s : state) (key : list N) (pool : list N) (kept : list N) : state * option N :=
  match pool with
  | [] => (set_s_pool s kept, None)
  | c :: rest =>
      let cn := s_conn s c in
      if list_eqb (c_key cn) key then
        if reusable cf s cn then (set_s_pool s (kept ++ rest), Some c)
        else pool_get cf (set_conn s c (close_proto cn)) key rest kept
      else pool_get cf s key rest (kept ++ [c])
  end.

Inductive event :=
| EConnect (e : N) (r : reqp)      (* connector.connect returned a Connection to exchange e *)
| EParams (e : N)                  (* protocol.set_response_params *)
| ERead (e : N)                    (* ClientResponse.start: protocol.read() returned a head or raised *)
| EBody (e : N)                    (* ClientResponse.read() returned the body or raised *)
| ERelease (e : N)                 (* ClientResponse.release() *)
| EClose (e : N)                   (* ClientResponse.close(), also cancellation / timeout while waiting *)
| ESegBegin (c : N)                (* data_received entered *)
| ETok (tk : token)                (* next token of the segment *)
| EReplay                          (* next token replayed from _tail *)
| ESegEnd                          (* data_received returns *)
| EPeerClose (c : N) (oserr : bool)(* connection_lost(None | OSError) *)
.

Definition no_seg (s : state) : bool := match s_seg s with None => true | Some _ => false end.

Definition new_conn (r : reqp) (e : N) : conn :=
  {| c_rq := r; c_key := key_of_req r; c_phase := PFlight e; c_conn := true; c_parser := false; c_pst := PSHead;
     c_ptail := false; c_psc := false; c_pupg := false; c_htail := []; c_buf := []; c_sc := false; c_exc := 0;
     c_upg := false; c_pay := None; c_prog := GNone; c_dirty := false |}.

Definition do_connect (cf : cfg) (s : state) (e : N) (r : reqp) : option state :=
  match x_st (s_x s e) with
  | XFree =>
      let '(s1, got) := pool_get cf s (key_of_req r) (s_pool s) [] in
      let x c := {| x_st := XConn; x_conn := c; x_held := true; x_closed := true; x_pay := None |} in
      match got with
      | Some c =>
          let cn := s_conn s1 c in
          Some (set_exch (set_conn s1 c (set_c_prog (set_c_phase cn (PFlight e)) GNone)) e (x c))
      | None =>
          let c := s_nconn s1 in
          Some (set_exch (set_s_nconn (set_conn s1 c (new_conn r e)) (c + 1)) e (x c))
      end
  | _ => None
  end.

Definition do_params (s : state) (e : N) : option state :=
  let x := s_x s e in
  match x_st x with
  | XConn =>
      let c := x_conn x in
      let cn := s_conn s c in
      let cn1 := set_c_pupg (set_c_psc (set_c_ptail (set_c_pst (set_c_parser cn true) PSHead) false) false) false in
      let s1 := set_exch s e (set_x_st x XWait) in
      match c_htail cn with
      | [] => Some (set_conn s1 c cn1)
      | q =>
          (* data, self._tail = self._tail, b""; self.data_received(data) *)
          let g := {| g_c := c; g_tag := phase_tag (c_phase cn); g_stash := stash_gen (c_upg cn) false;
                      g_msgs := []; g_err := false; g_rest := []; g_queue := q |} in
          Some (set_s_seg (set_conn s1 c (set_c_htail cn1 [])) (Some g))
      end
  | _ => None
  end.

(* the head of the queue is handed to the response; payload.on_eof(self._response_eof) *)
Definition do_read (cf : cfg) (s : state) (e : N) : option state :=
  let x := s_x s e in
  match x_st x with
  | XWait =>
      let c := x_conn x in
      let cn := s_conn s c in
      match c_buf cn with
      | m :: rest =>
          let s1 := set_conn s c (set_c_buf cn rest) in
          let s2 := set_s_log s1 (s_log s1 ++ [{| d_e := e; d_tag := m_tag m; d_id := m_id m; d_head := true |}]) in
          let s3 := set_exch s2 e (set_x_pay (set_x_closed (set_x_st x XHead) false) (m_pay m)) in
          match m_pay m with
          | None => Some (response_eof cf s3 e)
          | Some pid =>
              let pl := s_pay s3 pid in
              if p_eof pl then Some (response_eof cf s3 e)
              else if p_exc pl then Some s3
              else Some (set_payl s3 pid (set_p_cb pl (Some e)))
          end
      | [] =>
          if c_exc cn =? 0 then None
          else (* start() raises; resp.close(); conn.close() *)
            Some (release_conn cf (set_exch s e (set_x_held (set_x_st x XDone) false)) c true)
      end
  | _ => None
  end.

Fixpoint log_items (e : N) (items : list (N * tag)) : list deliv :=
  match items with
  | [] => []
  | (i, t) :: r => {| d_e := e; d_tag := t; d_id := i; d_head := false |} :: log_items e r
  end.

Definition do_body (cf : cfg) (s : state) (e : N) : option state :=
  let x := s_x s e in
  match x_st x with
  | XHead =>
      let fin s' := (* _wait_released -> _release_connection unless upgraded *)
        let x' := s_x s' e in
        let upgraded := x_held x' && c_upg (s_conn s' (x_conn x')) in
        let s'' := set_exch s' e (set_x_held (set_x_st x' XDone) (x_held x' && upgraded)) in
        if x_held x' && negb upgraded then release_conn cf s'' (x_conn x') false else s'' in
      match x_pay x with
      | None => Some (fin s)
      | Some pid =>
          let pl := s_pay s pid in
          if p_exc pl || (negb (p_eof pl) && negb (c_conn (s_conn s (x_conn x)))) then
            (* read() raises (the payload's exception, or "Connection closed." when the transport is gone and
               nothing can complete the payload any more); self.close() *)
            let s1 := set_exch s e (set_x_held (set_x_closed (set_x_st x XDone) true) false) in
            Some (if x_held x then release_conn cf s1 (x_conn x) true else s1)
          else if p_eof pl then
            Some (fin (set_s_log s (s_log s ++ log_items e (p_items pl))))
          else None
      end
  | _ => None
  end.

Definition do_release (cf : cfg) (s : state) (e : N) (arg : bool) : option state :=
  let x := s_x s e in
  match x_st x, arg with
  | XHead, _ | XConn, true | XWait, true =>
      let s0 := match x_pay x with
                | Some pid => set_payl s pid (set_p_cb (set_p_exc (s_pay s pid) true) None)   (* _notify_content *)
                | None => s end in
      let s1 := set_exch s0 e (set_x_held (set_x_closed (set_x_st x XDone) true) false) in
      Some (if x_held x then release_conn cf s1 (x_conn x) arg else s1)
  | _, _ => None
  end.

Definition do_segbegin (s : state) (c : N) : option state :=
  let cn := s_conn s c in
  if (c <? s_nconn s) && c_conn cn then
    Some (set_s_seg s (Some {| g_c := c; g_tag := phase_tag (c_phase cn);
                                g_stash := stash_gen (c_upg cn) (negb (c_parser cn));
                                g_msgs := []; g_err := false; g_rest := []; g_queue := [] |}))
  else None.

Definition do_tok (cf : cfg) (s : state) (tk : token) : option state :=
  match s_seg s with
  | Some g =>
      match g_queue g with
      | [] =>
          match proc_tok cf (ghost_tok s (g_c g) tk) g tk (g_tag g) with
          | Some (s1, g1) => Some (set_s_seg s1 (Some g1))
          | None => None
          end
      | _ => None
      end
  | None => None
  end.

Definition do_replay (cf : cfg) (s : state) : option state :=
  match s_seg s with
  | Some g =>
      match g_queue g with
      | (tk, tg) :: q =>
          match proc_tok cf s (set_g_queue g q) tk tg with
          | Some (s1, g1) => Some (set_s_seg s1 (Some g1))
          | None => None
          end
      | [] => None
      end
  | None => None
  end.

Definition do_segend (s : state) : option state :=
  match s_seg s with
  | Some g =>
      match g_queue g with
      | [] =>
          let c := g_c g in
          let cn := s_conn s c in
          let cn1 := if g_err g || g_stash g then cn
                     else
                       let cn' := set_c_upg (push_msgs cn (g_msgs g)) (c_pupg cn) in
                       set_c_htail cn' (c_htail cn' ++ g_rest g) in
          Some (set_s_seg (set_conn s c cn1) None)
      | _ => None
      end
  | None => None
  end.

(* ResponseHandler.connection_lost *)
Definition do_peerclose (s : state) (c : N) (oserr : bool) : option state :=
  let cn := s_conn s c in
  if (c <? s_nconn s) && c_conn cn then
    let s1 := match c_parser cn, c_pst cn, c_pay cn with
              | true, PSBody _ _, Some pid' =>   (* parser.feed_eof() raises: the protocol's payload gets the error *)
                  set_payl s pid' (set_p_cb (set_p_exc (s_pay s pid') true) None)
              | _, _, _ => s
              end in
    let cn1 := if c_exc cn =? 0 then set_c_exc cn (if oserr then 3 else 2) else cn in
    let cn2 := set_c_dirty (set_c_conn (set_c_pay (set_c_pst (set_c_parser (set_c_sc cn1 true) false) PSHead) None) false) true in
    Some (set_conn s1 c cn2)
  else None.

Definition step (cf : cfg) (s : state) (ev : event) : option state :=
  match ev with
  | ETok tk => do_tok cf s tk
  | EReplay => do_replay cf s
  | ESegEnd => do_segend s
  | _ =>
      if no_seg s then
        match ev with
        | EConnect e r => do_connect cf s e r
        | EParams e => do_params s e
        | ERead e => do_read cf s e
        | EBody e => do_body cf s e
        | ERelease e => do_release cf s e false
        | EClose e => do_release cf s e true
        | ESegBegin c => do_segbegin s c
        | EPeerClose c o => do_peerclose s c o
        | _ => None
        end
      else None
  end.

Fixpoint run (cf : cfg) (s : state) (evs : list event) : option state :=
  match evs with
  | [] => Some s
  | ev :: r => match step cf s ev with Some s' => run cf s' r | None => None end
  end.

Definition faithful : cfg := {| cfg_force := false; cfg_strict := false |}.
Definition repaired : cfg := {| cfg_force := false; cfg_strict := true |}.

(* ---- the property's predicates ---- *)
Definition well_tagged (d : deliv) : Prop := d_tag d = TFlight (d_e d).
Definition no_mix (s : state) : Prop := forall d, In d (s_log s) -> well_tagged d.

Definition well_taggedb (d : deliv) : bool := tag_eqb (d_tag d) (TFlight (d_e d)).
