(* Timed model of graceful shutdown: BaseRunner.cleanup() -> Server.pre_shutdown() ->
   on_shutdown signal -> Server.shutdown(timeout) = gather(RequestHandler.shutdown(timeout)).
   One connection at a time (connections do not interact; gather waits for all of them).
   Times are integral milliseconds relative to the shutdown instant T0 (the moment pre_shutdown runs);
   `abs0` is loop.time() at T0, needed because helpers.ceil_timeout rounds ABSOLUTE deadlines.
   Definitions only; proofs in Proofs/Shutdown.v. *)
From AV Require Import Lib.Base Generated.LifecycleGen.
Open Scope Z_scope.

Record cfg := {
  t_ms : Z;      (* shutdown_timeout *)
  s_ms : Z;      (* how long the on_shutdown signal takes (>= 0); Server.shutdown starts at T0 + s_ms *)
  abs0 : Z       (* loop.time() at T0, in ms *)
}.

(* what a connection is doing at T0 *)
Inductive phase :=
  | PIdle                         (* waiting for a request: new connection, keep-alive, or a partial request head *)
  | PHandling (d : option Z)      (* handler running; left alone it returns d ms after T0 (None = never) *)
  | PUpload (arrive : option Z).  (* handler awaits the rest of the request body, which the peer sends arrive ms after T0 *)

Inductive hres :=
  | HNone                  (* no handler was running *)
  | HCompleted (at_ : Z)   (* the handler returned and its response was written *)
  | HCancelled (at_ : Z)   (* the handler received CancelledError *)
  | HStuck.                (* never completed and never cancelled: cleanup() does not return *)

Record outcome := {
  closed_at : option Z;    (* when transport.close() is called (None = never) *)
  handler : hres
}.

(* position facts read off the translated phase sequence of BaseRunner.cleanup() *)
Fixpoint before (a b : N) (l : list N) : bool :=
  match l with
  | [] => false
  | x :: t => if (x =? a)%N then memN b t else if (x =? b)%N then false else before a b t
  end.
Definition closing_at_T0 : bool := before 1 2 runner_cleanup_seq.   (* pre_shutdown before the on_shutdown signal *)
Definition srv_present : bool := memN 3%N runner_cleanup_seq.          (* Server.shutdown(timeout) is called *)

(* helpers.ceil_timeout(delay) called at `now`: no deadline for delay <= 0, deadline rounded up to a whole
   second of loop time when delay > 5 s *)
Definition ceil1000 (w : Z) : Z := ((w + 999) / 1000) * 1000.
Definition deadline (c : cfg) (now : Z) : option Z :=
  if t_ms c <=? 0 then None
  else let w := abs0 c + now + t_ms c in
       Some ((if ceil_threshold_ms <? t_ms c then ceil1000 w else w) - abs0 c).

(* end of the n-th consecutive `async with ceil_timeout(timeout)` wait, the first starting at `now` *)
Fixpoint deadlines (c : cfg) (n : nat) (now : Z) : option Z :=
  match n with
  | O => Some now
  | S k => match deadline c now with None => None | Some d => deadlines c k d end
  end.

Definition first_deadline (c : cfg) : option Z := deadlines c 1 (s_ms c).
Definition last_deadline (c : cfg) : option Z := deadlines c (N.to_nat shutdown_phases) (s_ms c).

(* a handler that would return at T0 + d *)
Definition handling (c : cfg) (d : option Z) : outcome :=
  match d with
  | Some d =>
    if d <=? s_ms c
    then (* returns while the on_shutdown signal still runs; close() made start() leave its loop *)
      {| closed_at := if closing_at_T0 then Some d else if srv_present then Some (s_ms c) else None;
         handler := HCompleted d |}
    else if srv_present then
      match last_deadline c with
      | None => {| closed_at := Some d; handler := HCompleted d |}          (* no deadline: waits as long as it takes *)
      | Some dl => if d <=? dl then {| closed_at := Some d; handler := HCompleted d |}
                   else {| closed_at := Some dl; handler := HCancelled dl |}
      end
    else {| closed_at := if closing_at_T0 then Some d else None; handler := HCompleted d |}
  | None =>
    if srv_present then
      match last_deadline c with
      | None => {| closed_at := None; handler := HStuck |}
      | Some dl => {| closed_at := Some dl; handler := HCancelled dl |}
      end
    else {| closed_at := None; handler := HStuck |}
  end.

Definition conn_outcome (c : cfg) (p : phase) : outcome :=
  match p with
  | PIdle =>
    (* close() cancels the idle waiter; start() ends WITHOUT closing the transport; the transport is
       closed by RequestHandler.shutdown() -> force_close() when Server.shutdown runs *)
    {| closed_at := if srv_present then Some (s_ms c) else None; handler := HNone |}
  | PHandling d => handling c d
  | PUpload arrive =>
    if closing_at_T0 && drops_data_when_closing
    then (* the body bytes are dropped by data_received; at the end of the first wait shutdown() poisons the
            request payload with CancelledError, which the handler's read re-raises *)
      if srv_present then
        match first_deadline c with
        | None => {| closed_at := None; handler := HStuck |}
        | Some d1 => {| closed_at := Some d1; handler := HCancelled d1 |}
        end
      else {| closed_at := None; handler := HStuck |}
    else handling c arrive
  end.

(* a request the peer sends delta ms after T0 (delta > 0): is a handler started for it? *)
Definition late_accepted (c : cfg) (p : phase) (delta : Z) : bool :=
  match p with
  | PIdle => negb closing_at_T0 && (delta <? s_ms c)
  | _ => false    (* a busy connection leaves its loop after the current request: close() / force_close() *)
  end.

(* when Server.shutdown (gather over all connections) returns, relative to T0 *)
Fixpoint all_closed_by (os : list outcome) (acc : Z) : option Z :=
  match os with
  | [] => Some acc
  | o :: t => match closed_at o with None => None | Some a => all_closed_by t (Z.max acc a) end
  end.
Definition server_shutdown_returns (c : cfg) (ps : list phase) : option Z :=
  all_closed_by (map (conn_outcome c) ps) (s_ms c).

(* two ceil-rounded deadlines add at most 2 s when the timeout exceeds ceil_timeout's threshold *)
Definition slack (c : cfg) : Z := if t_ms c <=? 5000 then 0 else 2000.
Definition bound (c : cfg) : Z := s_ms c + 2 * t_ms c + slack c.


(* closed, and the handler completed or cancelled, no later than `bound` *)
Definition bounded (c : cfg) (o : outcome) : Prop :=
  (exists a, closed_at o = Some a /\ a <= bound c) /\
  match handler o with
  | HNone => True
  | HCompleted a => a <= bound c
  | HCancelled a => a <= bound c
  | HStuck => False
  end.

