(* Timed model of graceful shutdown: BaseRunner.cleanup() -> Server.pre_shutdown() ->
   on_shutdown signal -> Server.shutdown(timeout) = gather(RequestHandler.shutdown(timeout)).
   One connection at a time (connections do not interact; gather waits for all of them).
   Times are integral milliseconds relative to the shutdown instant T0 (the moment pre_shutdown runs);
   `abs0` is loop.time() at T0, needed because helpers.ceil_timeout rounds ABSOLUTE deadlines.
   Definitions only; proofs in Proofs/Shutdown.v. *)
From AV Require Import Lib.Base Generated.LifecycleGen.
Open Scope Z_scope.

Record cfg := {
  t_ms : Z;      (* shutdown_timeout *)
  s_ms : Z;      (* how long the on_shutdown signal takes (>= 0); Server.shutdown starts at T0 + s_ms *)
  abs0 : Z       (* loop.time() at T0, in ms *)
}.

(* what a connection is doing at T0 *)
Inductive phase :=
  | PIdle                         (* waiting for a request: new connection, keep-alive, or a partial request head *)
  | PHandling (d : option Z)      (* handler running; left alone it returns d ms after T0 (None = never) *)
  | PReadLater (d : Z)            (* handler running; d ms after T0 it reads the (already received) body and returns *)
  | PUpload (arrive : option Z).  (* handler awaits the rest of the request body, which the peer sends arrive ms after T0 *)

Inductive hres :=
  | HNone                  (* no handler was running *)
  | HCompleted (at_ : Z)   (* the handler returned and its response was written *)
  | HCancelled (at_ : Z)   (* the handler received CancelledError *)
  | HStuck.                (* never completed and never cancelled: cleanup() does not return *)

Record outcome := {
  closed_at : option Z;    (* when transport.close() is called (None = never) *)
  handler : hres
}.

(* position facts read off the translated phase sequence of BaseRunner.cleanup() *)
Fixpoint before (a b : N) (l : list N) : bool :=
  match l with
  | [] => false
  | x :: t => if (x =? a)%N then memN b t else if (x =? b)%N then false else before a b t
  end.
Definition closing_at_T0 : bool := before 1 2 runner_cleanup_seq.   (* pre_shutdown before the on_shutdown signal *)
Definition srv_present : bool := memN 3%N runner_cleanup_seq.          (* Server.shutdown(timeout) is called *)

(* end of one wait of RequestHandler.shutdown(timeout) started at `now`: helpers.ceil_timeout rounds the deadline up
   to a whole second of loop time when the delay exceeds 5 s; a timeout <= 0 skips the wait (repaired behaviour,
   /repo 8d0202e; before, ceil_timeout(0) meant no deadline at all) *)
Definition ceil1000 (w : Z) : Z := ((w + 999) / 1000) * 1000.
Definition deadline (c : cfg) (now : Z) : option Z :=
  if t_ms c <=? 0 then (if nonpositive_timeout_no_wait then Some now else None)
  else let w := abs0 c + now + t_ms c in
       Some ((if ceil_threshold_ms <? t_ms c then ceil1000 w else w) - abs0 c).

(* end of the n-th consecutive `async with ceil_timeout(timeout)` wait, the first starting at `now` *)
Fixpoint deadlines (c : cfg) (n : nat) (now : Z) : option Z :=
  match n with
  | O => Some now
  | S k => match deadline c now with None => None | Some d => deadlines c k d end
  end.

Definition first_deadline (c : cfg) : option Z := deadlines c 1 (s_ms c).
Definition last_deadline (c : cfg) : option Z := deadlines c (N.to_nat shutdown_phases) (s_ms c).

(* a handler that would return at T0 + d *)
Definition handling (c : cfg) (d : option Z) : outcome :=
  match d with
  | Some d =>
    if d <=? s_ms c
    then (* returns while the on_shutdown signal still runs; close() made start() leave its loop *)
      {| closed_at := if closing_at_T0 then Some d else if srv_present then Some (s_ms c) else None;
         handler := HCompleted d |}
    else if srv_present then
      match last_deadline c with
      | None => {| closed_at := Some d; handler := HCompleted d |}          (* no deadline: waits as long as it takes *)
      | Some dl => if d <=? dl then {| closed_at := Some d; handler := HCompleted d |}
                   else {| closed_at := Some dl; handler := HCancelled dl |}
      end
    else {| closed_at := if closing_at_T0 then Some d else None; handler := HCompleted d |}
  | None =>
    if srv_present then
      match last_deadline c with
      | None => {| closed_at := None; handler := HStuck |}
      | Some dl => {| closed_at := Some dl; handler := HCancelled dl |}
      end
    else {| closed_at := None; handler := HStuck |}
  end.

(* a handler blocked on its request body; the rest of the body is delivered at T0 + arrive (None = never).
   At the end of the first wait shutdown() poisons the request payload with CancelledError, which the
   handler's read re-raises. *)
Definition blocked_on_body (c : cfg) (arrive : option Z) : outcome :=
  let starved :=
    if srv_present then
      match first_deadline c with
      | None => {| closed_at := None; handler := HStuck |}
      | Some d1 => {| closed_at := Some d1; handler := HCancelled d1 |}
      end
    else {| closed_at := None; handler := HStuck |} in
  if closing_at_T0 && drops_data_when_closing then starved
  else
    (* the body of the request in flight is still fed while the transport is open (/repo cff98d2) *)
    match arrive with
    | None => starved
    | Some a =>
      if a <=? s_ms c then handling c (Some a)
      else if srv_present then
        match first_deadline c with
        | None => handling c (Some a)
        | Some d1 => if a <=? d1 then {| closed_at := Some a; handler := HCompleted a |}
                     else {| closed_at := Some d1; handler := HCancelled d1 |}
        end
      else handling c (Some a)
    end.

(* a handler that reads its (complete) body only at T0 + d: once the payload is poisoned the read fails *)
Definition read_later (c : cfg) (d : Z) : outcome :=
  if d <=? s_ms c then handling c (Some d)
  else if srv_present then
    match first_deadline c, last_deadline c with
    | Some d1, Some dl =>
      if d <=? d1 then {| closed_at := Some d; handler := HCompleted d |}
      else if d <=? dl then {| closed_at := Some d; handler := HCancelled d |}
      else {| closed_at := Some dl; handler := HCancelled dl |}
    | _, _ => handling c (Some d)
    end
  else handling c (Some d).

Definition conn_outcome (c : cfg) (p : phase) : outcome :=
  match p with
  | PIdle =>
    (* close() cancels the idle waiter and (repaired, /repo 009879e) closes the transport at once; before, the
       transport was only closed by RequestHandler.shutdown() -> force_close() when Server.shutdown ran *)
    {| closed_at := if closing_at_T0 && close_closes_idle then Some 0
                    else if srv_present then Some (s_ms c) else None;
       handler := HNone |}
  | PHandling d => handling c d
  | PReadLater d => read_later c d
  | PUpload arrive => blocked_on_body c arrive
  end.

(* a request the peer sends delta ms after T0 (delta > 0): is a handler started for it? *)
Definition late_accepted (c : cfg) (p : phase) (delta : Z) : bool :=
  match p with
  | PIdle => negb closing_at_T0 && (delta <? s_ms c)
  | _ => false    (* a busy connection leaves its loop after the current request: close() / force_close() *)
  end.

(* when Server.shutdown (gather over all connections) returns, relative to T0 *)
Fixpoint all_closed_by (os : list outcome) (acc : Z) : option Z :=
  match os with
  | [] => Some acc
  | o :: t => match closed_at o with None => None | Some a => all_closed_by t (Z.max acc a) end
  end.
Definition server_shutdown_returns (c : cfg) (ps : list phase) : option Z :=
  all_closed_by (map (conn_outcome c) ps) (s_ms c).

(* two ceil-rounded deadlines add at most 2 s when the timeout exceeds ceil_timeout's threshold *)
Definition slack (c : cfg) : Z := if t_ms c <=? 5000 then 0 else 2000.
Definition bound (c : cfg) : Z := s_ms c + 2 * Z.max 0 (t_ms c) + slack c.


(* closed, and the handler completed or cancelled, no later than `bound` *)
Definition bounded (c : cfg) (o : outcome) : Prop :=
  (exists a, closed_at o = Some a /\ a <= bound c) /\
  match handler o with
  | HNone => True
  | HCompleted a => a <= bound c
  | HCancelled a => a <= bound c
  | HStuck => False
  end.

