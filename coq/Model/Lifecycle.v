(* Model of the application lifecycle: aiohttp/web_app.py (Application signals, CleanupContext),
   aiohttp/web_runner.py (BaseRunner.setup/cleanup, AppRunner._make_server/_cleanup_server) and
   aiohttp/web.py (_run_app).  Definitions only; proofs live in Proofs/Lifecycle*.v.

   An application is described by the registration calls made on it, in program order
   (cleanup_ctx.append, on_startup/on_shutdown/on_cleanup.append, add_subapp).  Every user
   callback is a "step" that a failure oracle may tell to raise.  The output is the event log
   the instrumented callbacks of harness/c20.py produce on the real code. *)
From AV Require Import Lib.Base Generated.LifecycleGen.
Open Scope N_scope.

Inductive app := App (regs : list reg)
with reg :=
  | RCtx (c : N)        (* app.cleanup_ctx.append(ctx_c) *)
  | RSu (u : N)         (* app.on_startup.append(h_u) *)
  | RSd (u : N)         (* app.on_shutdown.append(h_u) *)
  | RCl (u : N)         (* app.on_cleanup.append(h_u) *)
  | RSub (a : app).     (* app.add_subapp(prefix, a): one receiver on each of the three signals *)

Inductive step :=
  | SEnter (c : N)      (* code of context c before its yield *)
  | SExit (c : N)       (* code of context c after its yield *)
  | SStartup (u : N) | SShutdown (u : N) | SCleanup (u : N)
  | SSite.              (* site.start() after a successful setup *)

Definition oracle := step -> bool.    (* true = this step raises *)

(* the exception that leaves a call: the one raised by a step, CleanupError for several teardown
   errors, or EModel for a state the model claims unreachable *)
Inductive err := ErrStep (s : step) | ErrMulti | ErrModel.

Inductive event :=
  | EEnter (c : N) (ok : bool)     (* ok = the code before the yield completed *)
  | EExit (c : N) (ok : bool)      (* the code after the yield started (ok = it did not raise) *)
  | ESu (u : N) (ok : bool) | ESd (u : N) (ok : bool) | ECl (u : N) (ok : bool)
  | ESite (ok : bool)
  | EPre                           (* Server.pre_shutdown() called *)
  | ESrv                           (* Server.shutdown(timeout) called *)
  | ESetupRaised (e : err)         (* runner.setup() raised e *)
  | ECleanupRaised (e : err).      (* runner.cleanup() raised e *)

(* run-time state of the CleanupContext objects of an application tree: the recorded `_exits`
   of this application and, in add_subapp order, of its sub-applications.  A missing entry is a
   CleanupContext that recorded nothing (its _on_startup was never reached). *)
Inductive xt := XT (exits : list N) (subs : list xt).

Definition xt_exits (x : xt) : list N := match x with XT e _ => e end.
Definition xt_subs (x : xt) : list xt := match x with XT _ s => s end.
Definition xt_empty : xt := XT [] [].

Definition ctxs_of (regs : list reg) : list N :=
  flat_map (fun r => match r with RCtx c => [c] | _ => [] end) regs.

Definition is_none {A} (o : option A) : bool := match o with None => true | Some _ => false end.

(* ---- CleanupContext._on_startup: enter in order, record on success ---- *)
Fixpoint ctx_startup (f : oracle) (cs : list N) (exits : list N) : list event * list N * option err :=
  match cs with
  | [] => ([], exits, None)
  | c :: t =>
    if f (SEnter c)
    then ([EEnter c false], (if record_after_enter then exits else exits ++ [c]), Some (ErrStep (SEnter c)))
    else let '(l, e, r) := ctx_startup f t (exits ++ [c]) in (EEnter c true :: l, e, r)
  end.

(* ---- CleanupContext._on_cleanup: exit the recorded ones, collecting errors ---- *)
Fixpoint ctx_exit_all (f : oracle) (xs : list N) : list event * list err :=
  match xs with
  | [] => ([], [])
  | c :: t =>
    if f (SExit c)
    then if exit_errors_collected
         then let '(l, es) := ctx_exit_all f t in (EExit c false :: l, ErrStep (SExit c) :: es)
         else ([EExit c false], [ErrStep (SExit c)])
    else let '(l, es) := ctx_exit_all f t in (EExit c true :: l, es)
  end.

Definition ctx_cleanup (f : oracle) (exits : list N) : list event * option err :=
  let '(l, es) := ctx_exit_all f (if exits_reversed then rev exits else exits) in
  (l, match es with [] => None | [e] => Some e | _ => Some ErrMulti end).

(* ---- Signal.send over the receivers of an application: stops at the first exception ----
   The receiver loops are written as separate functions taking the recursive call on
   sub-applications as argument `rec` (so that lemmas can name them). *)

Definition startup_regs (rec : app -> list event * xt * option err) (f : oracle) :=
  fix go (rs : list reg) : list event * list xt * option err :=
    match rs with
    | [] => ([], [], None)
    | RSu u :: t =>
      if f (SStartup u) then ([ESu u false], [], Some (ErrStep (SStartup u)))
      else let '(l, xs, r) := go t in (ESu u true :: l, xs, r)
    | RSub b :: t =>
      let '(lb, xb, rb) := rec b in
      match rb with
      | Some e => (lb, [xb], Some e)
      | None => let '(l, xs, r) := go t in (lb ++ l, xb :: xs, r)
      end
    | _ :: t => go t
    end.

(* on_startup = [ctx._on_startup] ++ user receivers and sub-application receivers in registration order *)
Fixpoint startup_app (f : oracle) (a : app) : list event * xt * option err :=
  match a with
  | App regs =>
    let '(l0, ex, r0) := ctx_startup f (ctxs_of regs) [] in
    match r0 with
    | Some e => (l0, XT ex [], Some e)
    | None => let '(l1, xs, r1) := startup_regs (startup_app f) f regs in (l0 ++ l1, XT ex xs, r1)
    end
  end.

Definition shutdown_regs (rec : app -> list event * option err) (f : oracle) :=
  fix go (rs : list reg) : list event * option err :=
    match rs with
    | [] => ([], None)
    | RSd u :: t =>
      if f (SShutdown u) then ([ESd u false], Some (ErrStep (SShutdown u)))
      else let '(l, r) := go t in (ESd u true :: l, r)
    | RSub b :: t =>
      let '(lb, rb) := rec b in
      match rb with
      | Some e => (lb, Some e)
      | None => let '(l, r) := go t in (lb ++ l, r)
      end
    | _ :: t => go t
    end.

Fixpoint shutdown_app (f : oracle) (a : app) : list event * option err :=
  match a with App regs => shutdown_regs (shutdown_app f) f regs end.

(* errors collected from several steps: none, the single one, or CleanupError *)
Definition collect (es : list err) : option err :=
  match es with [] => None | [e] => Some e | _ => Some ErrMulti end.
Definition opt_list {A} (o : option A) : list A := match o with Some a => [a] | None => [] end.

(* Application.cleanup() with on_cleanup frozen (repaired behaviour, /repo ee73039): EVERY receiver is awaited,
   errors are collected; the receiver of a sub-application calls subapp.cleanup().
   The state of the k-th sub-application is the k-th entry of xs; a missing entry is a CleanupContext that
   never recorded anything. *)
Definition cleanup_regs (rec : app -> xt -> list event * option err) (f : oracle) :=
  fix go (rs : list reg) (xs : list xt) : list event * list err :=
    match rs with
    | [] => ([], [])
    | RCl u :: t =>
      let '(l, es) := go t xs in
      if f (SCleanup u) then (ECl u false :: l, ErrStep (SCleanup u) :: es) else (ECl u true :: l, es)
    | RSub b :: t =>
      let '(lb, rb) := rec b (hd xt_empty xs) in
      let '(l, es) := go t (tl xs) in
      (lb ++ l, opt_list rb ++ es)
    | _ :: t => go t xs
    end.

(* on_cleanup = [ctx._on_cleanup] ++ user receivers and sub-application receivers in registration order *)
Fixpoint cleanup_app (f : oracle) (a : app) (x : xt) : list event * option err :=
  match a with
  | App regs =>
    let '(l0, r0) := ctx_cleanup f (xt_exits x) in
    let '(l1, es) := cleanup_regs (cleanup_app f) f regs (xt_subs x) in
    (l0 ++ l1, collect (opt_list r0 ++ es))
  end.

(* Application._cleanup_started_contexts() (on_cleanup not frozen: start-up failed; /repo 14e69de): this
   application's cleanup context, then recursively the sub-applications' ones (self._subapps, add_subapp order);
   no on_cleanup receiver of the user runs *)
Definition started_regs (rec : app -> xt -> list event * option err) :=
  fix go (rs : list reg) (xs : list xt) : list event * list err :=
    match rs with
    | [] => ([], [])
    | RSub b :: t =>
      let '(lb, rb) := rec b (hd xt_empty xs) in
      let '(l, es) := go t (tl xs) in
      (lb ++ l, opt_list rb ++ es)
    | _ :: t => go t xs
    end.

Fixpoint started_cleanup (f : oracle) (a : app) (x : xt) : list event * option err :=
  match a with
  | App regs =>
    let '(l0, r0) := ctx_cleanup f (xt_exits x) in
    let '(l1, es) := started_regs (started_cleanup f) regs (xt_subs x) in
    (l0 ++ l1, collect (opt_list r0 ++ es))
  end.

(* Application.cleanup() *)
Definition app_cleanup (f : oracle) (a : app) (x : xt) (frozen : bool) : list event * option err :=
  if frozen then cleanup_app f a x else started_cleanup f a x.

(* ---- BaseRunner.cleanup(): the translated phase sequence; phases 1-3 only if setup succeeded;
   chained by try/finally when runner_cleanup_finally (repaired behaviour, /repo 9bf51ac) ---- *)
Definition phase_run (f : oracle) (a : app) (x : xt) (setup_ok : bool) (p : N) : list event * option err :=
  if p =? 1 then ((if setup_ok then [EPre] else []), None)
  else if p =? 2 then (if setup_ok then shutdown_app f a else ([], None))
  else if p =? 3 then ((if setup_ok then [ESrv] else []), None)
  else if p =? 4 then app_cleanup f a x setup_ok
  else ([], Some ErrModel).

Fixpoint run_phases (f : oracle) (a : app) (x : xt) (setup_ok : bool) (ps : list N) : list event * option err :=
  match ps with
  | [] => ([], None)
  | p :: t =>
    let '(l, r) := phase_run f a x setup_ok p in
    match r with
    | Some e =>
      if runner_cleanup_finally
      then (* try/finally: the remaining phases still run; the last exception raised is the one that propagates *)
        let '(l', r') := run_phases f a x setup_ok t in
        (l ++ l', match r' with Some e' => Some e' | None => Some e end)
      else (l, Some e)
    | None => let '(l', r') := run_phases f a x setup_ok t in (l ++ l', r')
    end
  end.

Definition runner_cleanup (f : oracle) (a : app) (x : xt) (setup_ok : bool) : list event * option err :=
  run_phases f a x setup_ok runner_cleanup_seq.

Definition raised_setup (r : option err) : list event := match r with Some e => [ESetupRaised e] | None => [] end.
Definition raised_cleanup (r : option err) : list event := match r with Some e => [ECleanupRaised e] | None => [] end.

Definition site_phase (f : oracle) : list event * option err :=
  if f SSite then ([ESite false], Some (ErrStep SSite)) else ([ESite true], None).

(* ---- entry point 1: AppRunner used as documented: setup(), a site, and cleanup() in any case ---- *)
Definition via_apprunner (f : oracle) (a : app) : list event :=
  let '(l1, x, r1) := startup_app f a in
  let ls := match r1 with None => fst (site_phase f) | Some _ => [] end in
  let '(l2, r2) := runner_cleanup f a x (is_none r1) in
  l1 ++ raised_setup r1 ++ ls ++ l2 ++ raised_cleanup r2.

(* ---- entry point 2: web.run_app -> _run_app: try: setup; sites; sleep forever  finally: cleanup.
   The exception leaving run_app is the last one raised. ---- *)
Definition via_run_app (f : oracle) (a : app) : list event * option err :=
  let '(l1, x, r1) := startup_app f a in
  match r1 with
  | Some e =>
    if run_app_setup_in_try
    then let '(l2, r2) := runner_cleanup f a x false in
         (l1 ++ raised_setup r1 ++ l2 ++ raised_cleanup r2, match r2 with Some e2 => Some e2 | None => Some e end)
    else (l1 ++ raised_setup r1, Some e)
  | None =>
    let '(ls, rs) := site_phase f in
    let '(l2, r2) := runner_cleanup f a x true in
    (l1 ++ ls ++ l2 ++ raised_cleanup r2, match r2 with Some e2 => Some e2 | None => rs end)
  end.

(* ---- projections the theorems talk about ---- *)
Definition entered (l : list event) : list N :=
  flat_map (fun e => match e with EEnter c true => [c] | _ => [] end) l.
Definition exited (l : list event) : list N :=
  flat_map (fun e => match e with EExit c _ => [c] | _ => [] end) l.

(* contexts recorded in a state tree, in start-up order and in clean-up order *)
Fixpoint xt_started (x : xt) : list N :=
  match x with XT e s => e ++ flat_map xt_started s end.
Fixpoint xt_cleanup_order (x : xt) : list N :=
  match x with XT e s => rev e ++ flat_map xt_cleanup_order s end.

Definition flat (a : app) : bool :=
  match a with App regs => forallb (fun r => match r with RSub _ => false | _ => true end) regs end.

(* the property: for every context, its cleanup code ran exactly as often as its startup code completed *)
Definition cleanup_iff_started (l : list event) : Prop :=
  forall c, count_occ N.eq_dec (exited l) c = count_occ N.eq_dec (entered l) c.

Definition no_shutdown_failure (f : oracle) : Prop := forall u, f (SShutdown u) = false.
Definition no_teardown_failure (f : oracle) : Prop :=
  (forall c, f (SExit c) = false) /\ (forall u, f (SCleanup u) = false).

(* failure oracles from a list of failing steps *)
Definition step_eqb (s t : step) : bool :=
  match s, t with
  | SEnter a, SEnter b | SExit a, SExit b | SStartup a, SStartup b | SShutdown a, SShutdown b | SCleanup a, SCleanup b => a =? b
  | SSite, SSite => true
  | _, _ => false
  end.
Definition fails (l : list step) : oracle := fun s => existsb (step_eqb s) l.
