(* C11 — concurrent senders: the lock / shield discipline of WebSocketWriter.send_frame as a labelled transition
   system over the sequential writer of Model/WsCodec.v.  Definitions only.

   Events are what the harness observes on the real writer (wrappers around asyncio.Lock, the compressor object and
   _write_websocket_frame), in the order they happen on the event loop / executor:
     EAcq t     task t entered `async with self._send_lock`
     EComp t o  task t ran compress(+flush) of operation o's payload on the compressor `_get_compressor` returned
     EWrite t   task t wrote the compressed frame (_write_websocket_frame(..., rsv=0x40))
     ERel t     task t left the `async with`
     EPlain o   an uncompressed frame was written (no lock: control frames, data when nothing is negotiated)
   A cancelled sender that never got the lock produces no event; a shielded send runs to completion in its own task.
   The system accepts every interleaving of ENABLED events — a superset of what asyncio's FIFO loop produces. *)
From AV Require Import Lib.Base Generated.WsGen Generated.WsCodecGen Model.Ws Model.WsCodec.
Open Scope N_scope.

Inductive hold :=
| HIdle                                     (* lock held, nothing compressed and unwritten *)
| HComp (o : sop) (w : bytes) (n : N).      (* context advanced by o, frame w (payload length n) not yet written *)

Inductive cev :=
| EAcq (t : N) | EComp (t : N) (o : sop) | EWrite (t : N) | ERel (t : N) | EPlain (o : sop).

Definition is_send (o : sop) : bool := match o with Send _ _ _ _ => true | Close _ _ _ => false end.

Section Send.
Variable Cc : Type.
Variable cinit : N -> Cc.
Variable comp : bool -> Cc -> bytes -> bytes * Cc.
Variable wc : wcfg.

Record cstate := mkc {
  c_lock : option (N * hold);     (* holder of _send_lock and what it has done *)
  c_w : wstate Cc;                (* _compressobj, _closing *)
  c_wire : bytes;                 (* transport bytes *)
  c_order : list (sop * N)        (* accepted operations in wire order (with wire payload length) *)
}.

Definition cinit_state : cstate := mkc None (wstate0 Cc) [] [].

Definition op_plainb (o : sop) : bool :=
  match o with Send opcode _ override _ => send_plain override (w_compress wc) opcode | Close _ _ _ => true end.

Definition cstep (st : cstate) (e : cev) : option cstate :=
  match e with
  | EAcq t =>
    match c_lock st with
    | None => Some (mkc (Some (t, HIdle)) (c_w st) (c_wire st) (c_order st))
    | Some _ => None
    end
  | EComp t o =>
    match c_lock st with
    | Some (t', HIdle) =>
      if (t' =? t) && is_send o && negb (op_plainb o) then
        match do_op Cc cinit comp wc (c_w st) o with
        | SSent w n _ st' => Some (mkc (Some (t, HComp o w n)) st' (c_wire st) (c_order st))
        | _ => None
        end
      else None
    | _ => None
    end
  | EWrite t =>
    match c_lock st with
    | Some (t', HComp o w n) =>
      if t' =? t then Some (mkc (Some (t, HIdle)) (c_w st) (c_wire st ++ w) (c_order st ++ [(o, n)])) else None
    | _ => None
    end
  | ERel t =>
    match c_lock st with
    | Some (t', HIdle) => if t' =? t then Some (mkc None (c_w st) (c_wire st) (c_order st)) else None
    | _ => None
    end
  | EPlain o =>
    if is_send o && op_plainb o then
      match do_op Cc cinit comp wc (c_w st) o with
      | SSent w n _ st' => Some (mkc (c_lock st) st' (c_wire st ++ w) (c_order st ++ [(o, n)]))
      | _ => None
      end
    else None
  end.

Fixpoint crun (st : cstate) (evs : list cev) : option cstate :=
  match evs with
  | [] => Some st
  | e :: r => match cstep st e with Some st' => crun st' r | None => None end
  end.

(* index of the first event that is not enabled (for the harness) *)
Fixpoint crun_trace (st : cstate) (evs : list cev) (i : N) : cstate * option N :=
  match evs with
  | [] => (st, None)
  | e :: r => match cstep st e with Some st' => crun_trace st' r (i + 1) | None => (st, Some i) end
  end.

End Send.

Arguments mkc {Cc}. Arguments c_lock {Cc}. Arguments c_w {Cc}. Arguments c_wire {Cc}. Arguments c_order {Cc}.

Definition toy_crun_trace (wc : wcfg) (evs : list cev) := crun_trace toyc toy_cinit toy_comp wc (cinit_state toyc) evs 0.
