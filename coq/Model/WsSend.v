(* C11 — concurrent senders: the lock / shield discipline of WebSocketWriter.send_frame as a labelled transition
   system over the sequential writer of Model/WsCodec.v.  Definitions only.

   Events are what the harness observes on the real writer (wrappers around asyncio.Lock, the compressor object and
   _write_websocket_frame), in the order they happen on the event loop / executor:
     EAcq t     task t entered `async with self._send_lock`
     EComp t o  task t ran compress(+flush) of operation o's payload on the compressor `_get_compressor` returned
     EWrite t   task t wrote the compressed frame (_write_websocket_frame(..., rsv=0x40))
     ERel t     task t left the `async with`
     EPlain o   an uncompressed frame was written (no lock: control frames, data when nothing is negotiated)
   A cancelled sender that never got the lock produces no event; a shielded send runs to completion in its own task.
   The system accepts every interleaving of ENABLED events — a superset of what asyncio's FIFO loop produces. *)
From AV Require Import Lib.Base Generated.WsGen Generated.WsCodecGen Model.Ws Model.WsCodec.
Open Scope N_scope.

Inductive hold :=
| HIdle                                     (* lock held, nothing compressed and unwritten *)
| HComp (o : sop) (w : bytes) (n : N).      (* context advanced by o, frame w (payload length n) not yet written *)

Inductive cev :=
| EAcq (t : N) | EComp (t : N) (o : sop) | EWrite (t : N) | ERel (t : N) | EPlain (o : sop).

Definition is_send (o : sop) : bool := match o with Send _ _ _ _ => true | Close _ _ _ => false end.

Section Send.
Variable Cc : Type.
Variable cinit : N -> Cc.
Variable comp : bool -> Cc -> bytes -> bytes * Cc.
Variable wc : wcfg.

Record cstate := mkc {
  c_lock : option (N * hold);     (* holder of _send_lock and what it has done *)
  c_w : wstate Cc;                (* _compressobj, _closing *)
  c_wire : bytes;                 (* transport bytes *)
  c_order : list (sop * N)        (* accepted operations in wire order (with wire payload length) *)
}.

Definition cinit_state : cstate := mkc None (wstate0 Cc) [] [].

Definition op_plainb (o : sop) : bool :=
  match o with Send opcode _ override _ => send_plain override (w_compress wc) opcode | Close _ _ _ => true end.

Definition cstep (st : cstate) (e : cev) : option cstate :=
  match e with
  | EAcq t =>
    match c_lock st with
    | None => Some (mkc (Some (t, HIdle)) (c_w st) (c_wire st) (c_order st))
    | Some _ => None
    end
  | EComp t o =>
    match c_lock st with
    | Some (t', HIdle) =>
      if (t' =? t) && is_send o && negb (op_plainb o) then
        match do_op Cc cinit comp wc (c_w st) o with
        | SSent w n _ st' => Some (mkc (Some (t, HComp o w n)) st' (c_wire st) (c_order st))
        | _ => None
        end
      else None
    | _ => None
    end
  | EWrite t =>
    match c_lock st with
    | Some (t', HComp o w n) =>
      if t' =? t then Some (mkc (Some (t, HIdle)) (c_w st) (c_wire st ++ w) (c_order st ++ [(o, n)])) else None
    | _ => None
    end
  | ERel t =>
    match c_lock st with
    | Some (t', HIdle) => if t' =? t then Some (mkc None (c_w st) (c_wire st) (c_order st)) else None
    | _ => None
    end
  | EPlain o =>
    if is_send o && op_plainb o then
      match do_op Cc cinit comp wc (c_w st) o with
      | SSent w n _ st' => Some (mkc (c_lock st) st' (c_wire st ++ w) (c_order st ++ [(o, n)]))
      | _ => None
      end
    else None
  end.

Fixpoint crun (st : cstate) (evs : list cev) : option cstate :=
  match evs with
  | [] => Some st
  | e :: r => match cstep st e with Some st' => crun st' r | None => None end
  end.

(* index of the first event that is not enabled (for the harness) *)
Fixpoint crun_trace (st : cstate) (evs : list cev) (i : N) : cstate * option N :=
  match evs with
  | [] => (st, None)
  | e :: r => match cstep st e with Some st' => crun_trace st' r (i + 1) | None => (st, Some i) end
  end.


(* ---- submission order: asyncio.Lock is FIFO, and send_frame asks for the lock BEFORE it returns control -----------
   FEnq t o : send_frame(o) was called for a compressed operation and task t (the sender itself on the in-loop path,
              the eagerly started shielded task on the executor path) queued for _send_lock — one event, because the
              lock request happens inside the call, before any other send_frame can be called;
   FEv e    : the events above; EAcq t is only enabled for the head of the queue (fair lock), EComp t o only for the
              operation t queued with, ERel t only once that operation's frame is written.
   A waiter that is cancelled before it gets the lock leaves the queue as if it had never been submitted (the harness
   drops its FEnq). *)
Inductive fev := FEnq (t : N) (o : sop) | FEv (e : cev).

Definition sop_eqb (a b : sop) : bool :=
  match a, b with
  | Send o1 p1 v1 r1, Send o2 p2 v2 r2 => (o1 =? o2) && list_eqb p1 p2 && (v1 =? v2) && (r1 =? r2)
  | Close c1 p1 r1, Close c2 p2 r2 => (c1 =? c2) && list_eqb p1 p2 && (r1 =? r2)
  | _, _ => false
  end.

Definition is_comp_op (o : sop) : bool := is_send o && negb (op_plainb o).

Record fstate := mkf {
  f_c : cstate;
  f_q : list (N * sop);        (* waiters of _send_lock, head first, with the operation they will send *)
  f_cur : option sop;          (* operation of the lock holder, until its frame is written *)
  f_sub : list sop             (* compressed operations in the order send_frame was called *)
}.

Definition finit_state : fstate := mkf cinit_state [] None [].

Definition with_c (st : fstate) (cur : option sop) (r : option cstate) : option fstate :=
  match r with Some c' => Some (mkf c' (f_q st) cur (f_sub st)) | None => None end.

Definition fstep (st : fstate) (e : fev) : option fstate :=
  match e with
  | FEnq t o =>
    if is_comp_op o then Some (mkf (f_c st) (f_q st ++ [(t, o)]) (f_cur st) (f_sub st ++ [o])) else None
  | FEv (EAcq t) =>
    match f_q st, f_cur st with
    | (t', o) :: q', None =>
      if t' =? t then
        match cstep (f_c st) (EAcq t) with
        | Some c' => Some (mkf c' q' (Some o) (f_sub st))
        | None => None
        end
      else None
    | _, _ => None
    end
  | FEv (EComp t o) =>
    match f_cur st with
    | Some o' => if sop_eqb o o' then with_c st (f_cur st) (cstep (f_c st) (EComp t o)) else None
    | None => None
    end
  | FEv (EWrite t) => with_c st None (cstep (f_c st) (EWrite t))
  | FEv (ERel t) =>
    match f_cur st with
    | None => with_c st None (cstep (f_c st) (ERel t))
    | Some _ => None
    end
  | FEv (EPlain o) => with_c st (f_cur st) (cstep (f_c st) (EPlain o))
  end.

Fixpoint frun (st : fstate) (evs : list fev) : option fstate :=
  match evs with
  | [] => Some st
  | e :: r => match fstep st e with Some st' => frun st' r | None => None end
  end.

Fixpoint frun_trace (st : fstate) (evs : list fev) (i : N) : fstate * option N :=
  match evs with
  | [] => (st, None)
  | e :: r => match fstep st e with Some st' => frun_trace st' r (i + 1) | None => (st, Some i) end
  end.

(* compressed operations on the wire, in wire order *)
Definition comp_ops (order : list (sop * N)) : list sop := filter is_comp_op (map fst order).

End Send.

Arguments mkc {Cc}. Arguments c_lock {Cc}. Arguments c_w {Cc}. Arguments c_wire {Cc}. Arguments c_order {Cc}.
Arguments mkf {Cc}. Arguments f_c {Cc}. Arguments f_q {Cc}. Arguments f_cur {Cc}. Arguments f_sub {Cc}.

Definition toy_crun_trace (wc : wcfg) (evs : list cev) := crun_trace toyc toy_cinit toy_comp wc (cinit_state toyc) evs 0.
Definition toy_frun_trace (wc : wcfg) (evs : list fev) := frun_trace toyc toy_cinit toy_comp wc (finit_state toyc) evs 0.
