(* Model of aiohttp/http_writer.py: header serialisation and the StreamWriter state machine.
   Definitions only (proofs live in Proofs/). *)
From AV Require Import Lib.Base Lib.Utf8 Lib.BytesX Generated.WriterGen.
Open Scope N_scope.

(* ---- _safe_header / _py_serialize_headers ---- *)

Definition safe_header (s : str) : bool := negb (existsb forbidden_header_char s).

Definition kv_sep : str := [58; 32].      (* ": " *)
Definition header_line (kv : str * str) : str := fst kv ++ kv_sep ++ snd kv.

Fixpoint join (sep : list N) (ls : list (list N)) : list N :=
  match ls with
  | [] => []
  | l :: ls' => match ls' with [] => l | _ => l ++ sep ++ join sep ls' end
  end.

Definition headers_safe (hs : list (str * str)) : bool :=
  forallb (fun kv => safe_header (fst kv) && safe_header (snd kv)) hs.

(* None = ValueError / UnicodeEncodeError raised before anything is returned (nothing written) *)
Definition serialize_headers (sl : str) (hs : list (str * str)) : option bytes :=
  if safe_header sl && headers_safe hs
  then utf8_encode (sl ++ CRLF ++ join CRLF (map header_line hs) ++ CRLF ++ CRLF)
  else None.

(* StreamResponse._set_status: reason check; ClientRequest method check *)
Definition reason_ok (r : str) : bool := negb (existsb (fun c => memN c reason_forbidden_chars) r).
Definition method_ok (m : str) : bool := negb (existsb method_nontoken_char m).

(* splitting a byte string at every CRLF (what any HTTP line reader does) *)
Fixpoint split_crlf_aux (cur : bytes) (s : bytes) : list bytes :=
  match s with
  | [] => [rev cur]
  | c :: s' =>
    match s' with
    | d :: s'' => if (c =? 13) && (d =? 10) then rev cur :: split_crlf_aux [] s''
                  else split_crlf_aux (c :: cur) s'
    | [] => [rev (c :: cur)]
    end
  end.
Definition split_crlf (s : bytes) : list bytes := split_crlf_aux [] s.

(* ====================================================================================
   StreamWriter (http_writer.py): write_headers / send_headers / write / write_eof / set_eof,
   enable_chunking, length.  No compression here (compression is the abstract codec of C09).
   Output = the concatenation of what reaches transport.write. *)

Record wstate := mkW {
  w_length : option N;        (* self.length *)
  w_chunked : bool;
  w_hbuf : option bytes;      (* self._headers_buf *)
  w_hwritten : bool;          (* self._headers_written *)
  w_eof : bool }.

Definition winit : wstate := mkW None false None false false.

Inductive wop :=
| WHeaders (buf : bytes)      (* write_headers with an already serialised head *)
| WSendHeaders
| WWrite (d : bytes)
| WEof (d : bytes)            (* write_eof(chunk) *)
| WSetEof
| WEnableChunking
| WSetLength (n : option N).

Definition truthy (b : option bytes) : bool := match b with Some (_ :: _) => true | _ => false end.
Definition hb (b : option bytes) : bytes := match b with Some x => x | None => [] end.

Definition chunk_enc (d : bytes) : bytes := to_hex (lenN d) ++ CRLF ++ d ++ CRLF.
Definition last_chunk : bytes := [48; 13; 10; 13; 10].   (* "0\r\n\r\n" *)

(* _send_headers_with_payload(chunk, is_eof) *)
Definition send_headers_with_payload (s : wstate) (chunk : bytes) (is_eof : bool) : wstate * bytes :=
  let s' := mkW (w_length s) (w_chunked s) None true (w_eof s) in
  let h := hb (w_hbuf s) in
  if negb (w_chunked s) then (s', h ++ chunk)
  else match chunk with
       | _ :: _ => (s', h ++ to_hex (lenN chunk) ++ CRLF ++ chunk ++ CRLF ++ (if is_eof then last_chunk else []))
       | [] => (s', h ++ (if is_eof then last_chunk else []))
       end.

Definition set_eofb (s : wstate) (b : bool) : wstate :=
  mkW (w_length s) (w_chunked s) (w_hbuf s) (w_hwritten s) b.

Definition wstep (s : wstate) (op : wop) : wstate * bytes :=
  match op with
  | WHeaders buf => (mkW (w_length s) (w_chunked s) (Some buf) false (w_eof s), [])
  | WSendHeaders =>
    if negb (truthy (w_hbuf s)) || w_hwritten s then (s, [])
    else (mkW (w_length s) (w_chunked s) None true (w_eof s), hb (w_hbuf s))
  | WEnableChunking => (mkW (w_length s) true (w_hbuf s) (w_hwritten s) (w_eof s), [])
  | WSetLength n => (mkW n (w_chunked s) (w_hbuf s) (w_hwritten s) (w_eof s), [])
  | WWrite d =>
    (* the declared length truncates what is written *)
    let '(len', chunk, stop) :=
      match w_length s with
      | None => (None, d, false)
      | Some l => if lenN d <=? l then (Some (l - lenN d), d, false)
                  else let c := fst (takeN l d) in (Some 0, c, match c with [] => true | _ => false end)
      end in
    let s1 := mkW len' (w_chunked s) (w_hbuf s) (w_hwritten s) (w_eof s) in
    if stop then (s1, [])
    else if truthy (w_hbuf s1) && negb (w_hwritten s1) then send_headers_with_payload s1 chunk false
    else match chunk with
         | [] => (s1, [])
         | _ :: _ => if w_chunked s1 then (s1, chunk_enc chunk) else (s1, chunk)
         end
  | WEof d =>
    if w_eof s then (s, [])
    else if truthy (w_hbuf s) && negb (w_hwritten s) then
      let '(s', out) := send_headers_with_payload s d true in (set_eofb s' true, out)
    else if w_chunked s then
      (set_eofb s true, match d with [] => last_chunk | _ => to_hex (lenN d) ++ CRLF ++ d ++ CRLF ++ last_chunk end)
    else (set_eofb s true, d)
  | WSetEof =>
    if w_eof s then (s, [])
    else if truthy (w_hbuf s) && negb (w_hwritten s) then
      (mkW (w_length s) (w_chunked s) None true true,
       hb (w_hbuf s) ++ (if w_chunked s then last_chunk else []))
    else if w_chunked s && w_hwritten s then (set_eofb s true, last_chunk)
    else (set_eofb s true, [])
  end.

Fixpoint wrun (s : wstate) (ops : list wop) : wstate * bytes :=
  match ops with
  | [] => (s, [])
  | op :: ops' => let '(s1, o1) := wstep s op in let '(s2, o2) := wrun s1 ops' in (s2, o1 ++ o2)
  end.

(* data handed to write()/write_eof() by an op sequence, as truncated by the declared length *)
Definition op_data (op : wop) : bytes :=
  match op with WWrite d | WEof d => d | _ => [] end.
