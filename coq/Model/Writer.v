(* Model of aiohttp/http_writer.py: header serialisation and the StreamWriter state machine.
   Definitions only (proofs live in Proofs/). *)
From AV Require Import Lib.Base Lib.Utf8 Generated.WriterGen.
Open Scope N_scope.

(* ---- _safe_header / _py_serialize_headers ---- *)

Definition safe_header (s : str) : bool := negb (existsb forbidden_header_char s).

Definition kv_sep : str := [58; 32].      (* ": " *)
Definition header_line (kv : str * str) : str := fst kv ++ kv_sep ++ snd kv.

Fixpoint join (sep : list N) (ls : list (list N)) : list N :=
  match ls with
  | [] => []
  | l :: ls' => match ls' with [] => l | _ => l ++ sep ++ join sep ls' end
  end.

Definition headers_safe (hs : list (str * str)) : bool :=
  forallb (fun kv => safe_header (fst kv) && safe_header (snd kv)) hs.

(* None = ValueError / UnicodeEncodeError raised before anything is returned (nothing written) *)
Definition serialize_headers (sl : str) (hs : list (str * str)) : option bytes :=
  if safe_header sl && headers_safe hs
  then utf8_encode (sl ++ CRLF ++ join CRLF (map header_line hs) ++ CRLF ++ CRLF)
  else None.

(* StreamResponse._set_status: reason check; ClientRequest method check *)
Definition reason_ok (r : str) : bool := negb (existsb (fun c => memN c reason_forbidden_chars) r).
Definition method_ok (m : str) : bool := negb (existsb method_nontoken_char m).

(* splitting a byte string at every CRLF (what any HTTP line reader does) *)
Fixpoint split_crlf_aux (cur : bytes) (s : bytes) : list bytes :=
  match s with
  | [] => [rev cur]
  | c :: s' =>
    match s' with
    | d :: s'' => if (c =? 13) && (d =? 10) then rev cur :: split_crlf_aux [] s''
                  else split_crlf_aux (c :: cur) s'
    | [] => [rev (c :: cur)]
    end
  end.
Definition split_crlf (s : bytes) : list bytes := split_crlf_aux [] s.
