(* Specification-level multipart splitter (RFC 2046 reading of what MultipartWriter.write produces, without
   preamble): the body is dash-boundary, then for every part CRLF block CRLF dash-boundary, then "--" CRLF;
   a block is the part's header block followed by its content.  Definitions only. *)
From AV Require Import Lib.Base Generated.MultipartGen Model.Multipart.
Open Scope N_scope.

(* (bytes before the first occurrence of sub, bytes after it) *)
Fixpoint split_at (sub w : bytes) : option (bytes * bytes) :=
  if starts_with sub w then Some ([], dropb (lenN sub) w)
  else match w with
       | [] => None
       | c :: w' => match split_at sub w' with Some (a, r) => Some (c :: a, r) | None => None end
       end.

Definition dash_boundary (b : bytes) : bytes := frame_open ++ b.
Definition spec_delim (b : bytes) : bytes := frame_part_end ++ dash_boundary b.     (* CRLF "--" boundary *)

Fixpoint spec_blocks (n : nat) (d w : bytes) : option (list bytes) :=
  match n with
  | O => None
  | S n' =>
    if list_eqb w frame_close_end then Some []
    else if starts_with frame_open_end w then
      match split_at d (dropb (lenN frame_open_end) w) with
      | Some (blk, rest) => match spec_blocks n' d rest with Some l => Some (blk :: l) | None => None end
      | None => None
      end
    else None
  end.

Definition spec_decode (b w : bytes) : option (list bytes) :=
  if starts_with (dash_boundary b) w
  then spec_blocks (S (length w)) (spec_delim b) (dropb (lenN (dash_boundary b)) w)
  else None.

Definition block (p : wpart) : bytes := wp_headers p ++ wp_body p.

(* the delimiter occurs neither inside a block nor across its end *)
Definition block_clean (b : bytes) (p : wpart) : bool :=
  negb (contains (spec_delim b) (block p ++ removelast (spec_delim b))).
