(* C18 — executable model of the client request life cycle under timeouts and cancellation
   (definitions only).

   Several requests ("tasks") of one ClientSession talk to one origin: they share the connection
   pool (limit) and the DNS lookup.  Time is an integer number of ticks of 1/u second.  One atomic
   step = one external stimulus followed by everything the event loop does until nothing is ready
   (the granularity at which the harness observes the implementation):

     EAdv d        d ticks pass; not enabled when an armed timer would be overtaken (timers are urgent)
     EStart t c    ClientSession._request: arm the total timer; connector.connect(): reuse an idle
                   connection, or arm the connect timer and queue for a slot / start resolving
     EDns          the shared, shielded lookup answers: every request waiting for it starts connecting
     EConn t       t's socket connects: the placeholder becomes a connection, the request is sent
     EWritten t    the peer has taken the request body: the writer task ends, sock_read starts
     EData t k     response bytes arrive (inside a line/chunk, the rest of the head, a block larger than
                   the read buffer, the rest of the body)
     ERead t       the caller starts `await resp.read()`
     ECancel t     the caller's task is cancelled at the await it is suspended on
     EFire t w     timer w of request t fires (enabled when its deadline has been reached)

   The rounding formulas and the guards that decide whether a timer exists come from
   Generated/TimeoutsGen.v (helpers.TimeoutHandle.start, helpers.ceil_timeout,
   ResponseHandler._reschedule_timeout, ClientTimeout.__post_init__); the capacity test comes from
   Generated/PoolGen.v (BaseConnector._available_connections and its call-site comparisons). *)
From AV Require Import Lib.Base Generated.TimeoutsGen.
Open Scope Z_scope.

Definition task := N.
Definition conn := N.

(* per-request ClientTimeout (ticks; None = not configured) and whether the peer stops reading the
   request body (the writer task then stays alive until EWritten) *)
Record tcfg := mkCfg {
  c_total : option Z; c_connect : option Z; c_sock_connect : option Z; c_sock_read : option Z;
  c_thr : Z; c_block : bool }.

Record gcfg := mkG { u : Z; limit : Z }.

Inductive failure := FTotal | FConnect | FSockConnect | FSockRead | FCancelled.
Inductive rpos := RHead | RBody (big : bool) | REnd.
Inductive dns_state := DNone | DInflight | DCached.

Inductive pc :=
| PIdle                        (* not started *)
| PWaitSlot                    (* in BaseConnector._wait_for_available_connection *)
| PResolve                     (* placeholder held; awaiting the shared DNS lookup *)
| PConnect                     (* placeholder held; in _wrap_create_connection *)
| PHeaders                     (* connection held, request sent or being sent; awaiting the response head *)
| PBody (reading : bool)       (* _request returned; the caller is / is not awaiting resp.read() *)
| PRecv                        (* the whole response arrived while the caller was not reading: the connection
                                  has been released already, the body waits in the buffer for the caller *)
| PDone                        (* response complete, connection released *)
| PFailed (f : failure) (at_ : Z).

Record timers := mkTm { d_total : option Z; d_conn : option Z; d_sock : option Z; d_read : option Z }.

Record tstate := mkT {
  cfg : tcfg;
  pcs : pc;
  tm : timers;                 (* armed deadlines *)
  started : Z;                 (* ghost: when _request started (total and connect timers count from here) *)
  sock_started : Z;            (* ghost: when the socket connect attempt started *)
  last_io : Z;                 (* ghost: when the sock_read timer was last (re)armed *)
  conn_of : option conn;       (* the connection the request was given *)
  writer : bool;               (* the request-body writer task is alive *)
  paused : bool;               (* reading is paused: the read buffer is above its high-water mark *)
  latched : option failure;    (* a timer fired while the caller was not awaiting: raised by the next read *)
  rp : rpos }.

Definition no_timers : timers := mkTm None None None None.
Definition no_cfg : tcfg := mkCfg None None None None 0 false.
Definition idle_ts : tstate := mkT no_cfg PIdle no_timers 0 0 0 None false false None RHead.

Record state := mkS {
  now : Z;
  tasks : task -> tstate;
  ids : list task;             (* started requests, in start order *)
  acq : list task;             (* requests counted in connector._acquired (placeholder or connection) *)
  waiters : list task;         (* connector._waiters, FIFO *)
  idle : list conn;            (* pooled idle connections, FIFO *)
  closedc : list conn;         (* connections whose transport has been closed *)
  nconn : N;                   (* connections created so far: 0 .. nconn-1 *)
  dns : dns_state }.

Definition init : state := mkS 0 (fun _ => idle_ts) [] [] [] [] [] 0%N DNone.

Inductive dkind := KPart | KHead | KBig | KEnd.
Inductive timer := TTotal | TConn | TSock | TRead.

Inductive event :=
| EAdv (d : Z)
| EStart (t : task) (c : tcfg)
| EDns
| EConn (t : task)
| EWritten (t : task)
| EData (t : task) (k : dkind)
| ERead (t : task)
| ECancel (t : task)
| EFire (t : task) (w : timer).

(* ---- timers ------------------------------------------------------------------------------- *)

Definition eff_total (c : tcfg) : option Z :=
  effective_total (c_total c) (c_connect c) (c_sock_read c) (c_sock_connect c).

Definition arm_total (g : gcfg) (c : tcfg) (nw : Z) : option Z :=
  match eff_total c with
  | Some t => if total_enabled (Some t) then Some (total_when (u g) nw t (c_thr c)) else None
  | None => None
  end.

Definition arm_ctx (g : gcfg) (o : option Z) (thr nw : Z) : option Z :=
  match o with
  | Some t => if ctx_enabled (Some t) then Some (ctx_when (u g) nw t thr) else None
  | None => None
  end.

Definition arm_read (c : tcfg) (nw : Z) : option Z :=
  match c_sock_read c with
  | Some t => if read_enabled (Some t) then Some (read_when nw t) else None
  | None => None
  end.

Definition deadline (ts : tstate) (w : timer) : option Z :=
  match w with
  | TTotal => d_total (tm ts) | TConn => d_conn (tm ts)
  | TSock => d_sock (tm ts) | TRead => d_read (tm ts)
  end.

Definition le_opt (x : Z) (o : option Z) : bool :=
  match o with Some d => x <=? d | None => true end.

Definition timers_ok (x : Z) (ts : tstate) : bool :=
  le_opt x (d_total (tm ts)) && le_opt x (d_conn (tm ts)) &&
  le_opt x (d_sock (tm ts)) && le_opt x (d_read (tm ts)).

(* ---- field updates ------------------------------------------------------------------------ *)

Definition set_tm (ts : tstate) (m : timers) : tstate :=
  mkT (cfg ts) (pcs ts) m (started ts) (sock_started ts) (last_io ts) (conn_of ts) (writer ts)
      (paused ts) (latched ts) (rp ts).
Definition set_pc (ts : tstate) (p : pc) : tstate :=
  mkT (cfg ts) p (tm ts) (started ts) (sock_started ts) (last_io ts) (conn_of ts) (writer ts)
      (paused ts) (latched ts) (rp ts).
Definition set_latched (ts : tstate) (l : option failure) : tstate :=
  mkT (cfg ts) (pcs ts) (tm ts) (started ts) (sock_started ts) (last_io ts) (conn_of ts) (writer ts)
      (paused ts) l (rp ts).

Definition tm_total (m : timers) (d : option Z) := mkTm d (d_conn m) (d_sock m) (d_read m).
Definition tm_read (m : timers) (d : option Z) := mkTm (d_total m) (d_conn m) (d_sock m) d.

(* (re)arm the sock_read timer at nw *)
Definition rearm_read (ts : tstate) (nw : Z) : tstate :=
  mkT (cfg ts) (pcs ts) (tm_read (tm ts) (arm_read (cfg ts) nw)) (started ts) (sock_started ts) nw
      (conn_of ts) (writer ts) (paused ts) (latched ts) (rp ts).

(* start the socket connect attempt: _wrap_create_connection enters ceil_timeout(sock_connect) *)
Definition to_connect (g : gcfg) (ts : tstate) (nw : Z) : tstate :=
  mkT (cfg ts) PConnect
      (mkTm (d_total (tm ts)) (d_conn (tm ts)) (arm_ctx g (c_sock_connect (cfg ts)) (c_thr (cfg ts)) nw) None)
      (started ts) nw (last_io ts) (conn_of ts) (writer ts) (paused ts) (latched ts) (rp ts).

(* the request owns connection c: leave the connect timeouts, send the request.  A body the peer does
   not read keeps the writer task alive (sock_read is armed only by start_timeout(), after the body) *)
Definition to_headers (ts : tstate) (c : conn) (nw : Z) : tstate :=
  if c_block (cfg ts)
  then mkT (cfg ts) PHeaders (mkTm (d_total (tm ts)) None None None) (started ts) (sock_started ts)
           nw (Some c) true false None RHead
  else mkT (cfg ts) PHeaders (mkTm (d_total (tm ts)) None None (arm_read (cfg ts) nw)) (started ts)
           (sock_started ts) nw (Some c) false false None RHead.

Definition failed (ts : tstate) (f : failure) (nw : Z) : tstate :=
  mkT (cfg ts) (PFailed f nw) no_timers (started ts) (sock_started ts) (last_io ts) (conn_of ts) false
      false None (rp ts).

Definition upd (f : task -> tstate) (t : task) (v : tstate) : task -> tstate :=
  fun t' => if (t' =? t)%N then v else f t'.

Definition set_tasks (s : state) (f : task -> tstate) : state :=
  mkS (now s) f (ids s) (acq s) (waiters s) (idle s) (closedc s) (nconn s) (dns s).
Definition set_task (s : state) (t : task) (v : tstate) : state := set_tasks s (upd (tasks s) t v).

Definition remove_t (t : task) (l : list task) : list task := filter (fun x => negb (x =? t)%N) l.

(* ---- the pool ----------------------------------------------------------------------------- *)

Definition avail (g : gcfg) (s : state) : Z :=
  available_connections (limit g) 0 (Z.of_nat (length (acq s))) 0.

(* request t (not holding anything) takes a slot: an idle connection if there is one (_get), otherwise
   a placeholder, and then needs the address: cached -> connect; lookup in flight -> wait for it;
   otherwise start the (shielded) lookup *)
Definition acquire (g : gcfg) (s : state) (t : task) : state :=
  let ts := tasks s t in
  match idle s with
  | c :: rest =>
      mkS (now s) (upd (tasks s) t (to_headers ts c (now s))) (ids s) (t :: acq s) (waiters s) rest
          (closedc s) (nconn s) (dns s)
  | [] =>
      match dns s with
      | DCached =>
          mkS (now s) (upd (tasks s) t (to_connect g ts (now s))) (ids s) (t :: acq s) (waiters s) []
              (closedc s) (nconn s) DCached
      | _ =>
          mkS (now s) (upd (tasks s) t (set_pc ts PResolve)) (ids s) (t :: acq s) (waiters s) []
              (closedc s) (nconn s) DInflight
      end
  end.

(* BaseConnector._release_waiter after a slot was given back: the first queued request resumes *)
Definition wake (g : gcfg) (s : state) : state :=
  match waiters s with
  | w :: ws =>
      if release_skips_key (avail g s) then s
      else acquire g (mkS (now s) (tasks s) (ids s) (acq s) ws (idle s) (closedc s) (nconn s) (dns s)) w
  | [] => s
  end.

Definition add_closed (c : conn) (l : list conn) : list conn := if memN c l then l else c :: l.

Definition close_conn_of (ts : tstate) (l : list conn) : list conn :=
  match conn_of ts with Some c => add_closed c l | None => l end.

(* request t ends (state ts'): its slot / queue entry is given back *)
Definition give_back (s : state) (t : task) (ts' : tstate) (idle' closed' : list conn) : state :=
  mkS (now s) (upd (tasks s) t ts') (ids s) (remove_t t (acq s)) (remove_t t (waiters s)) idle' closed'
      (nconn s) (dns s).

Definition holds_slot (p : pc) : bool :=
  match p with PResolve | PConnect | PHeaders | PBody _ => true | _ => false end.

Definition has_conn (p : pc) : bool :=
  match p with PHeaders | PBody _ => true | _ => false end.

(* the request fails with f now: timers dropped, writer cancelled, connection closed (never released),
   slot / queue entry given back, next waiter woken *)
Definition fail (g : gcfg) (s : state) (t : task) (f : failure) : state :=
  let ts := tasks s t in
  let s1 := give_back s t (failed ts f (now s)) (idle s) (close_conn_of ts (closedc s)) in
  if holds_slot (pcs ts) then wake g s1 else s1.

Definition live (p : pc) : bool :=
  match p with PWaitSlot | PResolve | PConnect | PHeaders | PBody _ => true | _ => false end.

(* the caller's task is suspended inside aiohttp (inside the TimerContext) *)
Definition awaiting (p : pc) : bool :=
  match p with PWaitSlot | PResolve | PConnect | PHeaders | PBody true => true | _ => false end.

Definition connecting (p : pc) : bool :=
  match p with PWaitSlot | PResolve | PConnect => true | _ => false end.

(* the caller's task has not finished yet *)
Definition pending (p : pc) : bool := live p || match p with PRecv => true | _ => false end.

(* ---- per-request effects of the stimuli ----------------------------------------------------- *)

Definition start_ts (g : gcfg) (c : tcfg) (nw : Z) : tstate :=
  mkT c PIdle (mkTm (arm_total g c nw) None None None) nw 0 0 None false false None RHead.

(* BaseConnector.connect past the first _get: inside ceil_timeout(connect) *)
Definition enter_connect (g : gcfg) (ts : tstate) (nw : Z) : tstate :=
  set_tm ts (mkTm (d_total (tm ts)) (arm_ctx g (c_connect (cfg ts)) (c_thr (cfg ts)) nw) None None).

(* the writer task finished: protocol.start_timeout() *)
Definition written_ts (ts : tstate) (nw : Z) : tstate :=
  mkT (cfg ts) (pcs ts) (tm_read (tm ts) (arm_read (cfg ts) nw)) (started ts) (sock_started ts) nw
      (conn_of ts) false (paused ts) (latched ts) (rp ts).

(* the response head is complete: _request returns *)
Definition head_ts (ts : tstate) (nw : Z) : tstate :=
  mkT (cfg ts) (PBody false) (tm_read (tm ts) (arm_read (cfg ts) nw)) (started ts) (sock_started ts) nw
      (conn_of ts) (writer ts) false (latched ts) (RBody false).

(* a block larger than the read buffer arrives while the caller reads: pause and resume cancel out *)
Definition big_read_ts (ts : tstate) (nw : Z) : tstate :=
  mkT (cfg ts) (pcs ts) (tm_read (tm ts) (arm_read (cfg ts) nw)) (started ts) (sock_started ts) nw
      (conn_of ts) (writer ts) false (latched ts) (RBody true).

(* ... while nobody reads: the buffer passes its high-water mark, pause_reading drops the timer *)
Definition big_pause_ts (ts : tstate) : tstate :=
  mkT (cfg ts) (pcs ts) (tm_read (tm ts) None) (started ts) (sock_started ts) (last_io ts) (conn_of ts)
      (writer ts) true (latched ts) (RBody true).

Definition done_ts (ts : tstate) : tstate :=
  mkT (cfg ts) PDone no_timers (started ts) (sock_started ts) (last_io ts) (conn_of ts) false false None REnd.

(* end of body while the caller is not reading: every timer is dropped, the response lets go of the connection;
   a timeout latched earlier is still raised by the next read *)
Definition recv_ts (ts : tstate) : tstate :=
  mkT (cfg ts) PRecv no_timers (started ts) (sock_started ts) (last_io ts) None false false (latched ts) REnd.

Definition ended_ts (ts : tstate) (reading : bool) : tstate := if reading then done_ts ts else recv_ts ts.

(* the caller starts reading; a paused transport is resumed, which re-arms sock_read *)
Definition read_ts (ts : tstate) (nw : Z) : tstate :=
  if paused ts
  then mkT (cfg ts) (PBody true) (tm_read (tm ts) (arm_read (cfg ts) nw)) (started ts) (sock_started ts) nw
           (conn_of ts) (writer ts) false (latched ts) (rp ts)
  else set_pc ts (PBody true).

(* a timer fires while the caller is not awaiting aiohttp: latched until the next read *)
Definition latch_total_ts (ts : tstate) : tstate :=
  set_latched (set_tm ts (tm_total (tm ts) None))
    (match latched ts with Some FSockRead => Some FSockRead | _ => Some FTotal end).
Definition latch_read_ts (ts : tstate) : tstate :=
  set_latched (set_tm ts (tm_read (tm ts) None)) (Some FSockRead).

(* ---- step --------------------------------------------------------------------------------- *)

Fixpoint all_timers_ok (x : Z) (f : task -> tstate) (l : list task) : bool :=
  match l with [] => true | t :: r => timers_ok x (f t) && all_timers_ok x f r end.

Definition step (g : gcfg) (s : state) (e : event) : option state :=
  match e with
  | EAdv d =>
      if (0 <=? d) && all_timers_ok (now s + d) (tasks s) (ids s)
      then Some (mkS (now s + d) (tasks s) (ids s) (acq s) (waiters s) (idle s) (closedc s) (nconn s) (dns s))
      else None
  | EStart t c =>
      if memN t (ids s) then None else
      match pcs (tasks s t) with
      | PIdle =>
        let ts := start_ts g c (now s) in
        match idle s with
        | _ :: _ =>                                             (* first _get: outside the connect timeout *)
            Some (acquire g (mkS (now s) (upd (tasks s) t ts) (ids s ++ [t]) (acq s) (waiters s) (idle s)
                                 (closedc s) (nconn s) (dns s)) t)
        | [] =>
            let ts1 := enter_connect g ts (now s) in
            if connect_must_wait (avail g s)
            then Some (mkS (now s) (upd (tasks s) t (set_pc ts1 PWaitSlot)) (ids s ++ [t]) (acq s)
                           (waiters s ++ [t]) (idle s) (closedc s) (nconn s) (dns s))
            else Some (acquire g (mkS (now s) (upd (tasks s) t ts1) (ids s ++ [t]) (acq s) (waiters s)
                                      (idle s) (closedc s) (nconn s) (dns s)) t)
        end
      | _ => None
      end
  | EDns =>
      match dns s with
      | DInflight =>
          Some (mkS (now s)
                    (fun t => let ts := tasks s t in
                              match pcs ts with PResolve => to_connect g ts (now s) | _ => ts end)
                    (ids s) (acq s) (waiters s) (idle s) (closedc s) (nconn s) DCached)
      | _ => None
      end
  | EConn t =>
      let ts := tasks s t in
      match pcs ts with
      | PConnect =>
          Some (mkS (now s) (upd (tasks s) t (to_headers ts (nconn s) (now s))) (ids s) (acq s) (waiters s)
                    (idle s) (closedc s) (nconn s + 1)%N (dns s))
      | _ => None
      end
  | EWritten t =>
      let ts := tasks s t in
      if writer ts && has_conn (pcs ts) then Some (set_task s t (written_ts ts (now s))) else None
  | EData t k =>
      let ts := tasks s t in
      if paused ts then None else
      match latched ts with Some FSockRead => None | _ =>
      match k, pcs ts, rp ts with
      | KPart, PHeaders, RHead => Some (set_task s t (rearm_read ts (now s)))
      | KPart, PBody _, RBody _ => Some (set_task s t (rearm_read ts (now s)))
      | KHead, PHeaders, RHead => Some (set_task s t (head_ts ts (now s)))
      | KBig, PBody true, RBody false => Some (set_task s t (big_read_ts ts (now s)))
      | KBig, PBody false, RBody false => Some (set_task s t (big_pause_ts ts))
      | KEnd, PBody r, RBody _ =>
          (* end of body: timers dropped; the connection goes back to the pool, unless the writer is
             still alive (then it is cancelled and the connection is closed).  When the caller is not
             reading (a pause and the resume inside feed_eof cancel out) the body waits in the buffer *)
          match conn_of ts with
          | Some c =>
              Some (wake g (if writer ts
                            then give_back s t (ended_ts ts r) (idle s) (add_closed c (closedc s))
                            else give_back s t (ended_ts ts r) (idle s ++ [c]) (closedc s)))
          | None => None
          end
      | _, _, _ => None
      end end
  | ERead t =>
      let ts := tasks s t in
      match pcs ts with
      | PBody false =>
          match latched ts with
          | Some f => Some (fail g s t f)
          | None => Some (set_task s t (read_ts ts (now s)))
          end
      | PRecv =>
          match latched ts with
          | Some f => Some (fail g s t f)
          | None => Some (set_task s t (done_ts ts))
          end
      | _ => None
      end
  | ECancel t =>
      if pending (pcs (tasks s t)) then Some (fail g s t FCancelled) else None
  | EFire t w =>
      let ts := tasks s t in
      match deadline ts w with
      | Some d =>
          if d <=? now s then
            match w with
            | TTotal =>
                if awaiting (pcs ts) then Some (fail g s t FTotal)
                else if live (pcs ts) then Some (set_task s t (latch_total_ts ts)) else None
            | TConn => if connecting (pcs ts) then Some (fail g s t FConnect) else None
            | TSock => match pcs ts with PConnect => Some (fail g s t FSockConnect) | _ => None end
            | TRead =>
                if awaiting (pcs ts) then Some (fail g s t FSockRead)
                else if live (pcs ts) then Some (set_task s t (latch_read_ts ts)) else None
            end
          else None
      | None => None
      end
  end.

Fixpoint run (g : gcfg) (s : state) (tr : list event) : option state :=
  match tr with
  | [] => Some s
  | e :: r => match step g s e with Some s' => run g s' r | None => None end
  end.

(* ---- deterministic driver used by the correspondence harness -------------------------------- *)

(* among the armed timers of the started requests, the earliest deadline; ties are resolved the way
   the nested contexts resolve them: the outermost wins (total, connect, sock_connect), and the
   total timer's cancellation overrides a simultaneous sock_read exception *)
Definition prio (w : timer) : Z :=
  match w with TTotal => 0 | TConn => 1 | TSock => 2 | TRead => 3 end.

(* timers that are due at the same instant all fire (request cancellation) before any of the tasks
   runs, so a queued request that is itself timing out is never woken: it fires first *)
Definition rank (p : pc) : Z := match p with PWaitSlot => 0 | _ => 1 end.

Definition better (a b : Z * Z * task * timer) : bool :=
  let '(da, ra, ta, wa) := a in
  let '(db, rb, tb, wb) := b in
  if da <? db then true else if db <? da then false else
  if ra <? rb then true else if rb <? ra then false else
  if (ta <? tb)%N then true else if (tb <? ta)%N then false else prio wa <? prio wb.

Definition cand (ts : tstate) (t : task) (w : timer) (best : option (Z * Z * task * timer)) :=
  match deadline ts w with
  | Some d => match best with
              | Some b => if better (d, rank (pcs ts), t, w) b then Some (d, rank (pcs ts), t, w) else best
              | None => Some (d, rank (pcs ts), t, w)
              end
  | None => best
  end.

Fixpoint next_timer (f : task -> tstate) (l : list task) (best : option (Z * Z * task * timer)) :=
  match l with
  | [] => best
  | t :: r =>
      let ts := f t in
      next_timer f r (cand ts t TRead (cand ts t TSock (cand ts t TConn (cand ts t TTotal best))))
  end.

(* let d ticks pass, firing every timer that becomes due, in deadline order *)
Fixpoint advance (fuel : nat) (g : gcfg) (s : state) (target : Z) : option state :=
  match fuel with
  | O => None
  | S k =>
      match next_timer (tasks s) (ids s) None with
      | Some (d, _, t, w) =>
          if d <=? target then
            match step g s (EAdv (Z.max 0 (d - now s))) with
            | Some s1 => match step g s1 (EFire t w) with
                         | Some s2 => advance k g s2 target
                         | None => None
                         end
            | None => None
            end
          else step g s (EAdv (target - now s))
      | None => step g s (EAdv (target - now s))
      end
  end.

(* one stimulus of a history; a stimulus that is not enabled leaves the state unchanged *)
Definition apply (g : gcfg) (s : state) (e : event) : option state :=
  match e with
  | EAdv d => advance (S (4 * length (ids s))) g s (now s + d)
  | _ => match step g s e with Some s' => Some s' | None => Some s end
  end.

Definition count_writers (s : state) : nat :=
  length (filter (fun t => writer (tasks s t)) (ids s)).
