(* Model of aiohttp/web_urldispatcher.py (UrlDispatcher, resources, sub-applications) and of the
   path candidates of web_middlewares.normalize_path_middleware.  Definitions only.

   Strings are lists of code points.  `path` arguments of the resolve functions are
   `request.rel_url.path_safe` (yarl: percent-decoded except %2F and %25).
   A Python exception is an explicit constructor (berr / None); nothing is defaulted. *)
From AV Require Import Lib.Base Lib.Utf8 Generated.DispatchGen.
Open Scope N_scope.

Definition SLASH : N := 47.
Definition PCT : N := 37.
Definition STAR : N := 42.

Definition is_nil {A} (l : list A) : bool := match l with [] => true | _ => false end.

(* ------------------------------------------------------------------ strings *)

Fixpoint strip_prefix (p s : str) : option str :=
  match p, s with
  | [], _ => Some s
  | x :: p', y :: s' => if x =? y then strip_prefix p' s' else None
  | _ :: _, [] => None
  end.

(* s.partition(c)[0] *)
Fixpoint before_char (c : N) (s : str) : str :=
  match s with
  | [] => []
  | x :: s' => if x =? c then [] else x :: before_char c s'
  end.

(* s.rpartition(c)[0]: the text before the LAST c; "" when c does not occur *)
Fixpoint rpart (c : N) (s : str) : str :=
  match s with
  | [] => []
  | x :: s' => if memN c s' then x :: rpart c s' else []
  end.

(* s.rstrip(c) *)
Fixpoint rstrip (c : N) (s : str) : str :=
  match s with
  | [] => []
  | x :: s' => let t := rstrip c s' in if (x =? c) && is_nil t then [] else x :: t
  end.

Definition ends_with_char (c : N) (s : str) : bool :=
  match rev s with x :: _ => x =? c | [] => false end.

(* Python str.replace(pat, rep) for non-empty pat: leftmost, non-overlapping *)
Fixpoint replace_aux (pat rep : str) (skip : nat) (s : str) : str :=
  match s with
  | [] => []
  | c :: s' =>
    match skip with
    | S k => replace_aux pat rep k s'
    | O => if starts_with pat s then rep ++ replace_aux pat rep (pred (length pat)) s'
           else c :: replace_aux pat rep O s'
    end
  end.
Definition replace_all (pat rep s : str) : str :=
  match pat with [] => s | _ => replace_aux pat rep O s end.

Fixpoint split_on_aux (c : N) (cur : str) (s : str) : list str :=
  match s with
  | [] => [rev cur]
  | x :: s' => if x =? c then rev cur :: split_on_aux c [] s' else split_on_aux c (x :: cur) s'
  end.
Definition split_on (c : N) (s : str) : list str := split_on_aux c [] s.

Fixpoint join_with (sep : str) (ls : list str) : str :=
  match ls with
  | [] => []
  | l :: ls' => match ls' with [] => l | _ => l ++ sep ++ join_with sep ls' end
  end.

Definition lower_ascii (s : str) : str :=
  map (fun c => if (65 <=? c) && (c <=? 90) then c + 32 else c) s.

Fixpoint assoc {A} (k : str) (l : list (str * A)) : option A :=
  match l with
  | [] => None
  | (k', v) :: l' => if list_eqb k k' then Some v else assoc k l'
  end.

Fixpoint mem_str (k : str) (l : list str) : bool :=
  match l with [] => false | x :: l' => list_eqb k x || mem_str k l' end.

(* ------------------------------------------------------------------ quoting (yarl oracle, modelled) *)

(* characters yarl's path quoter leaves alone (validated against yarl on every run) *)
Definition path_safe_char (c : N) : bool :=
  ((48 <=? c) && (c <=? 57)) || ((65 <=? c) && (c <=? 90)) || ((97 <=? c) && (c <=? 122))
  || memN c [33; 36; 38; 39; 40; 41; 42; 43; 44; 45; 46; 47; 58; 59; 61; 64; 95; 126].

Definition hexdigit (n : N) : N := if n <? 10 then 48 + n else 55 + n.
Definition pct_byte (b : N) : str := [PCT; hexdigit (b / 16); hexdigit (b mod 16)].

(* yarl: a ':' in a relative path that could be read as a scheme separator (position > 0, only
   scheme characters before it) is re-encoded as %3A *)
Definition scheme_char (c : N) : bool :=
  ((48 <=? c) && (c <=? 57)) || ((65 <=? c) && (c <=? 90)) || ((97 <=? c) && (c <=? 122))
  || memN c [43; 45; 46].

Fixpoint encode_colon_aux (seen : bool) (s : str) : str :=
  match s with
  | [] => []
  | c :: s' =>
    if c =? 58 then (if seen then pct_byte 58 ++ s' else s)
    else if scheme_char c then c :: encode_colon_aux true s'
    else s
  end.
Definition encode_colon (s : str) : str := encode_colon_aux false s.

Fixpoint quote_chars (v : str) : option str :=
  match v with
  | [] => Some []
  | c :: v' =>
    match (if (c <? 128) && path_safe_char c then Some [c]
           else match utf8_char c with Some bs => Some (flat_map pct_byte bs) | None => None end),
          quote_chars v' with
    | Some a, Some b => Some (a ++ b)
    | _, _ => None
    end
  end.

(* _quote_path(value) = URL.build(path=value, encoded=False).raw_path; None = UnicodeEncodeError *)
Definition quote_path (v : str) : option str :=
  match quote_chars v with Some q => Some (encode_colon q) | None => None end.

Definition requote_path (v : str) : option str :=
  match quote_path v with
  | Some r => Some (if memN PCT v then replace_all (fst requote_fix) (snd requote_fix) r else r)
  | None => None
  end.

Definition unquote_path_safe (v : str) : str :=
  fold_left (fun s ab => replace_all (fst ab) (snd ab) s) unquote_table v.

(* _path_safe(value) = URL.build(path=value, encoded=True).path_safe: yarl's PATH_SAFE_UNQUOTER
   (ignore="/%", unsafe="+"): every valid %XX (or UTF-8 run of %XX) is decoded, except that a decoded
   '/' or '%' is written back as an upper-case escape; anything else stays as typed.
   '/' never takes part in an escape, so the function works segment by segment. *)
Definition hexval (c : N) : option N :=
  if (48 <=? c) && (c <=? 57) then Some (c - 48)
  else if (65 <=? c) && (c <=? 70) then Some (c - 55)
  else if (97 <=? c) && (c <=? 102) then Some (c - 87)
  else None.

Definition pct_head (s : str) : option (N * str) :=
  match s with
  | c :: h :: l :: r =>
    if c =? PCT then
      match hexval h, hexval l with
      | Some a, Some b => Some (16 * a + b, r)
      | _, _ => None
      end
    else None
  | _ => None
  end.

Definition cont_head (s : str) : option (N * str) :=
  match pct_head s with
  | Some (b, r) => if (128 <=? b) && (b <=? 191) then Some (b, r) else None
  | None => None
  end.

(* strict UTF-8: the candidate code point must encode back to exactly the bytes read *)
Definition check_cp (cp : N) (bs : list N) : option N :=
  match utf8_char cp with
  | Some bs' => if list_eqb bs bs' then Some cp else None
  | None => None
  end.

(* s starts with '%': -> (decoded text, number of characters consumed) *)
Definition decode_head (s : str) : option (str * nat) :=
  match pct_head s with
  | None => None
  | Some (b, r) =>
    if b <? 128 then
      Some ((if memN b [SLASH; PCT] then pct_byte b else [b]), 3%nat)
    else if (194 <=? b) && (b <=? 223) then
      match cont_head r with
      | Some (c1, _) =>
        match check_cp ((b - 192) * 64 + (c1 - 128)) [b; c1] with
        | Some cp => Some ([cp], 6%nat) | None => None end
      | None => None
      end
    else if (224 <=? b) && (b <=? 239) then
      match cont_head r with
      | Some (c1, r1) =>
        match cont_head r1 with
        | Some (c2, _) =>
          match check_cp ((b - 224) * 4096 + (c1 - 128) * 64 + (c2 - 128)) [b; c1; c2] with
          | Some cp => Some ([cp], 9%nat) | None => None end
        | None => None
        end
      | None => None
      end
    else if (240 <=? b) && (b <=? 244) then
      match cont_head r with
      | Some (c1, r1) =>
        match cont_head r1 with
        | Some (c2, r2) =>
          match cont_head r2 with
          | Some (c3, _) =>
            match check_cp ((b - 240) * 262144 + (c1 - 128) * 4096 + (c2 - 128) * 64 + (c3 - 128)) [b; c1; c2; c3] with
            | Some cp => Some ([cp], 12%nat) | None => None end
          | None => None
          end
        | None => None
        end
      | None => None
      end
    else None
  end.

Fixpoint dec_aux (skip : nat) (s : str) : str :=
  match s with
  | [] => []
  | c :: s' =>
    match skip with
    | S k => dec_aux k s'
    | O =>
      match decode_head s with
      | Some (out, n) => out ++ dec_aux (pred n) s'
      | None => c :: dec_aux O s'
      end
    end
  end.

Definition path_safe_dec (s : str) : str :=
  join_with [SLASH] (map (dec_aux O) (split_on SLASH s)).

(* ------------------------------------------------------------------ templates *)

Inductive cls := CGood | CDigit | CAny | CLower.

Definition cls_mem (c : cls) (ch : N) : bool :=
  match c with
  | CGood => good_char ch
  | CDigit => (48 <=? ch) && (ch <=? 57)
  | CAny => negb (ch =? 10)
  | CLower => (97 <=? ch) && (ch <=? 122)
  end.

(* Lit f mt: literal text; f is what the formatter (canonical, url_for) carries, mt what the compiled
   pattern matches (the path_safe form of f for template parts, the raw prefix for add_prefix).
   Hole n c mn  is the group (?P<n>[c]{mn,}) (greedy) *)
Inductive item := Lit (f : str) (mt : str) | Hole (name : str) (c : cls) (mn : nat).

(* the regular expressions of the modelled family, by their source text *)
Definition regex_family : list (str * (cls * nat)) :=
  [ ([92; 100; 43], (CDigit, 1%nat));          (* \d+ *)
    ([92; 100; 42], (CDigit, 0%nat));          (* \d* *)
    ([46; 42], (CAny, 0%nat));                 (* .*  *)
    ([46; 43], (CAny, 1%nat));                 (* .+  *)
    ([91; 97; 45; 122; 93; 43], (CLower, 1%nat)) ].   (* [a-z]+ *)

Definition valid_name (n : str) : bool :=
  match n with
  | [] => false
  | c :: n' => dyn_name_start c && forallb dyn_name_char n'
  end.

(* the text between '{' and '}' -> hole; None = ValueError (or outside the family) *)
Definition parse_hole (body : str) : option item :=
  let name := before_char 58 body in
  if negb (valid_name name) then None
  else match strip_prefix name body with
       | Some [] => Some (Hole name CGood 1%nat)
       | Some (_colon :: re) =>
         match assoc re regex_family with
         | Some (c, mn) => Some (Hole name c mn)
         | None => None
         end
       | None => None
       end.

(* splits a path at '{'...'}' groups (no nested braces in the family).
   parse_aux lit_rev s: lit_rev = literal text read so far (reversed).  None = ValueError *)
Fixpoint take_until_close (s : str) : option (str * str) :=
  match s with
  | [] => None
  | c :: s' => if c =? 125 then Some ([], s')
               else if c =? 123 then None
               else match take_until_close s' with Some (b, r) => Some (c :: b, r) | None => None end
  end.

Definition lit_item (lit_rev : str) : option (list item) :=
  match lit_rev with
  | [] => Some []
  | _ => match requote_path (rev lit_rev) with Some q => Some [Lit q (path_safe_dec q)] | None => None end
  end.

Fixpoint parse_aux (fuel : nat) (lit_rev : str) (s : str) : option (list item) :=
  match fuel with
  | O => None
  | S f =>
    match s with
    | [] => lit_item lit_rev
    | c :: s' =>
      if c =? 125 then None
      else if c =? 123 then
        match take_until_close s' with
        | None => None
        | Some (body, rest) =>
          match lit_item lit_rev, parse_hole body, parse_aux f [] rest with
          | Some l, Some h, Some its => Some (l ++ h :: its)
          | _, _, _ => None
          end
        end
      else parse_aux f (c :: lit_rev) s'
    end
  end.

Fixpoint hole_names (its : list item) : list str :=
  match its with
  | [] => []
  | Lit _ _ :: r => hole_names r
  | Hole n _ _ :: r => n :: hole_names r
  end.

Fixpoint nodup_str (l : list str) : bool :=
  match l with [] => true | x :: r => negb (mem_str x r) && nodup_str r end.

(* DynamicResource.__init__: None = ValueError (bad template, duplicate group name) *)
Definition parse_template (path : str) : option (list item) :=
  match parse_aux (S (length path)) [] path with
  | Some its => if nodup_str (hole_names its) then Some its else None
  | None => None
  end.

Fixpoint formatter_of (its : list item) : str :=
  match its with
  | [] => []
  | Lit l _ :: r => l ++ formatter_of r
  | Hole n _ _ :: r => (123 :: n) ++ 125 :: formatter_of r
  end.

(* re.fullmatch of the compiled template: greedy holes with backtracking.
   Values are returned raw (before _unquote_path_safe). *)
Fixpoint match_items (its : list item) : str -> option (list (str * str)) :=
  match its with
  | [] => fun s => if is_nil s then Some [] else None
  | Lit _ l :: its' => fun s =>
      match strip_prefix l s with Some r => match_items its' r | None => None end
  | Hole n c mn :: its' =>
      let try_here (taken_rev : str) (s : str) :=
        if Nat.leb mn (length taken_rev) then
          match match_items its' s with
          | Some d => Some ((n, rev taken_rev) :: d)
          | None => None
          end
        else None in
      (fix go (taken_rev : str) (s : str) {struct s} : option (list (str * str)) :=
         match s with
         | ch :: s' =>
           if cls_mem c ch then
             match go (ch :: taken_rev) s' with
             | Some r => Some r
             | None => try_here taken_rev s
             end
           else try_here taken_rev s
         | [] => try_here taken_rev s
         end) []
  end.

(* url_for: formatter.format_map({k: _quote_path(v)}); None = KeyError / encode error *)
Fixpoint format_items (its : list item) (vals : list (str * str)) : option str :=
  match its with
  | [] => Some []
  | Lit l _ :: r => match format_items r vals with Some t => Some (l ++ t) | None => None end
  | Hole n _ _ :: r =>
    match assoc n vals with
    | Some v => match quote_path v, format_items r vals with
                | Some q, Some t => Some (q ++ t)
                | _, _ => None
                end
    | None => None
    end
  end.

(* ------------------------------------------------------------------ os.path.normpath (posix) *)

Definition DOT : N := 46.
Fixpoint norm_comps (comps : list str) (acc_rev : list str) (rooted : bool) : list str :=
  match comps with
  | [] => rev acc_rev
  | c :: r =>
    if is_nil c || list_eqb c [DOT] then norm_comps r acc_rev rooted
    else if list_eqb c [DOT; DOT] then
      match acc_rev with
      | [] => if rooted then norm_comps r acc_rev rooted else norm_comps r [c] rooted
      | top :: rest => if list_eqb top [DOT; DOT] then norm_comps r (c :: acc_rev) rooted
                       else norm_comps r rest rooted
      end
    else norm_comps r (c :: acc_rev) rooted
  end.

Definition normpath (p : str) : str :=
  match p with
  | [] => [DOT]
  | _ =>
    let slashes : str :=
      if starts_with [SLASH; SLASH; SLASH] p then [SLASH]
      else if starts_with [SLASH; SLASH] p then [SLASH; SLASH]
      else if starts_with [SLASH] p then [SLASH]
      else [] in
    let body := join_with [SLASH] (norm_comps (split_on SLASH p) [] (negb (is_nil slashes))) in
    match slashes ++ body with [] => [DOT] | r => r end
  end.

(* ------------------------------------------------------------------ resources and routers *)

Definition routes := list (str * N).          (* method, handler id; insertion order *)
Definition ANY : str := [STAR].

(* self._routes.get(method, self._any_route) *)
Definition route_lookup (m : str) (rt : routes) : option N :=
  match assoc m rt with Some h => Some h | None => assoc ANY rt end.

Definition index := list (str * list nat).    (* _resource_index: key -> positions in _resources *)

Inductive domrule := DExact (d : str) | DMask (d : str).

Inductive resource :=
| RPlain (path : str) (rt : routes)
| RDyn (orig : str) (fmt : str) (pat : list item) (rt : routes)
| RStatic (prefix : str) (rt : routes)
| RSub (prefix : str) (rs : list resource) (ix : index)
| RDom (rule : domrule) (rs : list resource) (ix : index).

Record router := Router { r_res : list resource; r_ix : index }.

(* canonical of the rule: the domain, or MaskDomain's regex text *)
Definition dom_text (d : domrule) : str :=
  match d with
  | DExact s => s
  | DMask s => replace_all [STAR] [46; STAR] (replace_all [46] [92; 46] s)
  end.

Definition canonical (r : resource) : str :=
  match r with
  | RPlain p _ => p
  | RDyn _ f _ _ => f
  | RStatic p _ => p
  | RSub p _ _ => p
  | RDom d _ _ => dom_text d
  end.

Definition is_dom (r : resource) : bool := match r with RDom _ _ _ => true | _ => false end.

(* UrlDispatcher._get_resource_index_key: cut at the first brace / last slash, strip trailing slashes;
   a PlainResource is keyed by that text as written, every other resource by its path_safe form *)
Definition cut_key (c : str) : str :=
  rstrip ik_sep (if memN ik_brace c then rpart ik_sep (before_char ik_brace c) else c).
Definition index_key_of (c : str) : str :=
  match path_safe_dec (cut_key c) with [] => [ik_sep] | k' => k' end.
Definition index_key_plain (c : str) : str :=
  match cut_key c with [] => [ik_sep] | k' => k' end.
Definition index_key (r : resource) : str :=
  match r with
  | RPlain p _ => index_key_plain p
  | _ => index_key_of (canonical r)
  end.

Fixpoint idx_get (k : str) (ix : index) : option (list nat) :=
  match ix with
  | [] => None
  | (k', l) :: ix' => if list_eqb k k' then Some l else idx_get k ix'
  end.

(* setdefault(k, []).append(i) *)
Fixpoint idx_append (k : str) (i : nat) (ix : index) : index :=
  match ix with
  | [] => [(k, [i])]
  | (k', l) :: ix' => if list_eqb k k' then (k', l ++ [i]) :: ix' else (k', l) :: idx_append k i ix'
  end.

Fixpoint remove_first (i : nat) (l : list nat) : option (list nat) :=
  match l with
  | [] => None
  | j :: l' => if Nat.eqb i j then Some l'
               else match remove_first i l' with Some r => Some (j :: r) | None => None end
  end.

Inductive berr := EValue | ERuntime | EAssert | EKey.
Inductive bres (A : Type) := BOk (a : A) | BErr (e : berr).
Arguments BOk {A} a.
Arguments BErr {A} e.

(* self._resource_index[k].remove(i): KeyError / ValueError *)
Fixpoint idx_remove (k : str) (i : nat) (ix : index) : bres index :=
  match ix with
  | [] => BErr EKey
  | (k', l) :: ix' =>
    if list_eqb k k' then
      match remove_first i l with Some l' => BOk ((k', l') :: ix') | None => BErr EValue end
    else match idx_remove k i ix' with BOk r => BOk ((k', l) :: r) | BErr e => BErr e end
  end.

(* ------------------------------------------------------------------ resolution *)

Inductive result :=
| Found (h : N) (mi : list (str * str))
| NotFound
| NotAllowed (allowed : list str)
| Broken.                                  (* dangling index entry: unreachable, see index_ok *)

(* what AbstractResource.resolve returns: a final match_info (sub-apps return even their own
   404/405 as a match), or (None, allowed) *)
Inductive outcome := OFinal (r : result) | ONo (allowed : list str) | OBroken.

Definition finish (acc : list str) : result := if is_nil acc then NotFound else NotAllowed acc.

(* UrlDispatcher._merge_allowed: a sub-application's own 404/405 keeps the methods collected before it
   (a 404 becomes a 405 when something was collected) *)
Definition merge_allowed (acc : list str) (r : result) : result :=
  match acc with
  | [] => r
  | _ => match r with
         | NotFound => NotAllowed acc
         | NotAllowed a => NotAllowed (acc ++ a)
         | _ => r
         end
  end.

Fixpoint scan (os : list outcome) (acc : list str) : result :=
  match os with
  | [] => finish acc
  | OFinal r :: _ => merge_allowed acc r
  | ONo a :: os' => scan os' (acc ++ a)
  | OBroken :: _ => Broken
  end.

Definition by_method (m : str) (rt : routes) (mi : list (str * str)) : outcome :=
  match route_lookup m rt with
  | Some h => OFinal (Found h mi)
  | None => ONo (map fst rt)
  end.

Definition FILENAME : str := [102; 105; 108; 101; 110; 97; 109; 101].

Definition static_norm_ok (prefix : str) (p : str) : bool :=
  let n := normpath p in starts_with (prefix ++ [SLASH]) n || list_eqb n prefix.

(* prefix = _prefix (quoted); the tests use _prefix_safe = _path_safe(_prefix) *)
Definition static_outcome (prefix : str) (rt : routes) (p m : str) : outcome :=
  let ps := path_safe_dec prefix in
  if static_norm_ok ps p then
    match assoc m rt with                      (* method in allowed_methods: exact, no wildcard *)
    | Some h => OFinal (Found h [(FILENAME, unquote_path_safe (skipn (S (length ps)) p))])
    | None => ONo (map fst rt)
    end
  else ONo [].

Definition unquote_dict (d : list (str * str)) : list (str * str) :=
  map (fun kv => (fst kv, unquote_path_safe (snd kv))) d.

Definition leaf_outcome (r : resource) (p m : str) : outcome :=
  match r with
  | RPlain path rt => if list_eqb path p then by_method m rt [] else ONo []
  | RDyn _ _ pat rt =>
    match match_items pat p with
    | Some d => by_method m rt (unquote_dict d)
    | None => ONo []
    end
  | RStatic prefix rt => static_outcome prefix rt p m
  | _ => OBroken
  end.

(* MaskDomain: '*' -> '.*' (fullmatch) *)
Fixpoint glob (pat : str) : str -> bool :=
  match pat with
  | [] => fun s => is_nil s
  | c :: pat' =>
    if c =? STAR then
      (fix go (s : str) : bool :=
         glob pat' s || match s with [] => false | ch :: s' => negb (ch =? 10) && go s' end)
    else fun s => match s with ch :: s' => (ch =? c) && glob pat' s' | [] => false end
  end.

Definition dom_match (d : domrule) (host : option str) : bool :=
  match host with
  | None => false
  | Some [] => false
  | Some h =>
    match d with
    | DExact s => list_eqb (lower_ascii h) s
    | DMask s => glob s h
    end
  end.

(* the walk of UrlDispatcher.resolve over url_part *)
Fixpoint walk (fuel : nat) (p : str) : list str :=
  match fuel with
  | O => []
  | S f =>
    match p with
    | [] => []
    | _ => p :: (if list_eqb p [SLASH] then []
                 else walk f (match rpart SLASH p with [] => [SLASH] | q => q end))
    end
  end.
Definition ancestors (p : str) : list str := walk (S (length p)) p.

Definition bucket (ix : index) (k : str) : list nat :=
  match idx_get k ix with Some l => l | None => [] end.

Definition pick (outs : list outcome) (i : nat) : outcome :=
  match nth_error outs i with Some o => o | None => OBroken end.

Definition dom_positions (rs : list resource) : list nat :=
  map fst (filter (fun ir => is_dom (snd ir)) (combine (seq 0 (length rs)) rs)).

(* UrlDispatcher.resolve, as written: matched sub-apps first, then the index walk *)
Fixpoint resolve_ix_res (host : option str) (p m : str) (r : resource) : outcome :=
  match r with
  | RSub _ rs ix =>
    let outs := map (resolve_ix_res host p m) rs in
    OFinal (scan (map (pick outs) (dom_positions rs ++ flat_map (bucket ix) (ancestors p))) [])
  | RDom d rs ix =>
    if dom_match d host then
      let outs := map (resolve_ix_res host p m) rs in
      OFinal (scan (map (pick outs) (dom_positions rs ++ flat_map (bucket ix) (ancestors p))) [])
    else ONo []
  | _ => leaf_outcome r p m
  end.

Definition resolve_ix (rt : router) (host : option str) (p m : str) : result :=
  let outs := map (resolve_ix_res host p m) (r_res rt) in
  scan (map (pick outs) (dom_positions (r_res rt) ++ flat_map (bucket (r_ix rt)) (ancestors p))) [].

(* ---- the documented rule: matched sub-apps in registration order, then every other resource
   ordered by decreasing length of its fixed prefix (index key), registration order among equals;
   each resource is asked with its declarative path test. *)

(* p lies under the fixed prefix k at a segment boundary ("/" is above every non-empty path) *)
Definition literal_prefix_ok (k p : str) : bool :=
  if list_eqb k [SLASH] then negb (is_nil p)
  else list_eqb p k || starts_with (k ++ [SLASH]) p.

(* insert before the first element whose key is not longer (stable, decreasing key length) *)
Section Order.
  Context {A : Type} (isd : A -> bool) (len : A -> nat).
  Fixpoint insert_by_len (x : A) (l : list A) : list A :=
    match l with
    | [] => [x]
    | y :: l' => if Nat.ltb (len x) (len y) then y :: insert_by_len x l' else x :: l
    end.
  Fixpoint sort_by_len (l : list A) : list A :=
    match l with [] => [] | x :: l' => insert_by_len x (sort_by_len l') end.
  Definition rule_order (l : list A) : list A :=
    filter isd l ++ sort_by_len (filter (fun r => negb (isd r)) l).
End Order.

Definition keylen (r : resource) : nat := length (index_key r).

(* outcomes of the resources rs (computed structurally), visited in rule order *)
Definition in_rule_order (rs : list resource) (outs : list outcome) : list outcome :=
  map snd (rule_order (fun ro => is_dom (fst ro)) (fun ro => keylen (fst ro)) (combine rs outs)).

Fixpoint resolve_rule_res (host : option str) (p m : str) (r : resource) : outcome :=
  match r with
  | RSub prefix rs _ =>
    if literal_prefix_ok (index_key r) p
    then OFinal (scan (in_rule_order rs (map (resolve_rule_res host p m) rs)) [])
    else ONo []
  | RDom d rs _ =>
    if dom_match d host
    then OFinal (scan (in_rule_order rs (map (resolve_rule_res host p m) rs)) [])
    else ONo []
  | RStatic prefix rt =>
    if literal_prefix_ok (index_key r) p then static_outcome prefix rt p m else ONo []
  | _ => leaf_outcome r p m
  end.

Definition resolve_rule (rt : router) (host : option str) (p m : str) : result :=
  scan (in_rule_order (r_res rt) (map (resolve_rule_res host p m) (r_res rt))) [].

(* ------------------------------------------------------------------ construction *)

Definition empty_router : router := Router [] [].

Definition register (r : resource) (rt : router) : router :=
  Router (r_res rt ++ [r])
         (if is_dom r then r_ix rt else idx_append (index_key r) (length (r_res rt)) (r_ix rt)).

(* AbstractResource.add_prefix / PrefixedSubAppResource._add_prefix_to_resources *)
Definition reindex_loop (f : resource -> bres resource) :=
  fix loop (l : list resource) (i : nat) (ix : index) : bres (list resource * index) :=
    match l with
    | [] => BOk ([], ix)
    | r :: l' =>
      match (if is_dom r then BOk ix else idx_remove (index_key r) i ix) with
      | BErr e => BErr e
      | BOk ix1 =>
        match f r with
        | BErr e => BErr e
        | BOk r' =>
          match loop l' (S i) (if is_dom r then ix1 else idx_append (index_key r') i ix1) with
          | BErr e => BErr e
          | BOk (l'', ix2) => BOk (r' :: l'', ix2)
          end
        end
      end
    end.

Fixpoint add_prefix (pfx : str) (r : resource) : bres resource :=
  match r with
  | RPlain p rt => BOk (RPlain (pfx ++ p) rt)
  | RDyn o f pat rt => BOk (RDyn o (pfx ++ f) (Lit pfx pfx :: pat) rt)
  | RStatic p rt => BOk (RStatic (pfx ++ p) rt)
  | RSub p rs ix =>
    match reindex_loop (add_prefix pfx) rs 0%nat ix with
    | BOk (rs', ix') => BOk (RSub (pfx ++ p) rs' ix')
    | BErr e => BErr e
    end
  | RDom d rs ix =>
    match reindex_loop (add_prefix pfx) rs 0%nat ix with
    | BOk (rs', ix') => BOk (RDom d rs' ix')
    | BErr e => BErr e
    end
  end.

Definition reindex (pfx : str) (rt : router) : bres router :=
  match reindex_loop (add_prefix pfx) (r_res rt) 0%nat (r_ix rt) with
  | BOk (rs', ix') => BOk (Router rs' ix')
  | BErr e => BErr e
  end.

(* PlainResource.freeze *)
Definition freeze_res (r : resource) : resource :=
  match r with
  | RPlain [] rt => RPlain [SLASH] rt
  | _ => r
  end.
Definition freeze (rt : router) : router := Router (map freeze_res (r_res rt)) (r_ix rt).

Definition raw_match (r : resource) (path : str) : bool :=
  match r with
  | RPlain p _ => list_eqb p path
  | RDyn o _ _ _ => list_eqb o path
  | _ => false
  end.

Definition add_route_to (m : str) (h : N) (r : resource) : bres resource :=
  match r with
  | RPlain p rt => match route_lookup m rt with Some _ => BErr ERuntime | None => BOk (RPlain p (rt ++ [(m, h)])) end
  | RDyn o f pat rt => match route_lookup m rt with Some _ => BErr ERuntime | None => BOk (RDyn o f pat (rt ++ [(m, h)])) end
  | _ => BErr EAssert
  end.

Definition has_brace (s : str) : bool := memN 123 s || memN 125 s.

Definition new_resource (path : str) : bres resource :=
  if has_brace path then
    match parse_template path with
    | Some its => BOk (RDyn path (formatter_of its) its [])
    | None => BErr EValue
    end
  else BOk (RPlain path []).

Fixpoint replace_last {A} (l : list A) (x : A) : list A :=
  match l with
  | [] => []
  | [_] => [x]
  | y :: l' => y :: replace_last l' x
  end.

(* UrlDispatcher.add_route(method, path, handler) *)
Definition op_route (m path : str) (h : N) (rt : router) : bres router :=
  if negb (is_nil path) && negb (starts_with [SLASH] path) then BErr EValue
  else
    let reuse := match rev (r_res rt) with r :: _ => if raw_match r path then Some r else None | [] => None end in
    match reuse with
    | Some r =>
      match add_route_to m h r with
      | BOk r' => BOk (Router (replace_last (r_res rt) r') (r_ix rt))
      | BErr e => BErr e
      end
    | None =>
      match new_resource path with
      | BErr e => BErr e
      | BOk r =>
        match add_route_to m h r with
        | BOk r' => BOk (register r' rt)
        | BErr e => BErr e
        end
      end
    end.

Definition GET : str := [71; 69; 84].
Definition HEAD : str := [72; 69; 65; 68].

Definition strip_one_slash (s : str) : str :=
  if ends_with_char SLASH s then removelast s else s.

Definition prefix_resource_ok (prefix : str) : bool :=
  (is_nil prefix || starts_with [SLASH] prefix)
  && (is_nil prefix || list_eqb prefix [SLASH] || negb (ends_with_char SLASH prefix)).

(* UrlDispatcher.add_static(prefix, dir) *)
Definition op_static (prefix : str) (h : N) (rt : router) : bres router :=
  if negb (starts_with [SLASH] prefix) then BErr EAssert
  else
    let p := strip_one_slash prefix in
    if negb (prefix_resource_ok p) then BErr EAssert
    else match requote_path p with
         | None => BErr EValue
         | Some q => BOk (register (RStatic q [(GET, h); (HEAD, h)]) rt)
         end.

(* Application.add_subapp(prefix, subapp) with `sub` the finished router of subapp *)
Definition op_subapp (prefix : str) (sub : router) (rt : router) : bres router :=
  let p := rstrip SLASH prefix in
  if is_nil p then BErr EValue
  else if negb (prefix_resource_ok p) then BErr EAssert
  else match requote_path p with
       | None => BErr EValue
       | Some q =>
         match reindex p sub with
         | BErr e => BErr e
         | BOk sub' => let s := freeze sub' in BOk (register (RSub q (r_res s) (r_ix s)) rt)
         end
       end.

(* Application.add_domain(domain, subapp); the domain is assumed validated (lower case, no port) *)
Definition op_domain (d : str) (sub : router) (rt : router) : bres router :=
  let s := freeze sub in
  BOk (register (RDom (if memN STAR d then DMask d else DExact d) (r_res s) (r_ix s)) rt).

Inductive op :=
| ORoute (m path : str) (h : N)
| OStatic (prefix : str) (h : N)
| OSub (prefix : str) (ops : list op)
| ODom (d : str) (ops : list op).

Definition fold_ops (f : op -> router -> bres router) :=
  fix go (l : list op) (rt : router) : bres router :=
    match l with
    | [] => BOk rt
    | o :: l' => match f o rt with BOk rt' => go l' rt' | BErr e => BErr e end
    end.

Fixpoint build_op (o : op) (rt : router) : bres router :=
  match o with
  | ORoute m path h => op_route m path h rt
  | OStatic prefix h => op_static prefix h rt
  | OSub prefix ops =>
    match fold_ops build_op ops empty_router with
    | BOk sub => op_subapp prefix sub rt
    | BErr e => BErr e
    end
  | ODom d ops =>
    match fold_ops build_op ops empty_router with
    | BOk sub => op_domain d sub rt
    | BErr e => BErr e
    end
  end.

(* the table of a running application: built, then frozen *)
Definition build_app (ops : list op) : bres router :=
  match fold_ops build_op ops empty_router with
  | BOk rt => BOk (freeze rt)
  | BErr e => BErr e
  end.

(* Resource.url_for; None = KeyError / TypeError / not supported *)
Definition url_for (r : resource) (vals : list (str * str)) : option str :=
  match r with
  | RPlain p _ => Some p
  | RDyn _ _ pat _ => format_items pat vals
  | _ => None
  end.

(* ------------------------------------------------------------------ normalize_path_middleware *)

(* re.sub("//+", "/", s) *)
Fixpoint merge_slashes (s : str) : str :=
  match s with
  | [] => []
  | c :: s' =>
    if c =? SLASH then
      match s' with
      | d :: _ => if d =? SLASH then merge_slashes s' else c :: merge_slashes s'
      | [] => [c]
      end
    else c :: merge_slashes s'
  end.

Fixpoint drop_slashes (s : str) : str :=
  match s with c :: s' => if c =? SLASH then drop_slashes s' else s | [] => [] end.

(* re.sub("^//+", "/", s) *)
Definition sanitize (s : str) : str :=
  match s with
  | c :: d :: s' => if (c =? SLASH) && (d =? SLASH) then SLASH :: drop_slashes s' else s
  | _ => s
  end.

(* the candidates, in order; path = raw request path without the query,
   dec_slash = request.path.endswith("/") (decoded path) *)
Definition paths_to_check (append_slash remove_slash merge : bool) (path : str) (dec_slash : bool) : list str :=
  (if merge then [merge_slashes path] else [])
  ++ (if append_slash && negb dec_slash then [path ++ [SLASH]] else [])
  ++ (if remove_slash && dec_slash then [removelast path] else [])
  ++ (if merge && append_slash then [merge_slashes (path ++ [SLASH])] else [])
  ++ (if merge && remove_slash && ends_with_char SLASH path then [removelast (merge_slashes path)] else []).

Definition redirect_candidates (a r mg : bool) (path : str) (dec_slash : bool) : list str :=
  map sanitize (paths_to_check a r mg path dec_slash).
