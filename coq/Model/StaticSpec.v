(* C15 — specification-side definitions (what the Range header asks for, RFC 9110 §14.1), written
   without reference to the implementation's control flow.  Definitions only. *)
From AV Require Import Lib.Base Generated.StaticGen Model.Static.
Open Scope Z_scope.

Inductive range_spec :=
| FromTo (a b : Z)        (* bytes=a-b *)
| From (a : Z)            (* bytes=a-  *)
| Suffix (n : Z).         (* bytes=-n  *)

(* (first byte, number of bytes) selected from a representation of sz bytes; None = unsatisfiable
   or invalid (last < first).  A selected slice is never empty. *)
Definition requested_slice (sz : Z) (r : range_spec) : option (Z * Z) :=
  match r with
  | FromTo a b => if (a <=? b) && (a <? sz) then Some (a, Z.min b (sz - 1) - a + 1) else None
  | From a => if a <? sz then Some (a, sz - a) else None
  | Suffix n => if (0 <? n) && (0 <? sz) then Some (sz - Z.min n sz, Z.min n sz) else None
  end.

(* the two digit groups of "bytes=<d1>-<d2>" *)
Definition spec_of_groups (d1 d2 : str) : option range_spec :=
  match d1, d2 with
  | [], [] => None
  | [], _ => Some (Suffix (dec_value 0 d2))
  | _, [] => Some (From (dec_value 0 d1))
  | _, _ => Some (FromTo (dec_value 0 d1) (dec_value 0 d2))
  end.

Definition all_digits (d : str) : Prop := forallb range_digit d = true.

Definition range_header (d1 d2 : str) : str := range_prefix ++ d1 ++ range_sep :: d2.

(* bytes [first, first+count) of a file *)
Definition slice (content : bytes) (first count : Z) : bytes :=
  firstn (Z.to_nat count) (skipn (Z.to_nat first) content).

Definition expected_decision (sz : Z) (d1 d2 : str) : decision :=
  match spec_of_groups d1 d2 with
  | None => D416 (cr_unsat sz)
  | Some r =>
      match requested_slice sz r with
      | Some (st, n) => D206 st n (cr_sat st n sz)
      | None => D416 (cr_unsat sz)
      end
  end.

(* ---- confinement ---- *)
(* p is a physical location: walking it from "/" meets only ordinary names and never a symbolic link
   (a missing entry is allowed: then nothing can be opened there). *)
Fixpoint phys_from (f : fs) (cur : path) (w : path) : Prop :=
  match w with
  | [] => True
  | s :: w' => normal_seg s = true /\ is_link (child f cur s) = false /\ phys_from f (cur ++ [s]) w'
  end.
Definition Phys (f : fs) (p : path) : Prop := phys_from f [] p.

(* realpath finished without giving up at a symbolic-link loop (for the whole path p from "/") *)
Definition no_loop_met (f : fs) (p : path) : Prop :=
  forall s, joinreal (rfuel f p) f [] [] (map Seg p) <> RP_partial s.

(* f is a tree: whatever is stored below "/" sits in a directory *)
Definition wf_fs (f : fs) : Prop :=
  forall p s n, p <> [] -> lookup f (p ++ [s]) = Some n -> lookup f p = Some NDir.
