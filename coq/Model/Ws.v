(* C12 — executable model of aiohttp/_websocket/reader_py.py WebSocketReader
   (feed_data / _feed_data / _handle_frame), field for field.  Definitions only.

   Encodings:  OP_CODE_NOT_SET (-1) = 16;  COMPRESSED_NOT_SET (-1) = 2, FALSE = 0, TRUE = 1;
   `_frame_mask` None = (0,0,0,0);  `_payload_fragments` = (concatenation, number of entries);
   `_frame_payload_len` is the derived quantity lenN s_frags (checked by the harness after every feed);
   `had_fragments` is Generated.had_fragments on (s_nfrags, lenN s_frags).
   The decompressor (ZLibDecompressor.decompress_sync incl. its carried state) is a Section variable. *)
From AV Require Import Lib.Base Lib.Utf8Valid Generated.WsGen.
Open Scope N_scope.

Inductive werr := WsErr (code : N) | CodecErr.

Inductive msg :=
| MText (b : bytes) | MBinary (b : bytes) | MPing (b : bytes) | MPong (b : bytes)
| MClose (code : N) (reason : bytes).

Record cfg := mkcfg { max_msg_size : N; compress : bool; decode_text : bool }.

(* result of decompress_sync(data, max_length) *)
Inductive dres (Cx : Type) := DOk (out : bytes) (c : Cx) | DTooMany | DErr.
Arguments DOk {Cx}. Arguments DTooMany {Cx}. Arguments DErr {Cx}.

Definition NOT_SET_OP : N := 16.
Definition COMP_NOT_SET : N := 2.

Fixpoint xor_mask (m0 m1 m2 m3 : N) (p : bytes) : bytes :=
  match p with [] => [] | x :: r => N.lxor x m0 :: xor_mask m1 m2 m3 m0 r end.

Fixpoint be_num (acc : N) (l : bytes) : N :=
  match l with [] => acc | b :: r => be_num (acc * 256 + b) r end.

Fixpoint takeN {A} (n : nat) (l : list A) : list A :=
  match n, l with S k, x :: r => x :: takeN k r | _, _ => [] end.
Fixpoint dropN {A} (n : nat) (l : list A) : list A :=
  match n, l with S k, _ :: r => dropN k r | _, _ => l end.

Inductive phase := RH | RL | RM | RP.

Section Reader.
Variable Cx : Type.
Variable decomp : Cx -> bytes -> N -> dres Cx.

(* message-level fields touched by _handle_frame *)
Record mstate := mkm { m_partial : bytes; m_opcode : N; m_cx : Cx }.

Inductive hres := HOk (ev : list msg) (m : mstate) | HErr (e : werr).

Definition perr := HErr (WsErr CODE_PROTOCOL_ERROR).

(* text / binary delivery after assembly (and inflation) *)
Definition deliver (c : cfg) (opcode : N) (merged : bytes) (m : mstate) : hres :=
  if opcode =? OP_TEXT then
    if decode_text c then
      if utf8_valid merged then HOk [MText merged] m else HErr (WsErr CODE_INVALID_TEXT)
    else HOk [MText merged] m
  else HOk [MBinary merged] m.

(* a whole message: inflate if `compressed` (truthy), post-inflate size test, delivery; _partial is cleared *)
Definition complete (c : cfg) (cx : Cx) (opcode mop : N) (assembled : bytes) (compressed : N) : hres :=
  if negb (compressed =? 0) then
    match decomp cx (assembled ++ WS_DEFLATE_TRAILING) (inflate_cap (max_msg_size c)) with
    | DTooMany => HErr (WsErr CODE_MESSAGE_TOO_BIG)
    | DErr => HErr CodecErr
    | DOk out cx' =>
      if inflated_too_big (max_msg_size c) (lenN out) then HErr (WsErr CODE_MESSAGE_TOO_BIG)
      else deliver c opcode out (mkm [] mop cx')
    end
  else deliver c opcode assembled (mkm [] mop cx).

Definition handle_frame (c : cfg) (m : mstate) (fin : bool) (opcode : N) (payload : bytes) (compressed : N) : hres :=
  if (opcode =? OP_TEXT) || (opcode =? OP_BINARY) || (opcode =? OP_CONTINUATION) then
    if cont_not_started opcode (m_opcode m) then perr
    else if data_in_message opcode (m_opcode m) then perr
    else if negb fin then
      HOk [] (mkm (m_partial m ++ payload)
                  (if negb (opcode =? OP_CONTINUATION) then opcode else m_opcode m) (m_cx m))
    else
      (* `assembled = partial + payload if has_partial else payload`: the same bytes; _partial is cleared *)
      let opcode' := if opcode =? OP_CONTINUATION then m_opcode m else opcode in
      let mop' := if opcode =? OP_CONTINUATION then NOT_SET_OP else m_opcode m in
      complete c (m_cx m) opcode' mop' (m_partial m ++ payload) compressed
  else if opcode =? OP_CLOSE then
    match payload with
    | b0 :: b1 :: reason =>                      (* payload_len >= 2 *)
      let code := be_num 0 [b0; b1] in
      if close_code_bad code then perr
      else if utf8_valid reason then HOk [MClose code reason] m
      else HErr (WsErr CODE_INVALID_TEXT)
    | [_] => perr                                (* elif payload: invalid close frame *)
    | [] => HOk [MClose 0 []] m
    end
  else if opcode =? OP_PING then HOk [MPing payload] m
  else if opcode =? OP_PONG then HOk [MPong payload] m
  else perr.

Record rstate := R {
  s_phase : phase;        (* _state *)
  s_tail : bytes;         (* _tail *)
  s_m : mstate;           (* _partial, _opcode, _decompressobj *)
  s_ffin : bool;          (* _frame_fin *)
  s_fop : N;              (* _frame_opcode *)
  s_frags : bytes;        (* b"".join(_payload_fragments) *)
  s_nfrags : N;           (* len(_payload_fragments) *)
  s_hmask : bool;         (* _has_mask *)
  s_mask : N * N * N * N; (* _frame_mask *)
  s_toread : N;           (* _payload_bytes_to_read *)
  s_lflag : N;            (* _payload_len_flag *)
  s_comp : N              (* _compressed *)
}.

Definition set_tail (s : rstate) (t : bytes) : rstate :=
  R (s_phase s) t (s_m s) (s_ffin s) (s_fop s) (s_frags s) (s_nfrags s) (s_hmask s) (s_mask s)
    (s_toread s) (s_lflag s) (s_comp s).

(* outcome of one section of the loop body *)
Inductive pres :=
| PNeed (s : rstate)                          (* `break`: s carries the saved tail *)
| PFail (e : werr)                            (* raise *)
| PGo (s : rstate) (d : bytes)                (* fall through to the next `if self._state == ...` *)
| PDone (ev : list msg) (s : rstate) (d : bytes).  (* frame handled, state READ_HEADER *)

Definition bind (r : pres) (k : rstate -> bytes -> pres) : pres :=
  match r with PGo s d => k s d | _ => r end.

Definition pfail := PFail (WsErr CODE_PROTOCOL_ERROR).

(* if self._state == READ_HEADER: ... *)
Definition ph_header (c : cfg) (s : rstate) (d : bytes) : pres :=
  match s_phase s with
  | RH =>
    match d with
    | b0 :: b1 :: r =>
      let fin := N.testbit b0 7 in
      let rsv1 := N.testbit b0 6 in
      let rsv2 := N.testbit b0 5 in
      let rsv3 := N.testbit b0 4 in
      let opcode := N.land b0 15 in
      if hdr_rsv_bad rsv1 rsv2 rsv3 (compress c) then pfail
      else if hdr_opcode_bad opcode then pfail
      else if hdr_ctl_fragmented opcode fin then pfail
      else
        let has_mask := N.testbit b1 7 in
        let length := N.land b1 127 in
        if hdr_ctl_too_long opcode length then pfail
        else if hdr_is_control opcode then
          if rsv1 then pfail
          else PGo (R RL (s_tail s) (s_m s) (s_ffin s) opcode (s_frags s) (s_nfrags s) has_mask (s_mask s)
                      (s_toread s) length (s_comp s)) r
        else if hdr_first_fragment (s_ffin s) (s_comp s) then
          PGo (R RL (s_tail s) (s_m s) fin opcode (s_frags s) (s_nfrags s) has_mask (s_mask s)
                 (s_toread s) length (if rsv1 then 1 else 0)) r
        else if rsv1 then pfail
        else PGo (R RL (s_tail s) (s_m s) fin opcode (s_frags s) (s_nfrags s) has_mask (s_mask s)
                    (s_toread s) length (s_comp s)) r
    | _ => PNeed (set_tail s d)
    end
  | _ => PGo s d
  end.

(* the size test and the transition out of READ_PAYLOAD_LENGTH, once _payload_bytes_to_read is known *)
Definition after_length (c : cfg) (s : rstate) (to_read : N) (r : bytes) : pres :=
  if size_check_applies (max_msg_size c) (s_fop s)
     && size_reject (Z.of_N to_read) (Z.of_N (max_msg_size c)) (Z.of_N (lenN (m_partial (s_m s))))
  then PFail (WsErr CODE_MESSAGE_TOO_BIG)
  else PGo (R (if s_hmask s then RM else RP) (s_tail s) (s_m s) (s_ffin s) (s_fop s) (s_frags s) (s_nfrags s)
              (s_hmask s) (s_mask s) to_read (s_lflag s) (s_comp s)) r.

(* if self._state == READ_PAYLOAD_LENGTH: ... *)
Definition ph_length (c : cfg) (s : rstate) (d : bytes) : pres :=
  match s_phase s with
  | RL =>
    if s_lflag s =? 126 then
      match d with
      | b0 :: b1 :: r => after_length c s (be_num 0 [b0; b1]) r
      | _ => PNeed (set_tail s d)
      end
    else if 126 <? s_lflag s then
      match d with
      | b0 :: b1 :: b2 :: b3 :: b4 :: b5 :: b6 :: b7 :: r =>
        let frame_len := be_num 0 [b0; b1; b2; b3; b4; b5; b6; b7] in
        if len64_too_big frame_len then PFail (WsErr CODE_MESSAGE_TOO_BIG)
        else after_length c s frame_len r
      | _ => PNeed (set_tail s d)
      end
    else after_length c s (s_lflag s) d
  | _ => PGo s d
  end.

(* if self._state == READ_PAYLOAD_MASK: ... *)
Definition ph_mask (s : rstate) (d : bytes) : pres :=
  match s_phase s with
  | RM =>
    match d with
    | a :: b :: c' :: e :: r =>
      PGo (R RP (s_tail s) (s_m s) (s_ffin s) (s_fop s) (s_frags s) (s_nfrags s) (s_hmask s) (a, b, c', e)
             (s_toread s) (s_lflag s) (s_comp s)) r
    | _ => PNeed (set_tail s d)
    end
  | _ => PGo s d
  end.

Definition unmask (s : rstate) (p : bytes) : bytes :=
  if s_hmask s then let '(a, b, c, e) := s_mask s in xor_mask a b c e p else p.

(* if self._state == READ_PAYLOAD: ... *)
Definition ph_payload (c : cfg) (s : rstate) (d : bytes) : pres :=
  let chunk_len := lenN d in
  if chunk_len <? s_toread s then
    (* incomplete: keep the chunk as one more fragment, everything consumed *)
    PNeed (R RP [] (s_m s) (s_ffin s) (s_fop s) (s_frags s ++ d) (s_nfrags s + 1) (s_hmask s) (s_mask s)
             (s_toread s - chunk_len) (s_lflag s) (s_comp s))
  else
    let k := N.to_nat (s_toread s) in
    let raw := s_frags s ++ takeN k d in
    (* `if had_fragments:` append, join, clear -> 0 entries; else the list was empty and stays so.  When the list
       is empty its concatenation s_frags is [] (representation: s_frags/s_nfrags describe one list), so
       s_frags ++ slice is the payload in both branches. *)
    let nfr := if had_fragments (s_nfrags s) (lenN (s_frags s)) then 0 else s_nfrags s in
    match handle_frame c (s_m s) (s_ffin s) (s_fop s) (unmask s raw) (s_comp s) with
    | HErr e => PFail e
    | HOk ev m' =>
      PDone ev (R RH [] m' (s_ffin s) (s_fop s) [] nfr (s_hmask s) (s_mask s) 0 (s_lflag s) (s_comp s))
            (dropN k d)
    end.

(* one pass through the body of `while True:` *)
Definition iter (c : cfg) (s : rstate) (d : bytes) : pres :=
  bind (ph_header c s d) (fun s1 d1 =>
  bind (ph_length c s1 d1) (fun s2 d2 =>
  bind (ph_mask s2 d2) (fun s3 d3 => ph_payload c s3 d3))).

Inductive reader := Live (s : rstate) | Latched (e : werr) | Fuel.

Fixpoint loop (c : cfg) (fuel : nat) (s : rstate) (d : bytes) (acc : list msg) : list msg * reader :=
  match fuel with
  | O => (acc, Fuel)
  | S f =>
    match iter c s d with
    | PNeed s' => (acc, Live s')
    | PFail e => (acc, Latched e)
    | PDone ev s' d' => loop c f s' d' (acc ++ ev)
    | PGo _ _ => (acc, Fuel)   (* not produced by iter: ph_payload never returns PGo *)
    end
  end.

(* feed_data: (messages put on the queue by this call, reader afterwards) *)
Definition feed (c : cfg) (rd : reader) (data : bytes) : list msg * reader :=
  match rd with
  | Live s => loop c (S (S (length (s_tail s ++ data)))) (set_tail s []) (s_tail s ++ data) []
  | Latched e => ([], Latched e)
  | Fuel => ([], Fuel)
  end.

Definition init_state (cx0 : Cx) : rstate :=
  R RH [] (mkm [] NOT_SET_OP cx0) false NOT_SET_OP [] 0 false (0, 0, 0, 0) 0 0 COMP_NOT_SET.

Fixpoint feed_all (c : cfg) (rd : reader) (segs : list bytes) : list msg * reader :=
  match segs with
  | [] => ([], rd)
  | d :: rest =>
    let '(e1, rd1) := feed c rd d in
    let '(e2, rd2) := feed_all c rd1 rest in
    (e1 ++ e2, rd2)
  end.

(* ---- WebSocketDataQueue as the application sees it: feed_data appends, set_exception stores the error without
   touching the buffer, _read_from_buffer (what `await queue.read()` returns when it does not have to wait) hands out
   buffered messages first and raises the stored exception only once the buffer is empty. *)
Record wsqueue := mkq { q_buf : list msg; q_exc : option werr }.
Definition q0 : wsqueue := mkq [] None.

Inductive qres := QMsg (m : msg) (q : wsqueue) | QErr (e : werr) | QWait.

Definition q_read (q : wsqueue) : qres :=
  match q_buf q with
  | m :: r => QMsg m (mkq r (q_exc q))
  | [] => match q_exc q with Some e => QErr e | None => QWait end
  end.

(* one network read followed by what feed_data does to the queue *)
Definition q_after_feed (q : wsqueue) (evs : list msg) (rd' : reader) : wsqueue :=
  mkq (q_buf q ++ evs) (match rd' with Latched e => Some e | _ => q_exc q end).

(* an application: any interleaving of network reads and (non-blocking) queue reads *)
Inductive appop := OFeed (d : bytes) | ORead.

Record appstate := mka { a_rd : reader; a_q : wsqueue; a_got : list msg; a_err : option werr }.

Definition app_step (c : cfg) (a : appstate) (o : appop) : appstate :=
  match o with
  | OFeed d => let '(evs, rd') := feed c (a_rd a) d in mka rd' (q_after_feed (a_q a) evs rd') (a_got a) (a_err a)
  | ORead =>
    match q_read (a_q a) with
    | QMsg m q' => mka (a_rd a) q' (a_got a ++ [m]) (a_err a)
    | QErr e => mka (a_rd a) (a_q a) (a_got a) (Some e)
    | QWait => a
    end
  end.

Definition app_run (c : cfg) (a : appstate) (ops : list appop) : appstate := fold_left (app_step c) ops a.

Fixpoint feeds_of (ops : list appop) : list bytes :=
  match ops with [] => [] | OFeed d :: r => d :: feeds_of r | ORead :: r => feeds_of r end.

(* everything the application has read plus everything it can still read without waiting, and the error it then gets *)
Definition app_observe (a : appstate) : list msg * option werr := (a_got a ++ q_buf (a_q a), q_exc (a_q a)).

(* bytes retained between calls for the frame / message in progress *)
Definition retained (s : rstate) : N := lenN (m_partial (s_m s)) + lenN (s_frags s) + lenN (s_tail s).

(* `pause_reading()` is requested at the end of a call that stops inside a payload *)
Definition wants_pause (c : cfg) (s : rstate) : bool :=
  match s_phase s with
  | RP => negb (max_fragments (max_msg_size c) =? 0) && (max_fragments (max_msg_size c) <? s_nfrags s)
  | _ => false
  end.

End Reader.

Arguments mkm {Cx}. Arguments m_partial {Cx}. Arguments m_opcode {Cx}. Arguments m_cx {Cx}.
Arguments HOk {Cx}. Arguments HErr {Cx}.
Arguments R {Cx}. Arguments s_phase {Cx}. Arguments s_tail {Cx}. Arguments s_m {Cx}. Arguments s_ffin {Cx}.
Arguments s_fop {Cx}. Arguments s_frags {Cx}. Arguments s_nfrags {Cx}. Arguments s_hmask {Cx}.
Arguments s_mask {Cx}. Arguments s_toread {Cx}. Arguments s_lflag {Cx}. Arguments s_comp {Cx}.
Arguments PNeed {Cx}. Arguments PFail {Cx}. Arguments PGo {Cx}. Arguments PDone {Cx}.
Arguments Live {Cx}. Arguments Latched {Cx}. Arguments Fuel {Cx}.
Arguments mka {Cx}. Arguments a_rd {Cx}. Arguments a_q {Cx}. Arguments a_got {Cx}. Arguments a_err {Cx}.

(* ---------------------------------------------------------------------------------------------
   Toy codec (instantiates the Section so that every theorem is non-vacuous and the model runs).
   The harness plugs the same codec into aiohttp through compression_utils.set_zlib_backend.
   Input bytes, read one at a time:
     no count pending:  0xff = no-op marker, 0xfe = corrupt stream, 0xfd = "too many members",
                        anything else = a repeat count n;
     count n pending:   byte d:  a := (a + d) mod 256;  emit n copies of a.
   Output is cut at max_length (0 = unlimited): the copies that did not fit stay owed (t_rem), the
   unread input is the unconsumed tail, both carried to the next call. *)
Record toycx := mkt { t_a : N; t_pend : option N; t_rem : N; t_tail : bytes }.
Definition toy0 : toycx := mkt 0 None 0 [].

Definition room (cap produced : N) : option N :=   (* None = unlimited *)
  if cap =? 0 then None else Some (cap - produced).

Definition fits (cap produced want : N) : N :=
  match room cap produced with None => want | Some r => N.min want r end.

Fixpoint toy_run (cap : N) (a : N) (pend : option N) (inp : bytes) (out : bytes) : dres toycx :=
  match inp with
  | [] => DOk out (mkt a pend 0 [])
  | b :: r =>
    if negb (cap =? 0) && (cap <=? lenN out) then DOk out (mkt a pend 0 inp)
    else match pend with
    | None =>
      if b =? 255 then toy_run cap a None r out
      else if b =? 254 then DErr
      else if b =? 253 then DTooMany
      else toy_run cap a (Some b) r out
    | Some n =>
      let a' := (a + b) mod 256 in
      let k := fits cap (lenN out) n in
      if k <? n then DOk (out ++ repeat a' (N.to_nat k)) (mkt a' None (n - k) r)
      else toy_run cap a' None r (out ++ repeat a' (N.to_nat n))
    end
  end.

Definition toy_decomp (cx : toycx) (data : bytes) (cap : N) : dres toycx :=
  let k := fits cap 0 (t_rem cx) in
  let out0 := repeat (t_a cx) (N.to_nat k) in
  if k <? t_rem cx then DOk out0 (mkt (t_a cx) (t_pend cx) (t_rem cx - k) (t_tail cx ++ data))
  else toy_run cap (t_a cx) (t_pend cx) (t_tail cx ++ data) out0.
