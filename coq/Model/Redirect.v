(* C17 — executable model of the redirect loop of aiohttp.client.ClientSession._request.
   Definitions only.  One loop iteration = [prep] (strip URL credentials, select cookies, build
   the request that is sent) followed, once the response is known, by [after] (jar update,
   redirect decision, counter, method/body table, Location handling, origin comparison).
   The server side is a list of responses: the i-th request made is answered by the i-th
   response, so "for all response lists" covers every (adaptive) set of origin servers.

   Data-like parts come from Generated/RedirectGen.v (regenerated from client.py/helpers.py):
   follow_redirect, too_many_redirects, switch_to_get, scheme_allowed. *)
From AV Require Import Lib.Base Generated.RedirectGen.
Open Scope N_scope.

(* ---- URLs and origins ------------------------------------------------------------------ *)

(* An origin as yarl's URL.origin() compares it: scheme, host, and the port AS WRITTEN
   (http://h:80 and http://h are different origins for `!=`; the code then drops the
   credentials although the destination is the same — the conservative direction). *)
Record origin := { o_sch : N; o_host : N; o_port : option N }.

Definition optN_eqb (a b : option N) : bool :=
  match a, b with
  | None, None => true
  | Some x, Some y => x =? y
  | _, _ => false
  end.

Definition origin_eqb (a b : origin) : bool :=
  (o_sch a =? o_sch b) && (o_host a =? o_host b) && optN_eqb (o_port a) (o_port b).

Definition default_port (sch : N) : N := if sch =? 1 then 443 else 80.

(* where the connection really goes *)
Definition dest (o : origin) : N * N * N :=
  (o_sch o, o_host o, match o_port o with Some p => p | None => default_port (o_sch o) end).

Record url := { u_org : origin; u_cred : option N; u_path : N }.

(* ---- requests -------------------------------------------------------------------------- *)

Inductive meth := MGet | MHead | MPost | MPut | MDelete | MPatch | MOptions | MOther (n : N).

Definition is_head (m : meth) : bool := match m with MHead => true | _ => false end.
Definition is_post (m : meth) : bool := match m with MPost => true | _ => false end.
Definition is_get (m : meth) : bool := match m with MGet => true | _ => false end.

(* request body: none / replayable (bytes, seekable file, form) / one-shot (async generator,
   non-seekable stream: `payload.consumed` is True once it has been written) *)
Inductive body := BNone | BReplay (id : N) | BOnce (id : N).

Definition consumed_after_send (b : body) : bool := match b with BOnce _ => true | _ => false end.

(* value of the Authorization header in the loop's `headers`: supplied by the caller, or
   derived from credentials embedded in a URL *)
Inductive authv := ACaller (t : N) | AUrl (t : N).

Definition ck := (N * N)%type.        (* cookie name, value *)

(* cookie jar, reduced to what the redirect loop needs: host-only cookies (host, name, value, path
   scope).  A scope `Some p` is a cookie whose Path attribute is exactly the path p (it is selected
   only for requests to that path); `None` is Path=/.  Scoping proper is C16's subject; the path
   scope is here because it makes the selection differ between two hops on the SAME origin. *)
Definition jent := (N * N * N * option N)%type.
Definition jar := list jent.
Definition je_host (e : jent) : N := fst (fst (fst e)).
Definition je_name (e : jent) : N := snd (fst (fst e)).
Definition je_val (e : jent) : N := snd (fst e).
Definition je_scope (e : jent) : option N := snd e.

(* Set-Cookie without attributes from a response of host h: replaces the (h, name) entry *)
Fixpoint jar_set (j : jar) (h n v : N) : jar :=
  match j with
  | [] => [(h, n, v, None)]
  | e :: j' =>
      if (h =? je_host e) && (n =? je_name e) then (h, n, v, None) :: j' else e :: jar_set j' h n v
  end.

Definition jar_update (j : jar) (h : N) (cks : list ck) : jar :=
  fold_left (fun j p => jar_set j h (fst p) (snd p)) cks j.

Definition scope_matches (sc : option N) (path : N) : bool :=
  match sc with None => true | Some p => p =? path end.

Definition jar_filter (j : jar) (h path : N) : list ck :=
  map (fun e => (je_name e, je_val e)) (filter (fun e => (je_host e =? h) && scope_matches (je_scope e) path) j).

(* what the caller passes to session.request(...) *)
Record request := {
  q_meth : meth;
  q_url : url;
  q_auth : option N;               (* Authorization header *)
  q_cookie : option (list ck);     (* Cookie header *)
  q_pauth : option N;              (* Proxy-Authorization header *)
  q_reqck : option (list ck);      (* cookies= argument *)
  q_body : body;
  q_clen : bool;                   (* caller supplied a Content-Length header *)
  q_jar : jar                      (* session cookie jar before the call *)
}.

Record config := { c_max : Z; c_allow : bool }.

(* one request as handed to the connection (what the origin server receives) *)
Record sent := {
  s_org : origin;
  s_path : N;
  s_urlcred : option N;            (* credentials embedded in this hop's URL (stripped, not sent in the target) *)
  s_meth : meth;
  s_auth : option authv;
  s_hdrcookie : option (list ck);  (* caller's Cookie header, still in `headers` *)
  s_pauth : option N;
  s_reqck : option (list ck);      (* per-request cookies still in force *)
  s_jar : list ck;                 (* jar cookies selected for this hop's URL *)
  s_body : body;
  s_clen : bool
}.

Fixpoint ck_mem (n : N) (l : list ck) : bool :=
  match l with [] => false | p :: l' => (fst p =? n) || ck_mem n l' end.

(* [over] wins over [base] by cookie name *)
Definition override (base over : list ck) : list ck :=
  over ++ filter (fun p => negb (ck_mem (fst p) over)) base.

Definition optl {A} (o : option (list A)) : list A := match o with Some l => l | None => [] end.

(* the pairs in the Cookie header line that goes on the wire: header < jar < per-request *)
Definition cookie_pairs (s : sent) : list ck :=
  override (override (optl (s_hdrcookie s)) (s_jar s)) (optl (s_reqck s)).

(* ---- responses ------------------------------------------------------------------------- *)

Inductive location :=
| LNone                                  (* no (or empty) Location / URI header *)
| LInvalid                               (* yarl refuses the string *)
| LNoHost                                (* http(s) scheme but origin() raises (no authority) *)
| LAbs (u : url)                         (* has a scheme (any code) and an authority *)
| LRel (path : N)                        (* no scheme, no authority *)
| LSchemeRel (host : N) (port : option N) (path : N).

(* rs_unsent: the response arrived before any byte of the request body had been written (the
   client was waiting for `100 Continue`), so a one-shot body is still unconsumed *)
Record response := { rs_status : N; rs_setcookie : list ck; rs_loc : location; rs_unsent : bool }.

(* ---- loop state ------------------------------------------------------------------------ *)

Definition hent := (N * origin * N)%type.     (* history entry: status, origin and path of the request *)

Record rstate := {
  r_url : url;
  r_auth : option authv;
  r_cookie : option (list ck);
  r_pauth : option N;
  r_reqck : option (list ck);
  r_meth : meth;
  r_body : body;
  r_clen : bool;
  r_redirects : Z;
  r_history : list hent;
  r_jar : jar
}.

Inductive err :=
| EAuthConflict            (* ValueError: Authorization header + credentials in the initial URL *)
| ETooManyRedirects
| EPayloadConsumed         (* ClientPayloadError *)
| EInvalidRedirect         (* InvalidUrlRedirectClientError *)
| ENonHttpRedirect.        (* NonHttpUrlRedirectClientError *)

(* what became of a response object *)
Inductive disp := DReleased | DClosed | DReturned.

Inductive outcome :=
| Done (status : N) (history : list hent)
| Failed (e : err) (history : list hent)
| Pending.                                   (* the response list ran out while a request was in flight *)

Definition init (q : request) : rstate :=
  {| r_url := q_url q;
     r_auth := match q_auth q with Some t => Some (ACaller t) | None => None end;
     r_cookie := q_cookie q; r_pauth := q_pauth q; r_reqck := q_reqck q;
     r_meth := q_meth q; r_body := q_body q; r_clen := q_clen q;
     r_redirects := 0%Z; r_history := []; r_jar := q_jar q |}.

(* top of the `while True:` body up to the request being sent *)

(* `not history and hdrs.AUTHORIZATION in headers` while the URL embeds credentials *)
Definition conflict (st : rstate) : bool :=
  match u_cred (r_url st), r_auth st, r_history st with
  | Some _, Some _, [] => true
  | _, _, _ => false
  end.

(* Authorization after `strip_auth_from_url`: URL credentials override what `headers` holds *)
Definition auth_for (st : rstate) : option authv :=
  match u_cred (r_url st) with Some t => Some (AUrl t) | None => r_auth st end.

Definition sent_of (st : rstate) : sent :=
  let u := r_url st in
  {| s_org := u_org u; s_path := u_path u; s_urlcred := u_cred u; s_meth := r_meth st;
     s_auth := auth_for st; s_hdrcookie := r_cookie st; s_pauth := r_pauth st; s_reqck := r_reqck st;
     s_jar := jar_filter (r_jar st) (o_host (u_org u)) (u_path u); s_body := r_body st; s_clen := r_clen st |}.

(* loop variables after the request has been built: URL stripped, Authorization stored in `headers` *)
Definition stripped (st : rstate) : rstate :=
  let u := r_url st in
  {| r_url := {| u_org := u_org u; u_cred := None; u_path := u_path u |};
     r_auth := auth_for st; r_cookie := r_cookie st; r_pauth := r_pauth st; r_reqck := r_reqck st;
     r_meth := r_meth st; r_body := r_body st; r_clen := r_clen st;
     r_redirects := r_redirects st; r_history := r_history st; r_jar := r_jar st |}.

Definition prep (st : rstate) : err + (rstate * sent) :=
  if conflict st then inl EAuthConflict else inr (stripped st, sent_of st).

Inductive step_result :=
| Stop (o : outcome) (d : disp)
| Next (st : rstate) (d : disp).

(* target of a Location that passed parsing and the scheme test, resolved against the current URL *)
Definition resolve (cur : origin) (l : location) : err + option url :=
  match l with
  | LNone => inr None
  | LInvalid => inl EInvalidRedirect
  | LNoHost => inl EInvalidRedirect
  | LAbs u => if scheme_allowed (o_sch (u_org u)) then inr (Some u) else inl ENonHttpRedirect
  | LRel p => inr (Some {| u_org := cur; u_cred := None; u_path := p |})
  | LSchemeRel h po p =>
      inr (Some {| u_org := {| o_sch := o_sch cur; o_host := h; o_port := po |}; u_cred := None; u_path := p |})
  end.

Definition toget_of (s : sent) (r : response) : bool :=
  switch_to_get (rs_status r) (is_head (s_meth s)) (is_post (s_meth s)) (is_get (s_meth s)).

Definition hist_add (st : rstate) (s : sent) (r : response) : list hent :=
  r_history st ++ [(rs_status r, s_org s, s_path s)].

(* loop variables at `continue` *)
Definition next_state (st : rstate) (s : sent) (r : response) (target : url) : rstate :=
  let keep := origin_eqb (s_org s) (u_org target) in
  let toget := toget_of s r in
  {| r_url := target;
     r_auth := if keep then r_auth st else None;
     r_cookie := if keep then r_cookie st else None;
     r_pauth := if keep then r_pauth st else None;
     r_reqck := if keep then r_reqck st else None;
     r_meth := if toget then MGet else s_meth s;
     r_body := if toget then BNone else s_body s;
     r_clen := if toget then false else r_clen st;
     r_redirects := (r_redirects st + 1)%Z;
     r_history := hist_add st s r;
     r_jar := jar_update (r_jar st) (o_host (s_org s)) (rs_setcookie r) |}.

(* from the response having arrived to `continue` / `break` / raise *)
Definition after (c : config) (st : rstate) (s : sent) (r : response) : step_result :=
  if follow_redirect (rs_status r) (c_allow c) then
    if too_many_redirects (r_redirects st + 1)%Z (c_max c) then Stop (Failed ETooManyRedirects (hist_add st s r)) DClosed
    else if negb (toget_of s r) && consumed_after_send (s_body s) && negb (rs_unsent r) then Stop (Failed EPayloadConsumed (hist_add st s r)) DClosed
    else
      match resolve (s_org s) (rs_loc r) with
      | inl e => Stop (Failed e (hist_add st s r)) DClosed
      | inr None => Stop (Done (rs_status r) (hist_add st s r)) DReturned     (* 3xx without Location: returned as is *)
      | inr (Some target) => Next (next_state st s r target) DReleased
      end
  else Stop (Done (rs_status r) (r_history st)) DReturned.

Record trace := { sents : list sent; disps : list disp; result : outcome }.

Fixpoint run_from (c : config) (st : rstate) (resps : list response) : trace :=
  match prep st with
  | inl e => {| sents := []; disps := []; result := Failed e (r_history st) |}
  | inr (st1, s) =>
      match resps with
      | [] => {| sents := [s]; disps := []; result := Pending |}
      | r :: rest =>
          match after c st1 s r with
          | Stop o d => {| sents := [s]; disps := [d]; result := o |}
          | Next st2 d =>
              {| sents := s :: sents (run_from c st2 rest); disps := d :: disps (run_from c st2 rest);
                 result := result (run_from c st2 rest) |}
          end
      end
  end.

Definition run (c : config) (q : request) (resps : list response) : trace := run_from c (init q) resps.

(* ---- vocabulary of the property statements ----------------------------------------------- *)

(* the request carries something the caller supplied as a credential *)
Definition carries_caller_secret (s : sent) : Prop :=
  (exists t, s_auth s = Some (ACaller t)) \/ s_hdrcookie s <> None \/ s_pauth s <> None \/ s_reqck s <> None.

Definition carries_caller_secretb (s : sent) : bool :=
  match s_auth s with Some (ACaller _) => true | _ => false end
  || match s_hdrcookie s with Some _ => true | None => false end
  || match s_pauth s with Some _ => true | None => false end
  || match s_reqck s with Some _ => true | None => false end.

(* the documented method/body table *)
Definition doc_switch_to_get (status : N) (m : meth) : bool :=
  if status =? 303 then negb (is_head m)
  else if (status =? 301) || (status =? 302) then is_post m
  else false.

Definition http_scheme (s : N) : bool := (s =? 0) || (s =? 1).

(* jar state seen by hop i: the initial jar updated by the Set-Cookie of responses 0..i-1 *)
Fixpoint jar_after (j : jar) (ss : list sent) (rs : list response) (i : nat) : jar :=
  match i, ss, rs with
  | S i', s :: ss', r :: rs' => jar_after (jar_update j (o_host (s_org s)) (rs_setcookie r)) ss' rs' i'
  | _, _, _ => j
  end.

Fixpoint hist_of (ss : list sent) (rs : list response) : list hent :=
  match ss, rs with
  | s :: ss', r :: rs' => (rs_status r, s_org s, s_path s) :: hist_of ss' rs'
  | _, _ => []
  end.

(* a Location the loop must not follow *)
Definition refused_location (l : location) : Prop :=
  l = LNone \/ l = LInvalid \/ l = LNoHost \/ exists u, l = LAbs u /\ http_scheme (o_sch (u_org u)) = false.

(* ---- concrete values used by the Examples of Props/C17.v (non-vacuity) ---------------------- *)

Definition ex_A : origin := {| o_sch := 0; o_host := 0; o_port := None |}.
Definition ex_B : origin := {| o_sch := 0; o_host := 1; o_port := None |}.
Definition ex_q : request :=
  {| q_meth := MPost; q_url := {| u_org := ex_A; u_cred := None; u_path := 0 |};
     q_auth := Some 1; q_cookie := Some [(1, 101)]; q_pauth := Some 2; q_reqck := Some [(2, 201)];
     q_body := BReplay 1; q_clen := false; q_jar := [(0, 3, 301, None); (1, 4, 302, None); (0, 8, 308, Some 1)] |}.
Definition ex_c : config := {| c_max := 10; c_allow := true |}.
(* A -307-> A/p1 -302-> u7:p7@B/p2 -301-> A/p3 -> 200 *)
Definition ex_resps : list response :=
  [ {| rs_status := 307; rs_setcookie := [(5, 401)]; rs_loc := LRel 1; rs_unsent := false |};
    {| rs_status := 302; rs_setcookie := []; rs_loc := LAbs {| u_org := ex_B; u_cred := Some 7; u_path := 2 |}; rs_unsent := false |};
    {| rs_status := 301; rs_setcookie := []; rs_loc := LAbs {| u_org := ex_A; u_cred := None; u_path := 3 |}; rs_unsent := false |};
    {| rs_status := 200; rs_setcookie := []; rs_loc := LNone; rs_unsent := false |} ].

