(* C02, response direction, decisions only (no bytes): which framing and Connection header
   StreamResponse._prepare_headers chooses, whether web_protocol keeps the connection open afterwards,
   and what HttpResponseParser / ResponseHandler conclude from that head: close or reuse, and whether the
   body is delimited by the end of the connection.  Definitions only.
   StreamResponse semantics: p_length is the Content-Length header set by the handler (None = no length). *)
From AV Require Import Lib.Base Generated.WireGen.
Open Scope N_scope.

Record sctx := mkCtx { q_v11 : bool; q_keep_alive : bool (* request.keep_alive *); q_head : bool (* method == HEAD *) }.
Record sresp := mkResp {
  p_status : N; p_length : option N; p_chunked : bool (* enable_chunked_encoding() *);
  p_force_close : bool (* resp.force_close() *) }.

Inductive conn_hdr := CNone | CClose | CKeepAlive.
Record rhead := mkHead { h_v11 : bool; h_status : N; h_cl : option N; h_te : bool; h_conn : conn_hdr }.

(* SRefused = RuntimeError from prepare() (chunked encoding on HTTP/1.0): the server answers 500 instead *)
Inductive sres := SRefused | SHead (h : rhead) (keeps_open : bool).

Definition must_be_empty (c : sctx) (r : sresp) : bool := empty_body_status (p_status r) || q_head c.

Definition server_prepare (c : sctx) (r : sresp) : sres :=
  (* keep_alive = self._keep_alive if set (force_close) else request.keep_alive; stored in self._keep_alive *)
  let ka := if p_force_close r then false else q_keep_alive c in
  let mbe := must_be_empty c r in
  if p_chunked r && negb (q_v11 c) then SRefused else
  let '(te, ka_local, stored) :=
    if p_chunked r then (negb mbe, ka, ka)
    else match p_length r with
         | Some _ => (false, ka, ka)
         | None =>
           if q_v11 c then (negb mbe, ka, ka)
           else if mbe then (false, ka, ka)
           else (* HTTP/1.0, a body, no length: `keep_alive = False` *)
             (false, false, if h10_nolength_clears_stored_keepalive then false else ka)
         end in
  let cl :=
    if p_chunked r then None
    else match p_length r with
         | Some n => if empty_body_status (p_status r) then None else Some n
         | None => None
         end in
  let conn := if ka_local then (if q_v11 c then CNone else CKeepAlive)
              else (if q_v11 c then CClose else CNone) in
  SHead (mkHead (q_v11 c) (p_status r) cl te conn) stored.

(* HttpResponseParser.parse_message: message.should_close *)
Definition client_close (h : rhead) : bool :=
  match h_conn h with
  | CClose => true
  | CKeepAlive => false
  | CNone =>
    if negb (h_v11 h) then true
    else if empty_body_status (h_status h) then false
    else match h_cl h with Some _ => false | None => negb (h_te h) end
  end.

(* feed_data with read_until_eof=True (ClientSession default): the payload ends when the connection does *)
Definition client_waits_eof (head_request : bool) (h : rhead) : bool :=
  negb (empty_body_status (h_status h) || head_request) && negb (h_te h) &&
  match h_cl h with None => true | Some _ => false end.

(* the excluded family: HTTP/1.0, connection to be kept, a body, no length *)
Definition h10_close_delimited_kept (c : sctx) (r : sresp) : bool :=
  negb (q_v11 c) && q_keep_alive c && negb (p_force_close r) && negb (p_chunked r) &&
  match p_length r with None => true | Some _ => false end && negb (must_be_empty c r).
