(* C12 — whole-stream reference decoder for RFC 6455 (framing, fragmentation, control frames, close
   payloads, UTF-8) and RFC 7692 (per-message deflate: RSV1 on the first fragment only, 00 00 ff ff
   appended before inflating).  No resumable state: a frame is parsed from the bytes that are there,
   a violation is reported as soon as the bytes seen so far determine it, and an incomplete last frame
   is `Pending`.  Definitions only.

   The decoder is parameterised by a `profile` (the size comparisons and the close-code table): `rfc_profile` is
   written by hand from the RFCs and the documented meaning of max_msg_size (a message may be as large as
   max_msg_size); `aiohttp_profile` is what the code compares with (Generated/WsGen.v).  Proofs/WsRefine.v shows
   that they coincide, so the refinement theorem is stated for rfc_profile. *)
From AV Require Import Lib.Base Lib.Utf8Valid Generated.WsGen Model.Ws.
Open Scope N_scope.

Record profile := mkprofile {
  wire_too_big : N -> N -> bool;   (* max_msg_size -> payload bytes of the message so far incl. this frame *)
  msg_too_big : N -> N -> bool;    (* max_msg_size -> size of the inflated message *)
  close_ok : N -> bool             (* status code acceptable in a Close frame *)
}.

(* RFC 6455 7.4.1/7.4.2 + IANA registry: 1000-1003, 1007-1014 may appear on the wire; 1004-1006, 1015 and
   1016-2999 may not; 3000-4999 are for libraries/applications; 0-999 and >= 5000 are not used. *)
Definition rfc_close_ok (c : N) : bool :=
  ((1000 <=? c) && (c <=? 1003)) || ((1007 <=? c) && (c <=? 1014)) || ((3000 <=? c) && (c <=? 4999)).

Definition rfc_profile : profile :=
  mkprofile (fun mx n => negb (mx =? 0) && (mx <? n)) (fun mx n => negb (mx =? 0) && (mx <? n)) rfc_close_ok.

Definition aiohttp_profile : profile :=
  mkprofile (fun mx n => negb (mx =? 0) && size_reject (Z.of_N n) (Z.of_N mx) 0)
            inflated_too_big (fun c => negb (close_code_bad c)).

Inductive vclass :=
| VRsv | VOpcode | VCtlFragmented | VCtlTooLong | VLen64 | VTooBig | VContNoMessage | VDataInMessage
| VUtf8 | VCloseCode | VCloseLen | VCodec | VTooManyMembers.

Inductive outcome := Pending | Violation (e : werr) (cls : vclass) | SpecFuel.

Record header := mkh { h_fin : bool; h_rsv1 : bool; h_rsv2 : bool; h_rsv3 : bool; h_op : N;
                       h_masked : bool; h_len7 : N }.

Definition parse_header (b0 b1 : N) : header :=
  mkh (N.testbit b0 7) (N.testbit b0 6) (N.testbit b0 5) (N.testbit b0 4) (N.land b0 15)
      (N.testbit b1 7) (N.land b1 127).

Definition is_control (op : N) : bool := 8 <=? op.
Definition is_data (op : N) : bool := (op =? 0) || (op =? 1) || (op =? 2).
Definition known_opcode (op : N) : bool := is_data op || (op =? 8) || (op =? 9) || (op =? 10).

Section Spec.
Variable Cx : Type.
Variable decomp : Cx -> bytes -> N -> dres Cx.

(* message in progress: (opcode of its first frame, compressed?), payload collected so far *)
Record sstate := mks { sp_cur : option (N * bool); sp_acc : bytes; sp_cx : Cx }.

Definition in_progress (st : sstate) : bool := match sp_cur st with Some _ => true | None => false end.

(* RFC 6455 5.2 / 5.4 / 5.5, RFC 7692 6: what the first two bytes alone decide *)
Definition check_header (c : cfg) (st : sstate) (h : header) : option vclass :=
  if h_rsv2 h || h_rsv3 h then Some VRsv
  else if h_rsv1 h && negb (compress c) then Some VRsv
  else if negb (known_opcode (h_op h)) then Some VOpcode
  else if is_control (h_op h) then
    if negb (h_fin h) then Some VCtlFragmented
    else if 125 <? h_len7 h then Some VCtlTooLong
    else if h_rsv1 h then Some VRsv
    else None
  else if h_rsv1 h && in_progress st then Some VRsv     (* RSV1 only on the first frame of a message *)
  else None.

(* extended payload length: None = more bytes needed *)
Definition ext_len (len7 : N) (s : bytes) : option (N * bytes) :=
  if len7 <? 126 then Some (len7, s)
  else if len7 =? 126 then
    match s with b0 :: b1 :: r => Some (be_num 0 [b0; b1], r) | _ => None end
  else
    match s with
    | b0 :: b1 :: b2 :: b3 :: b4 :: b5 :: b6 :: b7 :: r => Some (be_num 0 [b0; b1; b2; b3; b4; b5; b6; b7], r)
    | _ => None
    end.

Definition mask_key (masked : bool) (s : bytes) : option (option (N * N * N * N) * bytes) :=
  if masked then
    match s with a :: b :: c :: e :: r => Some (Some (a, b, c, e), r) | _ => None end
  else Some (None, s).

Definition apply_mask (k : option (N * N * N * N)) (p : bytes) : bytes :=
  match k with Some (a, b, c, e) => xor_mask a b c e p | None => p end.

Inductive fres :=
| FNeed
| FViol (e : werr) (cls : vclass)
| FNext (ev : list msg) (st : sstate) (rest : bytes).

Definition viol1002 (cls : vclass) := FViol (WsErr 1002) cls.

(* a complete message: inflate if it was compressed, check the size, validate text *)
Definition finish (p : profile) (c : cfg) (st : sstate) (op : N) (compressed : bool) (data : bytes) (rest : bytes) : fres :=
  let idle cx := mks None [] cx in
  let emit merged cx :=
    if op =? 1 then
      if decode_text c && negb (utf8_valid merged) then FViol (WsErr 1007) VUtf8
      else FNext [MText merged] (idle cx) rest
    else FNext [MBinary merged] (idle cx) rest in
  if compressed then
    match decomp (sp_cx st) (data ++ [0; 0; 255; 255]) (if max_msg_size c =? 0 then 0 else max_msg_size c + 1) with
    | DTooMany => FViol (WsErr 1009) VTooManyMembers
    | DErr => FViol CodecErr VCodec
    | DOk out cx' =>
      if msg_too_big p (max_msg_size c) (lenN out) then FViol (WsErr 1009) VTooBig else emit out cx'
    end
  else emit data (sp_cx st).

Definition control_frame (p : profile) (st : sstate) (op : N) (payload : bytes) (rest : bytes) : fres :=
  if op =? 9 then FNext [MPing payload] st rest
  else if op =? 10 then FNext [MPong payload] st rest
  else (* close, RFC 6455 5.5.1 / 7.4 *)
    match payload with
    | [] => FNext [MClose 0 []] st rest
    | [_] => viol1002 VCloseLen
    | b0 :: b1 :: reason =>
      let code := b0 * 256 + b1 in
      if negb (close_ok p code) then viol1002 VCloseCode
      else if negb (utf8_valid reason) then FViol (WsErr 1007) VUtf8
      else FNext [MClose code reason] st rest
    end.

Definition data_frame (p : profile) (c : cfg) (st : sstate) (h : header) (payload : bytes) (rest : bytes) : fres :=
  if h_op h =? 0 then
    match sp_cur st with
    | None => viol1002 VContNoMessage
    | Some (op, cmp) =>
      if h_fin h then finish p c st op cmp (sp_acc st ++ payload) rest
      else FNext [] (mks (Some (op, cmp)) (sp_acc st ++ payload) (sp_cx st)) rest
    end
  else
    match sp_cur st with
    | Some _ => viol1002 VDataInMessage               (* RFC 6455 5.4: fragments must not be interleaved *)
    | None =>
      if h_fin h then finish p c st (h_op h) (h_rsv1 h) payload rest
      else FNext [] (mks (Some (h_op h, h_rsv1 h)) payload (sp_cx st)) rest
    end.

Definition spec_frame (p : profile) (c : cfg) (st : sstate) (s : bytes) : fres :=
  match s with
  | b0 :: b1 :: s1 =>
    let h := parse_header b0 b1 in
    match check_header c st h with
    | Some cls => viol1002 cls
    | None =>
      match ext_len (h_len7 h) s1 with
      | None => FNeed
      | Some (len, s2) =>
        if (h_len7 h =? 127) && (9223372036854775807 <? len) then FViol (WsErr 1009) VLen64
        else if is_data (h_op h) && wire_too_big p (max_msg_size c) (len + lenN (sp_acc st))
        then FViol (WsErr 1009) VTooBig
        else
          match mask_key (h_masked h) s2 with
          | None => FNeed
          | Some (key, s3) =>
            if lenN s3 <? len then FNeed
            else
              let payload := apply_mask key (takeN (N.to_nat len) s3) in
              let rest := dropN (N.to_nat len) s3 in
              if is_control (h_op h) then control_frame p st (h_op h) payload rest
              else data_frame p c st h payload rest
          end
      end
    end
  | _ => FNeed
  end.

Fixpoint spec_run (p : profile) (c : cfg) (fuel : nat) (st : sstate) (s : bytes) (acc : list msg) : list msg * outcome :=
  match fuel with
  | O => (acc, SpecFuel)
  | S f =>
    match spec_frame p c st s with
    | FNeed => (acc, Pending)
    | FViol e cls => (acc, Violation e cls)
    | FNext ev st' rest => spec_run p c f st' rest (acc ++ ev)
    end
  end.

(* messages delivered up to the first violation, and that violation *)
Definition decode (p : profile) (c : cfg) (cx0 : Cx) (s : bytes) : list msg * outcome :=
  spec_run p c (S (length s)) (mks None [] cx0) s [].

End Spec.

Arguments mks {Cx}. Arguments sp_cur {Cx}. Arguments sp_acc {Cx}. Arguments sp_cx {Cx}.
Arguments FNeed {Cx}. Arguments FViol {Cx}. Arguments FNext {Cx}.
