From AV Require Import Lib.Base Generated.PoolGen Model.Pool.
Require Extraction.
Require Import ExtrOcamlBasic.
Extraction "model.ml" keep step run init avail get_pc available_connections.
