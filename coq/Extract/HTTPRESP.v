From AV Require Import Lib.Base Lib.BytesX Lib.Utf8Decode Generated.HttpGen Generated.HttpRespGen Model.Http Model.HttpResp.
Require Extraction.
Require Import ExtrOcamlBasic.
Extraction "model.ml" keep rfeed rinit rfeed_eof mkCfg mkLimits decode_se py_isspace lowerU split_status_line
  parse_headers_lax is_chunked_te_resp.
