From AV Require Import Lib.Base Lib.Utf8Valid Generated.WsGen Model.Ws Model.WsSpec.
Require Extraction.
Require Import ExtrOcamlBasic.

Definition toy_feed := feed toycx toy_decomp.
Definition toy_init := init_state toycx toy0.
Definition toy_decode := decode toycx toy_decomp.
Definition toy_wants_pause := wants_pause toycx.

Extraction "model.ml" keep toy_feed toy_init toy_decode toy_wants_pause rfc_profile aiohttp_profile
  utf8_valid toy_decomp toy0 max_fragments mkprofile rfc_close_ok inflated_too_big close_code_bad.
