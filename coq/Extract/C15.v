From AV Require Import Lib.Base Generated.StaticGen Model.Static.
Require Extraction.
Require Import ExtrOcamlBasic.
Extraction "model.ml" keep http_range range_decision file_response handle serve_path resolve kstat klstat
  py_normpath static_resolve unquote_path_safe parse_posix match_range dec_of_Z sendfile_fallback preconditions.
