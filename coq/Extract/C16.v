From AV Require Import Lib.Base Model.Cookies.
Require Extraction.
Require Import ExtrOcamlBasic.
Extraction "model.ml" keep empty_jar run rfc_run step rfc_step is_domain_match rfc_domain_match rfc_path_match is_ip
  dot_suffixes path_prefixes default_path rstrip.
