From AV Require Import Lib.Base Generated.DecodeGen Model.Decode.
Require Extraction.
Require Import ExtrOcamlBasic.
Extraction "model.ml" keep toy_init toy_step toy_hnew toy_hstep toy_havail toy_heof zh_eof z_mid tm_eof toy_hflush toy_drain
  request_read core pend pr pa de re fed connected tpaused rpaused parser_alive pp_present has_more
  dg_srv_closing_feeds ppaused more rsize reof rexn low high delivered buf splits total cursor plength cst ctail d_size.
