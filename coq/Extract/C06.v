From AV Require Import Lib.Base Generated.ClientConnGen Model.ClientConn.
Require Extraction.
Require Import ExtrOcamlBasic.
Extraction "model.ml" keep step init faithful repaired well_taggedb proto_should_close list_eqb.
