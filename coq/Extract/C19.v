From AV Require Import Lib.Base Model.Multipart Model.MultipartSpec.
Require Extraction.
Require Import ExtrOcamlBasic.
Extraction "model.ml" keep run encode size spec_decode.
