From AV Require Import Lib.Base Model.Multipart.
Require Extraction.
Require Import ExtrOcamlBasic.
Extraction "model.ml" keep run encode size.
