From AV Require Import Lib.Base Lib.Utf8 Lib.BytesX Model.Writer Model.Http Model.Wire Model.WireResp.
Require Extraction.
Require Import ExtrOcamlBasic.
Extraction "model.ml" keep build client_serialize valid framing_ok run_segs init expected_rec  utf8_encode server_prepare client_close client_waits_eof.
