From AV Require Import Lib.Base Generated.ServerGen Model.ServerConn.
Require Extraction.
Require Import ExtrOcamlBasic.
Extraction "model.ml" keep step run init wire nmsgs maxq resume_mark.
