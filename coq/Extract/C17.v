From AV Require Import Lib.Base Model.Redirect.
Require Extraction.
Require Import ExtrOcamlBasic.
Extraction "model.ml" keep run cookie_pairs dest carries_caller_secretb.
