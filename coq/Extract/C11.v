From AV Require Import Lib.Base Lib.Utf8Valid Generated.WsGen Generated.WsCodecGen Model.Ws Model.WsCodec Model.WsSend Model.WsQueue.
Require Extraction.
Require Import ExtrOcamlBasic.

Extraction "model.ml" keep toy_roundtrip toy_wrun toy_feed_all toy_reader0 cut op_wf safe_overrides all_fit peer_cfg
  expect_all encode_header write_frame toy_comp toy_decomp2 toy_cinit xor_mask toy_crun_trace toy_frun_trace qrun_trace qinit flrun flinit.
