From AV Require Import Lib.Base Lib.Utf8 Model.Dispatch.
Require Extraction.
Require Import ExtrOcamlBasic.
Extraction "model.ml" keep build_app resolve_ix resolve_rule parse_template match_items format_items
  formatter_of index_key_of quote_path requote_path unquote_path_safe normpath redirect_candidates
  ancestors unquote_dict url_for literal_prefix_ok path_safe_dec.
