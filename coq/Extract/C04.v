From AV Require Import Lib.Base Lib.Utf8 Model.Writer.
Require Extraction.
Require Import ExtrOcamlBasic.
Extraction "model.ml" keep serialize_headers reason_ok method_ok safe_header utf8_encode split_crlf wrun winit.
