From AV Require Import Lib.Base Lib.BytesX Generated.HttpGen Model.Http Model.HttpSpec.
Require Extraction.
Require Import ExtrOcamlBasic.
Extraction "model.ml" keep feed init message_consumed mkLimits spec.
