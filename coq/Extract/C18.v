From AV Require Import Lib.Base Generated.TimeoutsGen Model.Timeouts.
Require Extraction.
Require Import ExtrOcamlBasic.
Extraction "model.ml" keep init step apply run count_writers deadline live pending next_timer
  total_when ctx_when read_when ceil_to effective_total total_enabled ctx_enabled read_enabled.
