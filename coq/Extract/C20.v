From AV Require Import Lib.Base Model.Lifecycle Model.Shutdown.
Require Extraction.
Require Import ExtrOcamlBasic.
Extraction "model.ml" keep via_apprunner via_run_app entered exited conn_outcome late_accepted server_shutdown_returns.
