From AV Require Import Lib.Base Model.Lifecycle.
Require Extraction.
Require Import ExtrOcamlBasic.
Extraction "model.ml" keep via_apprunner via_run_app entered exited.
