From AV Require Import Lib.Base Generated.WsSessionGen Model.WsSession.
Require Extraction.
Require Import ExtrOcamlBasic.
Extraction "model.ml" keep init step run_idle ntasks is_close_cw
  closed closing close_code waiting close_wait lost_cnt q_buf q_eof q_exc q_waiter rd_exc w_closing tr_closing lost
  proto_close sent now hb_cb pong_cb need_reset tasks ready bad has_exc peer_closes cw_leak code_defect
  t_pc t_fut t_tmo.
