From AV Require Import Lib.Base Generated.StreamGen Model.Stream.
Require Extraction.
Require Import ExtrOcamlBasic.
Extraction "model.ml" keep init_sys step run at_eof sst task paused total low high eof buf splits cursor size.
