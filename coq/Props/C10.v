(* C10 — Parsers are total and enforce their configured limits.  Statements only.
   Model: Model/Http.v (HttpRequestParser, strict).  The result type of `feed` has exactly three
   shapes — normal return, an HTTP protocol error (one of eight HttpProcessingError classes), or a
   question to the yarl oracle; an escaping foreign exception is not representable, and the harness
   checks on every generated input that the implementation's outcome is of the same shape. *)
From AV Require Import Lib.Base Lib.BytesX Generated.HttpGen Model.Http Proofs.HttpLimits.
Open Scope N_scope.

(* Retained bytes: after ANY sequence of reads that has not been rejected, the parser holds at most
   one partial line within the line/field limits and at most max_headers complete lines, each
   within the limits — for every byte stream, segmentation and limit configuration. *)
Theorem C10_retained_bound : forall lim o, max_queue lim = 0 ->
  forall segs s a lo0 s' a' lo,
    bounded lim s -> run_segs lim o s segs a lo0 = (s', a', ROk lo) -> bounded lim s'.
Proof. exact run_segs_bounded. Qed.
Print Assumptions C10_retained_bound.

Theorem C10_retained_bound_init : forall lim, bounded lim init.
Proof. exact bounded_init. Qed.
Print Assumptions C10_retained_bound_init.

(* A complete start line longer than max_line_size / field line longer than max_field_size is
   rejected with LineTooLong, wherever the read boundaries fell before it. *)
Theorem C10_line_limit : forall lim o f s buf a line rest,
  payload s = None -> upgraded s = false -> max_queue lim = 0 -> should_close s = false ->
  find_crlf buf = Some (line, rest) -> buf <> [] ->
  match lines s with [] => max_line lim | _ => max_field lim end < lenN line ->
  feed_loop (S f) lim o s buf a = (s, a, RErr ELineTooLong).
Proof. exact header_line_too_long. Qed.
Print Assumptions C10_line_limit.

(* More than max_headers lines in a header block: rejected when the excess line arrives. *)
Theorem C10_header_count : forall lim o f s buf a line rest,
  payload s = None -> upgraded s = false -> max_queue lim = 0 -> should_close s = false ->
  find_crlf buf = Some (line, rest) -> buf <> [] -> lines s <> [] ->
  lenN line <= max_field lim -> max_headers lim < lenN (lines s) + 1 ->
  feed_loop (S f) lim o s buf a = (s, a, RErr EBadMessage).
Proof. exact too_many_headers. Qed.
Print Assumptions C10_header_count.

(* non-vacuity: a 9-byte request line under max_line = 8 is rejected, under max_line = 9 buffered *)
Example C10_example_limit :
  snd (feed (mkLimits 8 8 4 0) [] init [71;69;84;32;47;97;97;97;97;13;10] []) = RErr ELineTooLong /\
  snd (feed (mkLimits 9 9 4 0) [] init [71;69;84;32;47;97;97;97;97;13;10] []) = ROk [].
Proof. split; vm_compute; reflexivity. Qed.
Print Assumptions C10_example_limit.
