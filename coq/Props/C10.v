(* C10 — Parsers are total and enforce their configured limits.  Statements only.
   Model: Model/Http.v (HttpRequestParser, strict).  The result type of `feed` has exactly three
   shapes — normal return, an HTTP protocol error (one of eight HttpProcessingError classes), or a
   question to the yarl oracle; an escaping foreign exception is not representable, and the harness
   checks on every generated input that the implementation's outcome is of the same shape. *)
From AV Require Import Lib.Base Lib.BytesX Generated.HttpGen Model.Http Proofs.HttpLimits Proofs.HttpTarget.
Open Scope N_scope.

(* Retained bytes: after ANY sequence of reads that has not been rejected, the parser holds at most
   one partial line of at most limit + 1 bytes (the line/field limit, plus one for a CR that ends
   the buffered part: it may be the first half of the line terminator and is not counted by the
   length check, exactly as for a complete line; `bounded`, Proofs/HttpLimits.v) and at most
   max_headers complete lines, each within the limits — for every byte stream, segmentation and
   limit configuration. *)
Theorem C10_retained_bound : forall lim o, max_queue lim = 0 ->
  forall segs s a lo0 s' a' lo,
    bounded lim s -> run_segs lim o s segs a lo0 = (s', a', ROk lo) -> bounded lim s'.
Proof. exact run_segs_bounded. Qed.
Print Assumptions C10_retained_bound.

Theorem C10_retained_bound_init : forall lim, bounded lim init.
Proof. exact bounded_init. Qed.
Print Assumptions C10_retained_bound_init.

(* A complete start line longer than max_line_size / field line longer than max_field_size is
   rejected with LineTooLong, wherever the read boundaries fell before it. *)
Theorem C10_line_limit : forall lim o f s buf a line rest,
  payload s = None -> upgraded s = false -> max_queue lim = 0 -> should_close s = false ->
  find_crlf buf = Some (line, rest) -> buf <> [] ->
  match lines s with [] => max_line lim | _ => max_field lim end < lenN line ->
  feed_loop (S f) lim o s buf a = (s, a, RErr ELineTooLong).
Proof. exact header_line_too_long. Qed.
Print Assumptions C10_line_limit.

(* More than max_headers lines in a header block: rejected when the excess line arrives. *)
Theorem C10_header_count : forall lim o f s buf a line rest,
  payload s = None -> upgraded s = false -> max_queue lim = 0 -> should_close s = false ->
  find_crlf buf = Some (line, rest) -> buf <> [] -> lines s <> [] ->
  lenN line <= max_field lim -> max_headers lim < lenN (lines s) + 1 ->
  feed_loop (S f) lim o s buf a = (s, a, RErr EBadMessage).
Proof. exact too_many_headers. Qed.
Print Assumptions C10_header_count.

(* non-vacuity: a 9-byte request line under max_line = 8 is rejected, under max_line = 9 buffered *)
Example C10_example_limit :
  snd (feed (mkLimits 8 8 4 0) [] init [71;69;84;32;47;97;97;97;97;13;10] []) = RErr ELineTooLong /\
  snd (feed (mkLimits 9 9 4 0) [] init [71;69;84;32;47;97;97;97;97;13;10] []) = ROk [].
Proof. split; vm_compute; reflexivity. Qed.
Print Assumptions C10_example_limit.

(* the bound limit + 1 is attained: max_line = 9, "GET /aaaa" CR (10 bytes) is buffered; one more
   byte that is not LF, and the 11 bytes are rejected *)
Example C10_example_limit_cr :
  (let '(s, a, r) := feed (mkLimits 9 9 4 0) [] init [71;69;84;32;47;97;97;97;97;13] [] in (r, lenN (tail s))) = (ROk [], 10) /\
  snd (feed (mkLimits 9 9 4 0) [] init [71;69;84;32;47;97;97;97;97;13;97] []) = RErr ELineTooLong.
Proof. split; vm_compute; reflexivity. Qed.
Print Assumptions C10_example_limit_cr.

(* ====================================================================================================
   RESPONSE parser (HttpResponseParser, lax mode).  Model: Model/HttpResp.v; proofs:
   Proofs/HttpRespLimits.v, HttpRespReject.v.  The result types of rfeed / rfeed_eof have exactly two
   shapes - normal return or one of the HttpProcessingError classes; the harness checks on every
   generated input that the implementation's outcome has the same shape and class. *)
From AV Require Import Lib.Utf8Decode Generated.HttpRespGen Model.HttpResp
  Proofs.HttpRespBase Proofs.HttpRespChunk Proofs.HttpRespSeg Proofs.HttpRespLimits Proofs.HttpRespEx Proofs.HttpRespReject.

(* Retained bytes: after ANY sequence of reads that has not been rejected the parser holds at most one
   partial start/field line of at most max(max_line, max_field) + 1 bytes (the + 1: a CR that may be the
   first half of the line terminator is buffered but not counted), at most max_headers complete lines
   each within the limits, at most max_trailers (<= max_headers) trailer lines each within
   max_field_size, and a partial chunk-size / trailer line of at most
   2 * max(max_line, max_field) + 2 + (longest read) bytes (its length is re-checked when the next read
   starts) - every stream, segmentation, configuration.  rbounded / rbig: Proofs/HttpRespLimits.v. *)
Theorem C10_resp_retained_bound : forall cfg, max_queue (c_lim cfg) = 0 ->
  forall segs s a lo0 s' a' lo n,
    rwf s -> rbounded (c_lim cfg) n s -> rrun_segs cfg s segs a lo0 = (s', a', OOk lo) ->
    rbounded (c_lim cfg) (N.max n (maxlen segs)) s'.
Proof. exact rrun_segs_bounded. Qed.
Print Assumptions C10_resp_retained_bound.

Theorem C10_resp_retained_bound_feed : forall cfg s d a s' a' lo n,
  max_queue (c_lim cfg) = 0 -> rwf s -> rbounded (c_lim cfg) n s ->
  rfeed cfg s d a = (s', a', OOk lo) ->
  rbounded (c_lim cfg) (N.max n (lenN d)) s'.
Proof. exact rfeed_bounded. Qed.
Print Assumptions C10_resp_retained_bound_feed.

Theorem C10_resp_retained_bound_init : forall lim n, rbounded lim n rinit.
Proof. exact rbounded_init. Qed.
Print Assumptions C10_resp_retained_bound_init.

Example C10_resp_retained_bound_hyps : rwf rinit /\ rbounded (mkLimits 16 8 4 0) 0 rinit.
Proof. exact ex_bounded_hyps. Qed.
Print Assumptions C10_resp_retained_bound_hyps.

(* A complete status line / field line whose measured length (len1: its last CR is not counted, further
   trailing CRs are) exceeds max_line_size / max_field_size is rejected with LineTooLong, wherever the
   read boundaries fell. *)
Theorem C10_resp_line_limit : forall cfg f s buf a raw rest,
  rpayload s = None -> rupgraded s = false -> max_queue (c_lim cfg) = 0 -> rshould_close s = false ->
  find_lf buf = Some (raw, rest) -> buf <> [] ->
  match rlines s with [] => max_line (c_lim cfg) | _ => max_field (c_lim cfg) end < len1 raw ->
  rfeed_loop (S f) cfg s buf a = (s, a, OErr ELineTooLong).
Proof. exact rheader_line_too_long. Qed.
Print Assumptions C10_resp_line_limit.

Theorem C10_resp_header_count : forall cfg f s buf a raw rest,
  rpayload s = None -> rupgraded s = false -> max_queue (c_lim cfg) = 0 -> rshould_close s = false ->
  find_lf buf = Some (raw, rest) -> buf <> [] -> rlines s <> [] ->
  len1 raw <= max_field (c_lim cfg) -> max_headers (c_lim cfg) < lenN (rlines s) + 1 ->
  rfeed_loop (S f) cfg s buf a = (s, a, OErr EBadMessage).
Proof. exact rtoo_many_headers. Qed.
Print Assumptions C10_resp_header_count.

(* obs-fold: every accepted field value - the first piece joined with its continuation lines - is
   within max_field_size when the physical lines are (they are: C10_resp_retained_bound) *)
Theorem C10_resp_folded_value_bound : forall mf lines hs,
  Forall (fun l => lenN l <= mf) lines -> parse_headers_lax mf lines = QOk hs ->
  Forall (fun kv : bytes * bytes => lenN (snd kv) <= mf) hs.
Proof. exact rfolded_value_bound. Qed.
Print Assumptions C10_resp_folded_value_bound.

(* non-vacuity: max_field = 10, "X: 12345" + " 123456" (each line within the limit, the folded value
   not) is LineTooLong; a 17-byte status line under max_line 16 / 17 *)
Example C10_resp_example_limits :
  snd (rfeed rcfg10 rinit x_fold []) = OErr ELineTooLong /\
  snd (rfeed (mkCfg (mkLimits 16 8 4 0) true true) rinit [72;84;84;80;47;49;46;49;32;50;48;48;32;79;75;33;33;13;10] []) = OErr ELineTooLong /\
  snd (rfeed (mkCfg (mkLimits 17 8 4 0) true true) rinit [72;84;84;80;47;49;46;49;32;50;48;48;32;79;75;33;33;13;10] []) = OOk [].
Proof. exact (conj ex_fold_limit ex_limit). Qed.
Print Assumptions C10_resp_example_limits.

(* ---- what an accepted response head satisfies (rejection lemmas, C01 style) ---- *)
(* status line: HTTP/d.d, exactly three ASCII digits, on the decoded text *)
Theorem C10_resp_status_line : forall mf sl fls m, parse_response mf (sl :: fls) = QOk m ->
  exists a b c, dec_digit a = true /\ dec_digit b = true /\ dec_digit c = true /\
    rm_code m = parse_dec [a; b; c] /\ rm_code m < 1000 /\
    exists version reason, split_status_line (decode_se sl) = Some (version, [a; b; c], reason) /\
      parse_version version = Some (rm_vmaj m, rm_vmin m).
Proof. exact accepted_resp_status. Qed.
Print Assumptions C10_resp_status_line.

(* every field, folded or not: non-empty token name, no NUL / CR / LF in the value *)
Theorem C10_resp_fields_ok : forall mf sl fls m, parse_response mf (sl :: fls) = QOk m ->
  Forall (fun kv : bytes * bytes =>
            fst kv <> [] /\ forallb tchar (fst kv) = true /\ existsb lax_value_forbidden (snd kv) = false)
         (rm_headers m).
Proof. exact accepted_resp_fields_ok. Qed.
Print Assumptions C10_resp_fields_ok.

Theorem C10_resp_reject_leading_ows : forall mf l ls hs,
  starts_ows l = true -> parse_headers_lax mf (l :: ls) <> QOk hs.
Proof. exact leading_ows_rejected. Qed.
Print Assumptions C10_resp_reject_leading_ows.

(* Content-Length together with Transfer-Encoding is never accepted *)
Theorem C10_resp_reject_cl_and_te : forall mf sl fls m, parse_response mf (sl :: fls) = QOk m ->
  ~ (has_header h_transfer_encoding (rm_headers m) = true /\ has_header h_content_length (rm_headers m) = true).
Proof. exact accepted_resp_not_cl_and_te. Qed.
Print Assumptions C10_resp_reject_cl_and_te.

(* Content-Length must be 1*DIGIT *)
Theorem C10_resp_content_length_decimal : forall cfg s ls r, rstart_message cfg s ls = QOk r ->
  exists m, parse_response (max_field (c_lim cfg)) (removelast ls) = QOk m /\
    match get_header h_content_length (rm_headers m) with
    | Some v => v <> [] /\ forallb dec_digit v = true
    | None => True
    end /\ has_header h_sec_websocket_key1 (rm_headers m) = false.
Proof. exact rstart_message_cl. Qed.
Print Assumptions C10_resp_content_length_decimal.

(* ---- totality at the request target (round 4, seeded change C10-7) ---------------------------------------
   An accepted head has passed check_target: a CONNECT authority, or a target that is neither origin-form nor the
   OPTIONS asterisk, was put to the URL library (the oracle `o`: yarl is not modelled) and ACCEPTED by it.  So no
   message leaves the parser whose URL raises when RequestHandler.start / BaseRequest.__init__ read it, outside
   every try block; a target the library refuses is EInvalidUrl (InvalidURLError, a 400).  For every byte string
   and every oracle.  The harness evaluates the same statement on the implementation (`urlexc` oracle) and supplies
   yarl's verdicts to the model (correspondence request-parser-model). *)
Theorem C10_accepted_target_validated : forall o lines m,
  parse_request o lines = POk m ->
  existsb target_forbidden (m_target m) = false /\
  if list_eqb (m_method m) m_CONNECT then ask o true (m_target m) = Some true
  else if starts_with [47] (m_target m) then True
  else if list_eqb (m_target m) [42] && list_eqb (m_method m) m_OPTIONS then True
  else ask o false (m_target m) = Some true.
Proof. exact accepted_target_validated. Qed.
Print Assumptions C10_accepted_target_validated.

Theorem C10_started_message_target_validated : forall lim o s ls r,
  start_message lim o s ls = POk r -> exists m, parse_request o (removelast ls) = POk m /\ target_validated o m.
Proof. exact started_message_target_validated. Qed.
Print Assumptions C10_started_message_target_validated.

Theorem C10_connect_refused_not_accepted : forall o lines m,
  parse_request o lines = POk m -> list_eqb (m_method m) m_CONNECT = true -> ask o true (m_target m) <> Some true -> False.
Proof. exact connect_refused_not_accepted. Qed.
Print Assumptions C10_connect_refused_not_accepted.

(* `CONNECT h:443 HTTP/1.1` under the three possible answers: accepted / InvalidURLError / the model asks *)
Example C10_connect_example :
  (exists m, parse_request [(true, w_connect_target, true)] w_connect_lines = POk m /\ m_target m = w_connect_target) /\
  parse_request [(true, w_connect_target, false)] w_connect_lines = PErr EInvalidUrl /\
  parse_request [] w_connect_lines = PAsk true w_connect_target.
Proof. exact connect_witness. Qed.
Print Assumptions C10_connect_example.
