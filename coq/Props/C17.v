(* C17 — Redirects confine credentials and terminate.
   Only statements; each closed by `exact` of a lemma proved in Proofs/Redirect.v.

   Vocabulary (Model/Redirect.v): `run c q resps` is the whole call session.request(q) with
   configuration c (max_redirects, allow_redirects) against servers that answer the i-th request
   made with `nth resps i`; the statements quantify over ALL response lists, i.e. over every chain
   of every length and every (adaptive) behaviour of the origins.  `sents` = the requests as
   received by the origins, in order; `disps` = what became of each response object;
   `result` = what the caller gets.  The origin of a request is compared the way the code compares
   it (scheme, host, port as written); equal origins have equal destinations (`dest`). *)
From AV Require Import Lib.Base Generated.RedirectGen Model.Redirect Proofs.Redirect.
Open Scope N_scope.

(* A request that carries a caller-supplied Authorization, Cookie header, Proxy-Authorization or
   per-request cookies is preceded only by requests to the origin of the initial URL (itself
   included): once a hop leaves that origin the caller's credentials are gone for good, also when
   a later hop returns to it (A -> B -> A). *)
Theorem C17_confined : forall c q resps i s,
  nth_error (sents (run c q resps)) i = Some s ->
  carries_caller_secret s ->
  forall j sj, (j <= i)%nat -> nth_error (sents (run c q resps)) j = Some sj -> s_org sj = u_org (q_url q).
Proof. exact confined. Qed.
Print Assumptions C17_confined.

(* the same about the real destination (scheme, host, effective port) *)
Theorem C17_confined_destination : forall c q resps i s,
  nth_error (sents (run c q resps)) i = Some s ->
  carries_caller_secret s ->
  forall j sj, (j <= i)%nat -> nth_error (sents (run c q resps)) j = Some sj ->
    dest (s_org sj) = dest (u_org (q_url q)).
Proof. exact confined_dest. Qed.
Print Assumptions C17_confined_destination.

(* Wire level: every name=value pair on the Cookie line of hop i was selected from the jar for this
   hop, or is one of the caller's (header / cookies=) and then all hops up to i stayed on the
   initial origin. *)
Theorem C17_cookie_line_confined : forall c q resps i s p,
  nth_error (sents (run c q resps)) i = Some s ->
  In p (cookie_pairs s) ->
  In p (s_jar s) \/
  ((In p (optl (q_cookie q)) \/ In p (optl (q_reqck q))) /\
   forall j sj, (j <= i)%nat -> nth_error (sents (run c q resps)) j = Some sj -> s_org sj = u_org (q_url q)).
Proof. exact cookie_line_confined. Qed.
Print Assumptions C17_cookie_line_confined.

(* Credentials embedded in a URL reach only the hop whose URL carried them and its same-origin
   successors. *)
Theorem C17_url_credentials : forall c q resps i s t,
  nth_error (sents (run c q resps)) i = Some s ->
  s_auth s = Some (AUrl t) ->
  exists k sk, (k <= i)%nat /\ nth_error (sents (run c q resps)) k = Some sk /\ s_urlcred sk = Some t /\
    forall j sj, (k <= j <= i)%nat -> nth_error (sents (run c q resps)) j = Some sj -> s_org sj = s_org sk.
Proof. exact urlcred. Qed.
Print Assumptions C17_url_credentials.

(* Jar cookies are selected anew for every hop, from the jar as updated by all earlier responses,
   for that hop's host; and what is selected for host h was stored for host h. *)
Theorem C17_jar_reselected : forall c q resps i s,
  nth_error (sents (run c q resps)) i = Some s ->
  s_jar s = jar_filter (jar_after (q_jar q) (sents (run c q resps)) resps i) (o_host (s_org s)) (s_path s).
Proof. exact jar_reselected. Qed.
Print Assumptions C17_jar_reselected.

Theorem C17_jar_selection_by_host : forall j h path n v, In (n, v) (jar_filter j h path) ->
  exists sc, In (h, n, v, sc) j /\ scope_matches sc path = true.
Proof. exact jar_filter_In. Qed.
Print Assumptions C17_jar_selection_by_host.

(* Method / body table between two consecutive requests: the response in between is a redirect
   status and redirects are allowed; 303 (not HEAD) and 301/302 on POST turn the request into a GET
   without body (and without the caller's Content-Length); every other case repeats method and
   body, and is only followed when the body can be replayed (or was not sent at all: the response
   came while the client was still waiting for `100 Continue`). *)
Theorem C17_method_body_table : forall c q resps i s s',
  nth_error (sents (run c q resps)) i = Some s ->
  nth_error (sents (run c q resps)) (S i) = Some s' ->
  exists r, nth_error resps i = Some r /\
    In (rs_status r) [301; 302; 303; 307; 308] /\ c_allow c = true /\
    if doc_switch_to_get (rs_status r) (s_meth s)
    then s_meth s' = MGet /\ s_body s' = BNone /\ s_clen s' = false
    else s_meth s' = s_meth s /\ s_body s' = s_body s /\ s_clen s' = s_clen s /\
         (consumed_after_send (s_body s) = false \/ rs_unsent r = true).
Proof. exact table. Qed.
Print Assumptions C17_method_body_table.

(* Termination: at most max(1, max_redirects) requests are made, for EVERY value of max_redirects
   (the initial request is always made).  Since /repo 8af1114 the value 0 means "follow no redirect";
   before, `if max_redirects and ...` made it "no limit" and this statement was refuted. *)
Theorem C17_terminates : forall c q resps,
  (Z.of_nat (length (sents (run c q resps))) <= Z.max 1 (c_max c))%Z.
Proof. exact terminates. Qed.
Print Assumptions C17_terminates.

(* ... and the call has finished once that many responses have been received, whatever they were *)
Theorem C17_terminates_outcome : forall c q resps,
  (Z.max 1 (c_max c) <= Z.of_nat (length resps))%Z -> result (run c q resps) <> Pending.
Proof. exact terminates_outcome. Qed.
Print Assumptions C17_terminates_outcome.

(* max_redirects = 0: the first redirect already ends the call with TooManyRedirects, one request made
   (the former refutation witness) *)
Example C17_example_max_redirects_zero :
  let t := run {| c_max := 0; c_allow := true |} ex_q ex_resps in
  length (sents t) = 1%nat /\ disps t = [DClosed] /\ result t = Failed ETooManyRedirects [(307, ex_A, 0)].
Proof. vm_compute. repeat split; reflexivity. Qed.
Print Assumptions C17_example_max_redirects_zero.

(* Non-HTTP targets: every request goes to an http(s) URL, and a response whose Location is missing,
   unparsable, host-less or has another scheme is never followed. *)
Theorem C17_only_http_requests : forall c q resps i s,
  http_scheme (o_sch (u_org (q_url q))) = true ->
  nth_error (sents (run c q resps)) i = Some s -> http_scheme (o_sch (s_org s)) = true.
Proof. exact only_http. Qed.
Print Assumptions C17_only_http_requests.

Theorem C17_refused_targets_not_followed : forall c q resps i r,
  nth_error resps i = Some r -> refused_location (rs_loc r) ->
  nth_error (sents (run c q resps)) (S i) = None.
Proof. exact refused_not_followed. Qed.
Print Assumptions C17_refused_targets_not_followed.

(* History and release.  When the call returns a response: n+1 requests were made, the n
   intermediate responses were released and the last one handed to the caller; the history is the
   intermediate responses in order — or, when the last response is a redirect status without
   Location (returned as it is), the history additionally ends with that returned response. *)
Theorem C17_history_in_order : forall c q resps status h,
  result (run c q resps) = Done status h ->
  exists n r, length (sents (run c q resps)) = S n /\
    disps (run c q resps) = repeat DReleased n ++ [DReturned] /\
    nth_error resps n = Some r /\ status = rs_status r /\
    (h = hist_of (firstn n (sents (run c q resps))) resps
     \/ (h = hist_of (sents (run c q resps)) resps /\ rs_loc r = LNone /\ follow_redirect (rs_status r) (c_allow c) = true)).
Proof. exact history_done. Qed.
Print Assumptions C17_history_in_order.

(* When the call fails after a response (too many redirects, consumed body, bad Location): the
   history is every response received, in order; all but the last were released, the last closed. *)
Theorem C17_history_on_failure : forall c q resps e h,
  result (run c q resps) = Failed e h -> e <> EAuthConflict ->
  h = hist_of (sents (run c q resps)) resps /\
  exists n, length (sents (run c q resps)) = S n /\
    disps (run c q resps) = repeat DReleased n ++ [DClosed] /\ (n < length resps)%nat.
Proof. exact history_failed. Qed.
Print Assumptions C17_history_on_failure.

(* The first-hop refusal (Authorization header + credentials in the initial URL) sends nothing. *)
Theorem C17_conflict_sends_nothing : forall c q resps h,
  result (run c q resps) = Failed EAuthConflict h ->
  h = [] /\ sents (run c q resps) = [] /\ disps (run c q resps) = [].
Proof. exact history_conflict. Qed.
Print Assumptions C17_conflict_sends_nothing.

(* Generated data agrees with the documented table / scheme set (breaks at compile time when
   client.py's formula or helpers.HTTP_AND_EMPTY_SCHEMA_SET change). *)
Theorem C17_generated_table_is_documented : forall status m,
  switch_to_get status (is_head m) (is_post m) (is_get m) = doc_switch_to_get status m.
Proof. exact switch_to_get_doc. Qed.
Print Assumptions C17_generated_table_is_documented.

Theorem C17_generated_schemes_are_http : forall s, scheme_allowed s = true -> http_scheme s = true.
Proof. exact scheme_allowed_http. Qed.
Print Assumptions C17_generated_schemes_are_http.

(* ---- non-vacuity ------------------------------------------------------------------------------ *)

(* four requests; the caller's secrets on hops 0 and 1 only; u7's credentials on hop 2 only;
   POST+body kept by 307, dropped by 302; back on A nothing is resurrected; jar cookies per host, and the
   cookie scoped to path 1 (name 8) on the hop to /p1 only *)
Example C17_example_chain :
  map (fun s => (s_org s, s_meth s, s_body s, s_auth s, carries_caller_secretb s, cookie_pairs s)) (sents (run ex_c ex_q ex_resps)) =
  [ (ex_A, MPost, BReplay 1, Some (ACaller 1), true,  [(2, 201); (3, 301); (1, 101)]);
    (ex_A, MPost, BReplay 1, Some (ACaller 1), true,  [(2, 201); (3, 301); (8, 308); (5, 401); (1, 101)]);
    (ex_B, MGet,  BNone,     Some (AUrl 7),    false, [(4, 302)]);
    (ex_A, MGet,  BNone,     None,             false, [(3, 301); (5, 401)]) ]
  /\ disps (run ex_c ex_q ex_resps) = [DReleased; DReleased; DReleased; DReturned]
  /\ result (run ex_c ex_q ex_resps) = Done 200 [(307, ex_A, 0); (302, ex_A, 1); (301, ex_B, 2)].
Proof. vm_compute. repeat split; reflexivity. Qed.
Print Assumptions C17_example_chain.

(* hypotheses of the implications are satisfiable: a secret-carrying hop with i = 1, a URL-credential
   hop, a bounded run that ends in TooManyRedirects, a refused ftp target *)
Example C17_example_hypotheses :
  (exists s, nth_error (sents (run ex_c ex_q ex_resps)) 1 = Some s /\ carries_caller_secretb s = true)
  /\ (exists s, nth_error (sents (run ex_c ex_q ex_resps)) 2 = Some s /\ s_auth s = Some (AUrl 7))
  /\ result (run {| c_max := 2; c_allow := true |} ex_q ex_resps)
       = Failed ETooManyRedirects [(307, ex_A, 0); (302, ex_A, 1)]
  /\ length (sents (run {| c_max := 2; c_allow := true |} ex_q ex_resps)) = 2%nat
  /\ result (run ex_c ex_q [ {| rs_status := 302; rs_setcookie := [];
                                rs_loc := LAbs {| u_org := {| o_sch := 4; o_host := 1; o_port := None |}; u_cred := None; u_path := 1 |}; rs_unsent := false |} ])
       = Failed ENonHttpRedirect [(302, ex_A, 0)]
  /\ result (run ex_c {| q_meth := MPut; q_url := q_url ex_q; q_auth := None; q_cookie := None; q_pauth := None; q_reqck := None;
                         q_body := BOnce 4; q_clen := false; q_jar := [] |}
                 [ {| rs_status := 307; rs_setcookie := []; rs_loc := LRel 1; rs_unsent := false |} ])
       = Failed EPayloadConsumed [(307, ex_A, 0)].
Proof. vm_compute. repeat split; eexists; split; reflexivity. Qed.
Print Assumptions C17_example_hypotheses.
