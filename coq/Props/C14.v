(* C14 — URL dispatch follows the documented resolution rule.
   Only statements; each closed by `exact` of a lemma proved in Proofs/Dispatch*.v.

   resolve_ix   = UrlDispatcher.resolve as written (matched sub-apps first, then the walk over
                  url_part from longest to shortest through _resource_index; sub-applications resolved
                  recursively through their own, re-indexed, tables);
   resolve_rule = the documented rule (resources ordered by decreasing length of their fixed prefix,
                  registration order among equals, each asked with its declarative path test, the method
                  must match, allowed methods accumulated in that order);
   build_app    = add_route / add_static / add_subapp (with _add_prefix_to_resources) / add_domain / freeze.
   `p` is request.rel_url.path_safe.  Origin-form request targets start with '/'. *)
From AV Require Import Lib.Base Lib.Utf8 Generated.DispatchGen Model.Dispatch
  Proofs.DispatchStrings Proofs.DispatchRule Proofs.DispatchIndex Proofs.DispatchStatus
  Proofs.DispatchTemplate Proofs.DispatchRedirect Proofs.DispatchMain.
Open Scope N_scope.

(* ---------------------------------------------------------------- handler and match_info = the rule *)

(* FULL: for EVERY operation list that builds (any nesting of sub-apps, any registration order),
   every path, method and Host: the index walk chooses the handler, match_info and allowed-method
   list of the documented rule. *)
Theorem C14_dispatch_follows_rule : forall ops rt host p m,
  build_app ops = BOk rt -> starts_with [SLASH] p = true ->
  resolve_ix rt host p m = resolve_rule rt host p m.
Proof. exact built_dispatch_follows_rule. Qed.
Print Assumptions C14_dispatch_follows_rule.

(* its two halves: (1) index = rule for every table whose index is consistent ... *)
Theorem C14_index_eq_rule : forall rt host p m,
  router_ok rt -> starts_with [SLASH] p = true ->
  resolve_ix rt host p m = resolve_rule rt host p m.
Proof. exact index_eq_rule. Qed.
Print Assumptions C14_index_eq_rule.

(* ... (2) construction, including unindex / add_prefix / index of every resource of a mounted
   sub-application (recursively), keeps every index consistent: each key lists exactly the resources
   with that key, in registration order. *)
Theorem C14_built_tables_consistent : forall ops rt, build_app ops = BOk rt -> router_ok rt.
Proof. exact build_app_ok. Qed.
Print Assumptions C14_built_tables_consistent.

(* key lemma of (1): a resource can only match paths that have its index key among their ancestors *)
Theorem C14_key_is_ancestor : forall c p, p <> [] -> canon_prefix c p -> In (index_key_of c) (ancestors p).
Proof. exact key_anc. Qed.
Print Assumptions C14_key_is_ancestor.

Example C14_example_table :
  exists rt, build_app ex_ops = BOk rt /\
    resolve_ix rt None [47; 115; 47; 115; 47; 113] s_GET = Found 4 [([121], [113])] /\
    resolve_ix rt None [47; 97; 47; 98] s_POST = Found 2 [([120], [98])] /\
    resolve_ix rt None [47; 97; 47; 98] s_DELETE = NotAllowed [s_GET; s_POST].
Proof. exact ex_builds_and_resolves. Qed.
Print Assumptions C14_example_table.

(* ---------------------------------------------------------------- 404 / 405 *)

(* The full statement (404 only if no resource matches the path; 405 with the complete set of methods)
   is REFUTED for tables with prefixed sub-applications: the sub-application's own 404/405 is final. *)
Theorem C14_405_complete_refuted :
  exists rt A h mi, build_app capture_ops = BOk rt /\
    resolve_ix rt None s_sx s_DELETE = NotAllowed A /\
    resolve_ix rt None s_sx s_GET = Found h mi /\ ~ In s_GET A.
Proof. exact allow_incomplete_witness. Qed.
Print Assumptions C14_405_complete_refuted.

Theorem C14_404_only_if_unmatched_refuted :
  exists rt h mi, build_app capture404_ops = BOk rt /\
    resolve_ix rt None s_sy s_POST = NotFound /\ resolve_ix rt None s_sy s_GET = Found h mi.
Proof. exact notfound_although_matched_witness. Qed.
Print Assumptions C14_404_only_if_unmatched_refuted.

(* PARTIAL (extra hypothesis: `flat`, no sub-application in the table; missing: the same statement
   through sub-application boundaries, which the code violates): 404 exactly when no resource
   matches the path. *)
Theorem C14_404_iff_unmatched_partial : forall rt host p m,
  router_ok rt -> flat rt -> starts_with [SLASH] p = true ->
  (resolve_ix rt host p m = NotFound <-> forall r, In r (r_res rt) -> path_matches r p = false).
Proof. exact ix_404. Qed.
Print Assumptions C14_404_iff_unmatched_partial.

(* PARTIAL (same hypothesis): 405 only if some resource matches the path and none the method; the
   list is exactly the union of the methods of the path-matching resources, and exactly the set of
   methods for which the same path is served. *)
Theorem C14_405_exact_partial : forall rt host p m A,
  router_ok rt -> flat rt -> static_no_any rt -> starts_with [SLASH] p = true ->
  resolve_ix rt host p m = NotAllowed A ->
  (exists r, In r (r_res rt) /\ path_matches r p = true) /\
  (forall r, In r (r_res rt) -> path_matches r p = true -> serves r m = false) /\
  (forall x, In x A <-> exists r, In r (r_res rt) /\ path_matches r p = true /\ In x (methods r)) /\
  (forall m', (exists h mi, resolve_ix rt host p m' = Found h mi) <-> In m' A).
Proof. exact ix_405. Qed.
Print Assumptions C14_405_exact_partial.

(* the hypotheses are met by every table built from add_route / add_static only *)
Theorem C14_leaf_tables_are_flat : forall ops rt,
  Forall leaf_op ops -> build_app ops = BOk rt -> flat rt /\ static_no_any rt.
Proof. exact leaf_ops_flat. Qed.
Print Assumptions C14_leaf_tables_are_flat.

Example C14_example_flat : Forall leaf_op [ORoute s_GET [47; 97; 47; 98] 1; OStatic s_s 2].
Proof. exact ex_flat_ops. Qed.
Print Assumptions C14_example_flat.

(* ---------------------------------------------------------------- url_for and resolution *)

(* The full statement (inverse for every value free of '/', '{', '}') is REFUTED twice. *)
Theorem C14_url_for_inverse_refuted_ambiguous :
  exists pat u d, parse_template t_a_b = Some pat /\ format_items pat vals_ab = Some u /\
    memN PCT u = false /\ match_items pat u = Some d /\ unquote_dict d <> vals_ab.
Proof. exact url_for_ambiguous_witness. Qed.
Print Assumptions C14_url_for_inverse_refuted_ambiguous.

Theorem C14_url_for_inverse_refuted_requoted :
  exists pat, parse_template t_ab_x = Some pat /\ format_items pat [([120], [49])] = Some u_ab_1 /\
    match_items pat ps_ab_1 = None.
Proof. exact url_for_requoted_witness. Qed.
Print Assumptions C14_url_for_inverse_refuted_requoted.

(* PARTIAL, regex level (hypothesis `good_for`: every value lies in its hole's class, is long enough,
   and every hole is closed by a character outside its class — '/' for the default class — or by the
   end of the template): matching the filled template returns exactly the values, for ALL templates
   and values (no backtracking ambiguity). *)
Theorem C14_match_fill_partial : forall its vals,
  good_for its vals -> match_items its (fill its vals) = Some (bindings its vals).
Proof. exact match_fill. Qed.
Print Assumptions C14_match_fill_partial.

(* PARTIAL, with the quoting layer (extra hypotheses: values over unreserved characters, literal
   parts without '%'; then the URL contains no '%', so yarl's path_safe is the identity on it).
   Missing: values / literals that need percent-encoding (needs a model of yarl's decoder). *)
Theorem C14_url_for_inverse_partial : forall o f pat rt vals,
  good_for pat vals -> plain_values pat vals -> lits_no_pct pat ->
  exists u, url_for (RDyn o f pat rt) vals = Some u /\ memN PCT u = false /\
            option_map unquote_dict (match_items pat u) = Some (bindings pat vals).
Proof. exact url_for_inverse_plain. Qed.
Print Assumptions C14_url_for_inverse_partial.

(* FULL (soundness of matching): every value in match_info lies in the class of its hole, for all
   templates and paths; in particular a plain {name} never captures '/', '{' or '}' (before
   _unquote_path_safe), so it stays inside one path segment as documented. *)
Theorem C14_match_values_in_class : forall its p d, match_items its p = Some d ->
  Forall (fun nv => exists c mn, In (Hole (fst nv) c mn) its /\ forallb (cls_mem c) (snd nv) = true) d.
Proof. exact match_values_in_class. Qed.
Print Assumptions C14_match_values_in_class.

Theorem C14_default_hole_stays_in_segment : forall its p d n v,
  match_items its p = Some d -> In (n, v) d ->
  (forall c mn, In (Hole n c mn) its -> c = CGood) ->
  ~ In 47 v /\ ~ In 123 v /\ ~ In 125 v.
Proof. exact default_hole_stays_in_segment. Qed.
Print Assumptions C14_default_hole_stays_in_segment.

Example C14_example_good_for :
  let pat := [Lit [47; 97; 47]; Hole [120] CGood 1%nat; Lit [47; 98]; Hole [121] CDigit 1%nat] in
  let vals := [([120], [113; 45; 113]); ([121], [52; 50])] in
  good_for pat vals /\ plain_values pat vals /\ lits_no_pct pat.
Proof. exact ex_good_for. Qed.
Print Assumptions C14_example_good_for.

(* ---------------------------------------------------------------- path-normalising redirects *)

(* FULL: every candidate normalize_path_middleware resolves (and may redirect to) does not start
   with "//" (a scheme-relative, off-site reference), for all flag combinations and raw paths ... *)
Theorem C14_redirect_no_double_slash : forall a r mg path dec c,
  In c (redirect_candidates a r mg path dec) -> starts_with [SLASH; SLASH] c = false.
Proof. exact redirect_no_double_slash. Qed.
Print Assumptions C14_redirect_no_double_slash.

(* ... and is empty or starts with '/', when the request path does. *)
Theorem C14_redirect_rooted : forall a r mg path dec c,
  starts_with [SLASH] path = true ->
  In c (redirect_candidates a r mg path dec) -> c = [] \/ starts_with [SLASH] c = true.
Proof. exact redirect_rooted. Qed.
Print Assumptions C14_redirect_rooted.

Example C14_example_redirect :
  redirect_candidates true false true [47; 47; 101; 118; 105; 108; 46; 99; 111; 109] false
  = [[47; 101; 118; 105; 108; 46; 99; 111; 109];
     [47; 101; 118; 105; 108; 46; 99; 111; 109; 47];
     [47; 101; 118; 105; 108; 46; 99; 111; 109; 47]].
Proof. vm_compute. reflexivity. Qed.
Print Assumptions C14_example_redirect.
