(* C14 — URL dispatch follows the documented resolution rule.
   Only statements; each closed by `exact` of a lemma proved in Proofs/Dispatch*.v.

   resolve_ix   = UrlDispatcher.resolve as written (matched sub-apps first, then the walk over
                  url_part from longest to shortest through _resource_index; sub-applications resolved
                  recursively through their own, re-indexed, tables; a sub-application's own 404/405
                  keeps the allowed methods collected before it, _merge_allowed);
   resolve_rule = the documented rule (resources ordered by decreasing length of their fixed prefix,
                  registration order among equals, each asked with its declarative path test, the method
                  must match, allowed methods accumulated in that order);
   build_app    = add_route / add_static / add_subapp (with _add_prefix_to_resources) / add_domain / freeze.
   `p` is request.rel_url.path_safe; it starts with '/' (origin-form).
   op_clean: the prefix given to add_subapp contains no '%' and no '{' (it reaches the sub-application's
   resources as typed, so only then is it the same text in the formatter and in the decoded path). *)
From AV Require Import Lib.Base Lib.Utf8 Generated.DispatchGen Model.Dispatch
  Proofs.DispatchStrings Proofs.DispatchRule Proofs.DispatchIndex Proofs.DispatchStatus
  Proofs.DispatchTemplate Proofs.DispatchRedirect Proofs.DispatchMain.
Open Scope N_scope.

(* ---------------------------------------------------------------- handler and match_info = the rule *)

(* PARTIAL only in the hypothesis op_clean (add_subapp prefixes without '%' and '{'; missing: prefixes
   given already percent-encoded, which reach the sub-application's resources undecoded).  Otherwise
   for EVERY operation list that builds (any nesting of sub-apps and domain sub-apps, any registration
   order), every path_safe path, method and Host: the index walk chooses the handler, match_info and
   allowed-method list of the documented rule. *)
Theorem C14_dispatch_follows_rule_partial : forall ops rt host p m,
  Forall op_clean ops -> build_app ops = BOk rt ->
  starts_with [SLASH] p = true ->
  resolve_ix rt host p m = resolve_rule rt host p m.
Proof. exact built_dispatch_follows_rule. Qed.
Print Assumptions C14_dispatch_follows_rule_partial.

(* its two halves: (1) FULL (since b7a1f19): index = rule for every table whose index is consistent,
   every path starting with '/', every method and Host ... *)
Theorem C14_index_eq_rule : forall rt host p m,
  router_ok rt -> starts_with [SLASH] p = true ->
  resolve_ix rt host p m = resolve_rule rt host p m.
Proof. exact index_eq_rule. Qed.
Print Assumptions C14_index_eq_rule.

(* ... (2) PARTIAL in op_clean as above: construction, including unindex / add_prefix / index of every indexed resource of a mounted
   sub-application (recursively; matched sub-apps are only prefixed), keeps every index consistent:
   each key lists exactly the resources with that key, in registration order; and every template
   literal is matched in the path_safe form of its formatter text. *)
Theorem C14_built_tables_consistent_partial : forall ops rt,
  Forall op_clean ops -> build_app ops = BOk rt -> router_ok rt.
Proof. exact build_app_ok. Qed.
Print Assumptions C14_built_tables_consistent_partial.

(* key lemmas of (1): a resource can only match paths that have its index key among their ancestors *)
Theorem C14_key_is_ancestor_brace : forall c L rest p,
  p <> [] -> memN ik_brace c = true ->
  (exists u, L = before_char ik_brace c ++ u) ->
  p = path_safe_dec L ++ rest ->
  In (index_key_of c) (ancestors p).
Proof. exact key_anc_brace. Qed.
Print Assumptions C14_key_is_ancestor_brace.

Theorem C14_key_is_ancestor_whole : forall c p,
  p <> [] -> memN ik_brace c = false -> p = path_safe_dec c -> In (index_key_of c) (ancestors p).
Proof. exact key_anc_whole. Qed.
Print Assumptions C14_key_is_ancestor_whole.

Example C14_example_table :
  exists rt, build_app ex_ops = BOk rt /\
    resolve_ix rt None [47; 115; 47; 115; 47; 113] s_GET = Found 4 [([121], [113])] /\
    resolve_ix rt None [47; 97; 47; 98] s_POST = Found 2 [([120], [98])] /\
    resolve_ix rt None [47; 97; 47; 98] s_DELETE = NotAllowed [s_GET; s_POST].
Proof. exact ex_builds_and_resolves. Qed.
Print Assumptions C14_example_table.

Example C14_example_hypotheses : Forall op_clean ex_ops.
Proof. exact ex_ops_ex_clean. Qed.
Print Assumptions C14_example_hypotheses.

(* ---------------------------------------------------------------- 404 / 405 *)

(* Since 2ef822d, through any nesting of sub-applications: a 404 is returned only if no resource
   matches the path — i.e. it does not depend on the method — and a 405 lists exactly the methods for
   which the same path is served.  FULL for every consistent well-formed table
   (C14_404_405_sweep_tables below); for operation lists PARTIAL in op_clean only. *)
Theorem C14_404_405_sweep_partial : forall ops rt host p,
  Forall op_clean ops -> build_app ops = BOk rt ->
  starts_with [SLASH] p = true ->
  (forall m, resolve_ix rt host p m = NotFound -> forall m', resolve_ix rt host p m' = NotFound) /\
  (forall m A, resolve_ix rt host p m = NotAllowed A ->
     forall m', (exists h mi, resolve_ix rt host p m' = Found h mi) <-> In m' A).
Proof. exact built_sweep. Qed.
Print Assumptions C14_404_405_sweep_partial.

(* FULL: every consistent, well-formed table (every leaf has a route, static resources list no wildcard) *)
Theorem C14_404_405_sweep_tables : forall rt host p,
  router_ok rt -> wf_router rt -> starts_with [SLASH] p = true ->
  sweep_ok (fun m => resolve_ix rt host p m).
Proof. exact ix_sweep. Qed.
Print Assumptions C14_404_405_sweep_tables.

Theorem C14_built_tables_well_formed : forall ops rt, build_app ops = BOk rt -> wf_router rt.
Proof. exact build_app_wf. Qed.
Print Assumptions C14_built_tables_well_formed.

(* the former refutation witnesses (parent route + sub-application on the same prefix) *)
Example C14_example_allow_complete :
  exists rt, build_app capture_ops = BOk rt /\
    resolve_ix rt None s_sx s_DELETE = NotAllowed [s_GET; s_POST] /\
    resolve_ix rt None s_sx s_GET = Found 1 [] /\ resolve_ix rt None s_sx s_POST = Found 2 [].
Proof. exact allow_complete_example. Qed.
Print Assumptions C14_example_allow_complete.

Example C14_example_static_before_subapp :
  exists rt, build_app capture404_ops = BOk rt /\
    resolve_ix rt None s_sy s_POST = NotAllowed [s_GET; s_HEAD] /\
    resolve_ix rt None s_sy s_GET = Found 1 [(FILENAME, [121])].
Proof. exact static_before_subapp_example. Qed.
Print Assumptions C14_example_static_before_subapp.

(* a plain resource is compared and indexed as written (b7a1f19): found also for a path that is not a fixed
   point of path_safe (former refutation witness of index = rule) *)
Example C14_example_plain_key_as_written :
  exists rt, build_app [ORoute s_POST s_a20b 1] = BOk rt /\ path_safe_dec s_a20b <> s_a20b /\
    resolve_ix rt None s_a20b s_POST = Found 1 [] /\ resolve_ix rt None s_a20b s_GET = NotAllowed [s_POST].
Proof. exact plain_key_as_written_example. Qed.
Print Assumptions C14_example_plain_key_as_written.

(* an application that has an add_domain sub-application can be mounted under a prefix (94230c1) *)
Example C14_example_nested_domain :
  exists rt, build_app nested_domain_ops = BOk rt /\
    resolve_ix rt (Some s_host) s_pz s_GET = Found 1 [] /\ resolve_ix rt None s_pz s_GET = NotFound.
Proof. exact nested_domain_example. Qed.
Print Assumptions C14_example_nested_domain.

(* ---------------------------------------------------------------- url_for and resolution *)

(* FULL (since 70456c5): every literal part of every template is matched in the path_safe form of the
   text the formatter (canonical, url_for) carries, and the index key is taken in that form too
   (C14_built_tables_consistent_partial). *)
Theorem C14_pattern_literals_decoded : forall path its,
  parse_template path = Some its -> Forall lit_decoded its.
Proof. exact parse_literals_decoded. Qed.
Print Assumptions C14_pattern_literals_decoded.

Example C14_example_requoted_roundtrip :
  exists pat, parse_template t_ab_x = Some pat /\ format_items pat [([120], [49])] = Some u_ab_1 /\
    path_safe_dec u_ab_1 = ps_ab_1 /\
    option_map unquote_dict (match_items pat ps_ab_1) = Some [([120], [49])] /\
    index_key_of (formatter_of pat) = [47; 97; 32; 98].
Proof. exact requoted_roundtrip_example. Qed.
Print Assumptions C14_example_requoted_roundtrip.

(* The full inverse statement (for every value free of '/', '{', '}') stays REFUTED for a hole that is
   followed inside its segment by more text (open finding C14-ambiguous-holes). *)
Theorem C14_url_for_inverse_refuted_ambiguous :
  exists pat u d, parse_template t_a_b = Some pat /\ format_items pat vals_ab = Some u /\
    memN PCT u = false /\ match_items pat u = Some d /\ unquote_dict d <> vals_ab.
Proof. exact url_for_ambiguous_witness. Qed.
Print Assumptions C14_url_for_inverse_refuted_ambiguous.

(* PARTIAL, regex level (hypothesis `good_for`: every value lies in its hole's class, is long enough,
   and every hole is closed by a character outside its class — '/' for the default class — or by the
   end of the template): matching the filled template returns exactly the values, for ALL templates
   and values (no backtracking ambiguity). *)
Theorem C14_match_fill_partial : forall its vals,
  good_for its vals -> match_items its (fill its vals) = Some (bindings its vals).
Proof. exact match_fill. Qed.
Print Assumptions C14_match_fill_partial.

(* PARTIAL, with the quoting layer (extra hypotheses: values over unreserved characters, literal
   parts without '%'; then the URL contains no '%', so path_safe is the identity on it).
   Missing: values / literals that need percent-encoding (path_safe_dec does not distribute over an
   arbitrary concatenation of quoted pieces, e.g. a literal ending in '%'). *)
Theorem C14_url_for_inverse_partial : forall o f pat rt vals,
  good_for pat vals -> plain_values pat vals -> lits_no_pct pat ->
  exists u, url_for (RDyn o f pat rt) vals = Some u /\ memN PCT u = false /\
            option_map unquote_dict (match_items pat u) = Some (bindings pat vals).
Proof. exact url_for_inverse_plain. Qed.
Print Assumptions C14_url_for_inverse_partial.

(* FULL (soundness of matching): every value in match_info lies in the class of its hole, for all
   templates and paths; in particular a plain {name} never captures '/', '{' or '}' (before
   _unquote_path_safe), so it stays inside one path segment as documented. *)
Theorem C14_match_values_in_class : forall its p d, match_items its p = Some d ->
  Forall (fun nv => exists c mn, In (Hole (fst nv) c mn) its /\ forallb (cls_mem c) (snd nv) = true) d.
Proof. exact match_values_in_class. Qed.
Print Assumptions C14_match_values_in_class.

Theorem C14_default_hole_stays_in_segment : forall its p d n v,
  match_items its p = Some d -> In (n, v) d ->
  (forall c mn, In (Hole n c mn) its -> c = CGood) ->
  ~ In 47 v /\ ~ In 123 v /\ ~ In 125 v.
Proof. exact default_hole_stays_in_segment. Qed.
Print Assumptions C14_default_hole_stays_in_segment.

Example C14_example_good_for :
  let pat := [Lit [47; 97; 47] [47; 97; 47]; Hole [120] CGood 1%nat; Lit [47; 98] [47; 98]; Hole [121] CDigit 1%nat] in
  let vals := [([120], [113; 45; 113]); ([121], [52; 50])] in
  good_for pat vals /\ plain_values pat vals /\ lits_no_pct pat.
Proof. exact ex_good_for. Qed.
Print Assumptions C14_example_good_for.

(* ---------------------------------------------------------------- path-normalising redirects *)

(* FULL: every candidate normalize_path_middleware resolves (and may redirect to) does not start
   with "//" (a scheme-relative, off-site reference), for all flag combinations and raw paths ... *)
Theorem C14_redirect_no_double_slash : forall a r mg path dec c,
  In c (redirect_candidates a r mg path dec) -> starts_with [SLASH; SLASH] c = false.
Proof. exact redirect_no_double_slash. Qed.
Print Assumptions C14_redirect_no_double_slash.

(* ... and is empty or starts with '/', when the request path does. *)
Theorem C14_redirect_rooted : forall a r mg path dec c,
  starts_with [SLASH] path = true ->
  In c (redirect_candidates a r mg path dec) -> c = [] \/ starts_with [SLASH] c = true.
Proof. exact redirect_rooted. Qed.
Print Assumptions C14_redirect_rooted.

Example C14_example_redirect :
  redirect_candidates true false true [47; 47; 101; 118; 105; 108; 46; 99; 111; 109] false
  = [[47; 101; 118; 105; 108; 46; 99; 111; 109];
     [47; 101; 118; 105; 108; 46; 99; 111; 109; 47];
     [47; 101; 118; 105; 108; 46; 99; 111; 109; 47]].
Proof. vm_compute. reflexivity. Qed.
Print Assumptions C14_example_redirect.
