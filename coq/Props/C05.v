(* C05 — Server connection: each request answered once, in order, or the connection is closed.
   Statements only; proofs in Proofs/ServerConn*.v over Model/ServerConn.v, whose cap constant, resume mark and
   comparisons are regenerated from aiohttp/web_protocol.py and aiohttp/http_parser.py (Generated/ServerGen.v).
   `Reach c s`: s is reachable from the fresh connection by ANY sequence of enabled events (reads with any parse
   items, handler starts/ends of every kind, clock advances, peer close) under ANY configuration c. *)
From Coq Require Import Sorted.
From AV Require Import Lib.Base Generated.ServerGen Model.ServerConn Proofs.ServerConnInv Proofs.ServerConnOrder Proofs.ServerConnTail Proofs.ServerConnExamples.
Open Scope N_scope.

(* The queue never holds more than MAX+1 parsed-but-unhandled requests, and the parser never counts more than MAX
   unconsumed messages.  (MAX+1, not MAX: popping an _ErrInfo item decrements the parser's counter although that item
   was never counted; the bound is attained, see the example.) *)
Theorem C05_queue_bound : forall c s, Reach c s ->
  nmsgs (q s) <= MAX_MSG_QUEUE_SIZE + 1 /\ p_infl (ps s) <= MAX_MSG_QUEUE_SIZE.
Proof. exact queue_bound. Qed.
Print Assumptions C05_queue_bound.

(* While the transport is reading (not paused by the protocol) the whole queue, error items included, is below the cap. *)
Theorem C05_reading_below_cap : forall c s, Reach c s -> paused s = false -> lenN (q s) < MAX_MSG_QUEUE_SIZE.
Proof. exact reading_below_cap. Qed.
Print Assumptions C05_reading_below_cap.

(* Never orphaned: an open connection always has a live start() task, and that task only waits for input when
   nothing is queued; _force_close and "transport gone" coincide at every quiescent point. *)
Theorem C05_never_orphaned : forall c s, Reach c s ->
  (closed s = false -> pc s <> PExit) /\ (pc s = PWait -> q s = []) /\ forcef s = closed s.
Proof. exact never_orphaned. Qed.
Print Assumptions C05_never_orphaned.

(* Pause/resume loses nothing: reading is paused only while more than the resume mark of items are queued (so a
   handler is running or about to be started), and when start() waits for input on an open connection the queue is
   empty, the transport is reading, and the parser's tail holds no item it could still parse.  Together with
   C05_never_orphaned: an open connection never sits idle with a received-but-unanswered request. *)
Theorem C05_paused_has_work : forall c s, Reach c s -> paused s = true ->
  msg_queue_resume_size MAX_MSG_QUEUE_SIZE < lenN (q s).
Proof. exact paused_has_work. Qed.
Print Assumptions C05_paused_has_work.

Theorem C05_idle_means_drained : forall c s, Reach c s -> closed s = false -> pc s = PWait ->
  q s = [] /\ p_tail (ps s) = [] /\ paused s = false.
Proof. exact idle_means_drained. Qed.
Print Assumptions C05_idle_means_drained.

(* Unparsable input: however the application ends the handler of the queued _ErrInfo request, the loop ends and the
   transport is closed ... *)
Theorem C05_bad_input_closes : forall c s started o s', Reach c s -> pc s = PHandler QErr started ->
  step c s (EDone o) = Some s' -> pc s' = PExit /\ closed s' = true.
Proof. exact err_request_closes. Qed.
Print Assumptions C05_bad_input_closes.

(* ... and when it ends the way web.Application ends it (the stored HTTPBadRequest is raised), a complete response
   with that status is the last thing written before the close. *)
Theorem C05_bad_input_400_close : forall c s status s', Reach c s -> pc s = PHandler QErr false -> closed s = false ->
  step c s (EDone (OHttp status)) = Some s' ->
  out s' = out s ++ [{| r_id := None; r_status := status; r_done := true |}] /\ pc s' = PExit /\ closed s' = true.
Proof. exact err_request_400. Qed.
Print Assumptions C05_bad_input_400_close.

(* ---- answered once, in order, never interleaved ------------------------------------------------------------- *)
(* FULL statements, for EVERY reachable state / EVERY handler ending (returning anything, raising anything at any point,
   cancellation, timeouts, swallowed prepare() errors).  They hold since the repairs ff054f9 (HTTPException after the
   response was started), ba690df (a failed prepare() un-starts the response) and 2a9b996 (a response object other than the
   started one is refused by finish_response()); each of the three was a refutation witness of the faithful model before,
   replayed on the real code, and is now a corpus regression case and a translator shape obligation. *)

(* the request numbers of the responses on the wire are strictly increasing (at most one response per request, in request
   order); every response but the last is complete (no bytes of two responses interleave); an incomplete last response
   means the connection is closed or its handler is still streaming it *)
Theorem C05_order_once : forall c s, Reach c s ->
  StronglySorted N.lt (rids (wire s)) /\
  all_done (removelast (wire s)) = true /\
  (all_done (wire s) = false -> closed s = true \/ exists cur, pc s = PHandler cur true).
Proof. exact order_once. Qed.
Print Assumptions C05_order_once.

(* whenever a handler ends, either the connection is closed or exactly one complete response for that request has been appended *)
Theorem C05_answered_or_closed : forall c s cur started o s',
  Reach c s -> pc s = PHandler cur started -> step c s (EDone o) = Some s' ->
  closed s' = true \/ exists status, out s' = out s ++ [{| r_id := id_of cur; r_status := status; r_done := true |}].
Proof. exact answered_or_closed_reach. Qed.
Print Assumptions C05_answered_or_closed.

(* ---- non-vacuity -------------------------------------------------------------------------------------------- *)

(* 40 pipelined requests in one read while the first handler is still running: 32 are parsed (1 popped, 31 queued),
   reading is paused, 8 stay in the parser's tail *)
Example C05_example_pipeline :
  exists s, run cfg0 init [EData (heads 40)] = Some s /\
            nmsgs (q s) = 31 /\ p_infl (ps s) = 31 /\ paused s = true /\ lenN (p_tail (ps s)) = 8 /\ pc s <> PWait.
Proof. exact example_pipeline. Qed.
Print Assumptions C05_example_pipeline.

(* the bound MAX+1 is attained: an _ErrInfo queued behind a running handler, then 15 requests; popping the error item
   frees a slot it never occupied, and a read of 40 more requests fills the queue to 33 parsed requests *)
Example C05_example_bound_attained :
  exists s, run cfg0 init [EData (heads 1); EData [IBad false]; EData (heads 15); EDone (ORet true 200); EData (heads 40)] = Some s /\
            nmsgs (q s) = 33 /\ pc s = PHandler QErr false.
Proof. exact example_bound_attained. Qed.
Print Assumptions C05_example_bound_attained.

(* a parse error behind two good requests: both are answered, then the 400, then the close *)
Example C05_example_400 :
  exists s, run cfg0 init [EData (heads 2); EDone (ORet true 200); EData [IBad false]; EDone (ORet true 200);
                           EDone (OHttp 400)] = Some s /\
            closed s = true /\ List.map r_status (out s) = [200; 200; 400].
Proof. exact example_400. Qed.
Print Assumptions C05_example_400.

(* a history with plain, streamed, HTTPException, and HTTPException raised after streaming started (connection closed mid-response) *)
Example C05_example_mixed :
  exists s, run cfg0 init mixed_es = Some s /\
            Reach cfg0 s /\ closed s = true /\
            List.map (fun r => (r_id r, r_status r, r_done r)) (wire s) = [(Some 0, 200, true); (Some 1, 200, true); (Some 2, 404, true); (Some 3, 200, false)].
Proof. exact example_mixed. Qed.
Print Assumptions C05_example_mixed.

(* the three repaired endings close the connection *)
Example C05_example_repaired :
  exists s1 s2 s3,
    run cfg0 init [EData [IHead false false]; EStart; EDone (OHttp 404)] = Some s1 /\
    run cfg0 init [EData [IHead false false]; EDone OSwallow] = Some s2 /\
    run cfg0 init [EData [IHead false false]; EStart; EDone (ORet true 200)] = Some s3 /\
    closed s1 = true /\ List.map r_done (out s1) = [false] /\ closed s2 = true /\ out s2 = [] /\
    closed s3 = true /\ List.map r_done (out s3) = [false].
Proof. exact example_repaired. Qed.
Print Assumptions C05_example_repaired.
