(* C19 — Multipart codec round trip, truthful size, reader termination.
   Only statements; each closed by `exact` of a lemma proved in Proofs/. *)
From AV Require Import Lib.Base Generated.MultipartGen Model.Multipart Proofs.MultipartSize.
Open Scope N_scope.

(* The declared size, when present, equals the bytes written: for every boundary and every part list.
   [size] uses the formula generated from MultipartWriter.size, [encode] the framing generated from
   MultipartWriter.write. *)
Theorem C19_size_truthful : forall b ps n, size b ps = Some n -> lenN (encode b ps) = n.
Proof. exact size_truthful. Qed.
Print Assumptions C19_size_truthful.

(* ... and it is present exactly when no part carries a Content-Encoding / Content-Transfer-Encoding *)
Theorem C19_size_present_iff_identity : forall b ps,
  (exists n, size b ps = Some n) <-> forallb wp_identity ps = true.
Proof. exact size_some_iff. Qed.
Print Assumptions C19_size_present_iff_identity.

Example C19_size_example :
  size [66] [mkW [88; 58; 32; 49; 13; 10; 13; 10] [104; 105] true; mkW [13; 10] [] true] = Some 33 /\
  lenN (encode [66] [mkW [88; 58; 32; 49; 13; 10; 13; 10] [104; 105] true; mkW [13; 10] [] true]) = 33.
Proof. vm_compute. split; reflexivity. Qed.
Print Assumptions C19_size_example.
