(* C19 — Multipart codec round trip, truthful size, reader termination.
   Only statements; each closed by `exact` of a lemma proved in Proofs/. *)
From AV Require Import Lib.Base Lib.BytesX Generated.MultipartGen Model.Multipart Model.MultipartSpec
  Proofs.MultipartSize Proofs.MultipartTerm Proofs.MultipartRoundtrip Proofs.MultipartBase64 Proofs.MultipartWindow Proofs.MultipartLimits Proofs.MultipartReadline.
Open Scope N_scope.

(* ------------------------------------------------------------------ truthful size *)

(* The declared size, when present, equals the bytes written: for every boundary and every part list.
   [size] uses the formula generated from MultipartWriter.size, [encode] the framing byte strings generated
   from MultipartWriter.write / as_bytes. *)
Theorem C19_size_truthful : forall b ps n, size b ps = Some n -> lenN (encode b ps) = n.
Proof. exact size_truthful. Qed.
Print Assumptions C19_size_truthful.

(* ... and it is present exactly when no part carries a Content-Encoding / Content-Transfer-Encoding *)
Theorem C19_size_present_iff_identity : forall b ps,
  (exists n, size b ps = Some n) <-> forallb wp_identity ps = true.
Proof. exact size_some_iff. Qed.
Print Assumptions C19_size_present_iff_identity.

Example C19_size_example :
  size [66] [mkW [88; 58; 32; 49; 13; 10; 13; 10] [104; 105] true; mkW [13; 10] [] true] = Some 33 /\
  lenN (encode [66] [mkW [88; 58; 32; 49; 13; 10; 13; 10] [104; 105] true; mkW [13; 10] [] true]) = 33.
Proof. vm_compute. split; reflexivity. Qed.
Print Assumptions C19_size_example.

(* ------------------------------------------------------------------ round trip (specification-level splitter) *)

(* Splitting the written bytes at CRLF "--" boundary gives back exactly the written blocks (header block ++
   content), for every boundary and every list of parts none of which contains the delimiter (inside, or
   across its end together with the following delimiter).  The sliding-window reader of the implementation
   (BodyPartReader._read_chunk_from_stream) is modelled in Model/Multipart.v and compared with the
   implementation on every check; its refinement of this splitter is not proved (stretch goal): what ties
   the window reader to this statement is the correspondence suite `roundtrip` and the oracle. *)
Theorem C19_roundtrip_spec : forall b ps,
  forallb (block_clean b) ps = true -> spec_decode b (encode b ps) = Some (map block ps).
Proof. exact roundtrip_spec. Qed.
Print Assumptions C19_roundtrip_spec.

Theorem C19_framing_injective : forall b ps qs,
  forallb (block_clean b) ps = true -> forallb (block_clean b) qs = true ->
  encode b ps = encode b qs -> map block ps = map block qs.
Proof. exact encode_injective. Qed.
Print Assumptions C19_framing_injective.

(* hypotheses satisfiable by a non-trivial value: content full of CR/LF and a proper delimiter prefix *)
Example C19_roundtrip_example :
  let ps := [mkW [88; 58; 32; 49; 13; 10; 13; 10] [13; 10; 45; 45; 13; 10; 45; 45; 66; 13] true; mkW [13; 10] [] false] in
  forallb (block_clean [66; 78]) ps = true /\
  spec_decode [66; 78] (encode [66; 78] ps) = Some (map block ps).
Proof. vm_compute. split; reflexivity. Qed.
Print Assumptions C19_roundtrip_example.

(* ------------------------------------------------------------------ the sliding-window reader returns the content *)

(* Wanted: under any segmentation and any API schedule the reader returns the same parts.  Proved here, for a part
   without Content-Length and without base64 (form-data fields, encoded parts of other subtypes) whose content is
   followed by CRLF "--" boundary and anything else, fed in ANY segmentation (segment sizes, arrival delays, eager
   or late EOF), whatever read-ahead, push-back and boundary straddling occurs: if BodyPartReader.read() does not
   raise, it returns exactly the content.  [_partial]: the extra hypothesis is in the conclusion's premise
   `= Ok ...` - that a VALID body never raises ("Reading after EOF", the CRLF check after the part) is not
   proved, nor is the Content-Length path or the readline API; those rest on the correspondence suites.
   Together with C19_read_terminates: read() ends, and ends with the content or an exception. *)
Theorem C19_window_reader_sound_partial : forall bnd body rest mx segs eager limit fuel data p' s',
  (forall i, (i < 2 + length body)%nat ->
     starts_with (delim_prefix ++ bnd) (skipn i (delim_prefix ++ body ++ (delim_prefix ++ bnd) ++ rest)) = false) ->
  concat (map snd segs) = body ++ (delim_prefix ++ bnd) ++ rest ->
  part_read fuel (new_part bnd None false mx) (s_init segs eager limit) = Ok (data, p', s') -> data = body.
Proof. exact window_reader_sound_segs. Qed.
Print Assumptions C19_window_reader_sound_partial.

(* the same for `while not part.at_eof(): await part.read_chunk(size_i)` with any sizes in rotation *)
Theorem C19_window_reader_chunks_sound_partial :
  forall bnd body rest mx segs eager limit fuel sizes count bounded data p' s',
  (forall i, (i < 2 + length body)%nat ->
     starts_with (delim_prefix ++ bnd) (skipn i (delim_prefix ++ body ++ (delim_prefix ++ bnd) ++ rest)) = false) ->
  concat (map snd segs) = body ++ (delim_prefix ++ bnd) ++ rest ->
  chunks_loop fuel sizes count bounded [] (new_part bnd None false mx) (s_init segs eager limit) = Ok (data, p', s') ->
  p_at_eof p' = true -> data = body.
Proof. exact window_reader_chunks_sound_segs. Qed.
Print Assumptions C19_window_reader_chunks_sound_partial.

(* ... and from any reachable reader state (any push-back history), not only from a fresh stream *)
Theorem C19_window_reader_sound_any_state_partial : forall bnd body rest mx s fuel data p' s',
  (forall i, (i < 2 + length body)%nat ->
     starts_with (delim_prefix ++ bnd) (skipn i (delim_prefix ++ body ++ (delim_prefix ++ bnd) ++ rest)) = false) ->
  s_ok s -> L s = body ++ (delim_prefix ++ bnd) ++ rest ->
  part_read fuel (new_part bnd None false mx) s = Ok (data, p', s') -> data = body.
Proof. exact window_reader_sound. Qed.
Print Assumptions C19_window_reader_sound_any_state_partial.

(* non-vacuity: content CR LF "-" "-" (a proper prefix of the delimiter), boundary "--B", delivered byte by byte
   with read_chunk sizes 5 and 6: the hypotheses hold and the loop returns the content *)
Example C19_window_reader_example :
  let bnd := [45; 45; 66] in let body := [13; 10; 45; 45] in let rest := [45; 45; 13; 10] in
  let segs := map (fun c => (1, [c])) (body ++ (delim_prefix ++ bnd) ++ rest) in
  (forall i, (i < 2 + length body)%nat ->
     starts_with (delim_prefix ++ bnd) (skipn i (delim_prefix ++ body ++ (delim_prefix ++ bnd) ++ rest)) = false) /\
  concat (map snd segs) = body ++ (delim_prefix ++ bnd) ++ rest /\
  (exists p' s', chunks_loop 100 [5; 6] 0 false [] (new_part bnd None false 1000) (s_init segs false 65536) = Ok (body, p', s')
                 /\ p_at_eof p' = true) /\
  (exists p' s', part_read 100 (new_part bnd None false 1000) (s_init segs true 65536) = Ok (body, p', s')).
Proof.
  cbv zeta. split; [|split; [vm_compute; reflexivity|split]].
  - intros i Hi. do 6 (destruct i as [|i]; [vm_compute; reflexivity|]). cbn in Hi. lia.
  - eexists. eexists. split; vm_compute; reflexivity.
  - eexists. eexists. vm_compute. reflexivity.
Qed.
Print Assumptions C19_window_reader_example.

(* ------------------------------------------------------------------ termination of the reading loops *)

(* One read_chunk call (with the re-reads a base64 part may need) of any size > 0, in ANY part state over ANY stream state (any segmentation, arrival
   schedule, push-back history): it raises, or the part is at_eof afterwards, or the measure
   4 * (2 * bytes left in the stream + |_prev_chunk|) + (3 - _content_eof) strictly decreases. *)
Theorem C19_read_chunk_progress : forall size p s d p' s',
  0 < size -> wf p -> p_at_eof p = false ->
  read_chunk size p s = Ok (d, p', s') ->
  p_at_eof p' = true \/ (measure p' s' < measure p s /\ wf p').
Proof. exact read_chunk_progress. Qed.
Print Assumptions C19_read_chunk_progress.

(* BodyPartReader.read(): the model's loop bound is never the reason it stops *)
Theorem C19_read_terminates : forall fuel acc p s,
  wf p -> (N.to_nat (measure p s) < fuel)%nat -> read_loop fuel acc p s <> Err EFuel.
Proof. exact read_loop_terminates. Qed.
Print Assumptions C19_read_terminates.

(* BodyPartReader.release() (also what MultipartReader.next() runs on an unfinished part) *)
Theorem C19_release_terminates : forall fuel p s,
  wf p -> (N.to_nat (measure p s) < fuel)%nat -> release_loop fuel p s <> Err EFuel.
Proof. exact release_loop_terminates. Qed.
Print Assumptions C19_release_terminates.

(* `while not part.at_eof(): await part.read_chunk(size_i)` for any positive sizes in rotation *)
Theorem C19_read_chunk_loop_terminates : forall fuel sizes count bounded acc p s,
  Forall (fun z => 0 < z) sizes -> wf p -> (N.to_nat (measure p s) < fuel)%nat ->
  chunks_loop fuel sizes count bounded acc p s <> Err EFuel.
Proof. exact chunks_loop_terminates. Qed.
Print Assumptions C19_read_chunk_loop_terminates.

(* a freshly created part (any boundary, Content-Length, base64 flag, limit) over any stream: read() ends
   within 8 * (bytes in the stream) + 4 read_chunk calls *)
Theorem C19_fresh_part_read_terminates : forall b len b64 mx s,
  part_read (S (N.to_nat (8 * s_total s + 3))) (new_part b len b64 mx) s <> Err EFuel.
Proof. exact part_read_terminates. Qed.
Print Assumptions C19_fresh_part_read_terminates.

Example C19_termination_hypotheses :
  wf (new_part [45; 45; 66] (Some 5) false 100) /\
  measure (new_part [45; 45; 66] (Some 5) false 100) (s_init [(0, [1; 2; 3]); (2, [4])] false 65536) = 35.
Proof. vm_compute. split; [right; discriminate | reflexivity]. Qed.
Print Assumptions C19_termination_hypotheses.

(* The readline API (after fix 5a38184, which gave readline() the EOF guard read_chunk() has): one readline() call in
   ANY part state over ANY stream state raises, reaches at_eof, or strictly decreases
   8 * (2 * bytes left in the stream + bytes held in _unread) + 2 * (3 - _content_eof) + [stream not at EOF] ... *)
Theorem C19_readline_progress : forall p s d p' s',
  p_at_eof p = false -> part_readline p s = Ok (d, p', s') ->
  p_at_eof p' = true \/ rl_measure p' s' < rl_measure p s.
Proof. exact part_readline_progress. Qed.
Print Assumptions C19_readline_progress.

(* ... so `while not part.at_eof(): await part.readline()` ends, on every input (this statement was REFUTED before
   the fix: at stream EOF readline() returned b"" forever) *)
Theorem C19_readline_loop_terminates : forall fuel count bounded acc p s,
  (N.to_nat (rl_measure p s) < fuel)%nat -> lines_loop fuel count bounded acc p s <> Err EFuel.
Proof. exact lines_loop_terminates. Qed.
Print Assumptions C19_readline_loop_terminates.

(* the former refutation witness (a part on an exhausted stream): the loop now ends with ValueError; regression case
   corpus/C19/fixed-readline_loop_at_eof.json *)
Example C19_readline_loop_at_eof_fixed :
  lines_loop 10 0 false [] (new_part [45; 45; 66] None false 0) (s_init [] true 100) = Err EValue.
Proof. vm_compute. reflexivity. Qed.
Print Assumptions C19_readline_loop_at_eof_fixed.

(* ------------------------------------------------------------------ base64 quartet alignment *)

(* _align_base64_chunk, for every chunk, requested size and part state (before the end of the part): the chunk it
   hands back holds a multiple of four base64 characters - possibly none: after a short read the partial quartet is
   carried and read_chunk reads on (fix 75d1fb0) - with one documented exception kept by the code: the requested
   number of bytes was there and held no whole quartet, then they are handed back as they are. *)
Theorem C19_base64_quartets : forall chunk size p c p',
  align_base64 chunk size p = (c, p') -> at_end p = false ->
  count_b64 c mod 4 = 0 \/ (size <= lenN c /\ count_b64 c < 4).
Proof. exact align_base64_quartets. Qed.
Print Assumptions C19_base64_quartets.

(* the witness that used to refute alignment (first stream read = one content byte): read_chunk(8192) now returns a
   non-empty chunk of whole quartets; regression case corpus/C19/fixed-base64_short_read.json *)
Example C19_base64_short_read_fixed :
  exists d p' s', read_chunk chunk_size b64_part b64_stream = Ok (d, p', s') /\ d <> [] /\ count_b64 d mod 4 = 0.
Proof. exact base64_short_read_example. Qed.
Print Assumptions C19_base64_short_read_fixed.

Example C19_base64_example :
  let p := new_part [45; 45; 66] None true 100 in
  at_end p = false /\
  align_base64 [89; 87; 74; 106; 13; 10; 90; 71; 86] 8192 p = ([89; 87; 74; 106; 13; 10], p_set_carry [90; 71; 86] p) /\
  align_base64 [89; 87] 8192 p = ([], p_set_carry [89; 87] p).
Proof. vm_compute. repeat split; reflexivity. Qed.
Print Assumptions C19_base64_example.

(* ------------------------------------------------------------------ limits while reading; nested readers *)

(* MultipartReader._read_headers, for every reader state and stream state: each accepted header line is at most
   max_field_size bytes, at most max_headers lines are accepted; the model tests each line as it is read (the
   translator checks that the source does: readline(max_line_length=...) and the count test inside the loop). *)
Theorem C19_header_limits_while_reading : forall fuel r s ls s',
  0 < r_max_field r -> read_header_lines fuel [] r s = Ok (ls, s') ->
  Forall (fun l => lenN l <= r_max_field r) ls /\ lenN ls <= r_max_headers r.
Proof. exact fresh_header_block_limits. Qed.
Print Assumptions C19_header_limits_while_reading.

(* MultipartReader.next(): the reader keeps its limits, and the reader it creates for a nested multipart part
   starts with the same max_field_size, max_headers and client_max_size - so the statement above holds with the
   TOP-LEVEL limits for the parts of nested multiparts too. *)
Theorem C19_nested_reader_inherits_limits : forall fuel r last s x r' s',
  reader_next fuel r last s = Ok (x, r', s') ->
  limits_of r' = limits_of r /\ (forall hs c, x = NNested hs c -> limits_of c = limits_of r).
Proof. exact reader_next_limits. Qed.
Print Assumptions C19_nested_reader_inherits_limits.

(* quartet alignment is switched on by the lower-cased Content-Transfer-Encoding token *)
Theorem C19_base64_token_any_case : forall r hs hs' p v,
  make_part r hs = Ok (FPart hs' p) -> get_header h_cte hs = Some v -> p_b64 p = list_eqb (map lower v) t_base64.
Proof. exact make_part_b64_any_case. Qed.
Print Assumptions C19_base64_token_any_case.

Example C19_base64_token_example :
  let r := new_reader [66] false 8190 128 1000 in
  let hs := [([67; 111; 110; 116; 101; 110; 116; 45; 84; 114; 97; 110; 115; 102; 101; 114; 45; 69; 110; 99; 111; 100; 105; 110; 103],
              [66; 97; 83; 69; 54; 52])] in
  exists p, make_part r hs = Ok (FPart hs p) /\ p_b64 p = true.
Proof. eexists. split; vm_compute; reflexivity. Qed.
Print Assumptions C19_base64_token_example.

Example C19_nested_example :
  let r := new_reader [66] false 64 8 1000 in
  let hs := [([67; 111; 110; 116; 101; 110; 116; 45; 84; 121; 112; 101],
              [109; 117; 108; 116; 105; 112; 97; 114; 116; 47; 109; 105; 120; 101; 100; 59; 32; 98; 111; 117; 110; 100; 97; 114; 121; 61; 34; 105; 110; 34])] in
  exists c, make_part r hs = Ok (FNested hs c) /\ r_boundary c = [45; 45; 105; 110] /\ limits_of c = (64, 8, 1000).
Proof. eexists. split; [vm_compute; reflexivity|split; reflexivity]. Qed.
Print Assumptions C19_nested_example.
