(* C08 — Stream reader: exact ordered delivery with back-pressure. (statements only) *)
From AV Require Import Lib.Base Generated.StreamGen Model.Stream.
Open Scope Z_scope.

Example C08_example_limit0_stuck :
  let '(y, _) := run [OFeed [97;98;99]; OStart CReadAny; OStart CReadAny] (init_sys 0) in
  wt (sst y) = Waiting /\ paused (sst y) = true.
Proof. vm_compute. split; reflexivity. Qed.
Print Assumptions C08_example_limit0_stuck.
