(* C08 — Stream reader: exact ordered delivery with back-pressure.
   Only statements; each closed by `exact` of a lemma proved in Proofs/Stream*.v.

   Model: Model/Stream.v (StreamReader + BaseProtocol pause/resume + a parser stub that feeds held
   input re-entrantly on resume).  `run ops (init_sys limit)` executes ANY finite sequence of
   producer operations (feed_data of any size, begin/end chunk, feed_eof, set_exception, input held by
   the parser), consumer calls (read(n), read(), readany, readuntil/readline, readexactly, readchunk,
   read_nowait, unread_data, set_read_chunk_size) and event-loop turns (ORun resumes a woken reader),
   and returns the final system state and one observation per operation.  All theorems quantify over
   every such sequence and every limit (no bound). *)
From AV Require Import Lib.Base Generated.StreamGen Model.Stream
  Proofs.StreamBase Proofs.StreamInv Proofs.StreamFlow Proofs.StreamDeliver Proofs.StreamEof Proofs.StreamChunk Proofs.StreamFuel Proofs.StreamChunkExact.
Open Scope Z_scope.

(* ---- exact ordered delivery ------------------------------------------------------------------
   obs_bytes b   = the bytes operation b handed to its caller (returned bytes; for a call that raised,
                   the bytes it had already taken: IncompleteReadError.partial, LineTooLong's line, or
                   what read()/readexactly()/readuntil() had accumulated when the stream exception hit)
   inflight y    = the bytes the suspended call has accumulated so far
   fedlog        = concatenation of every non-empty block accepted by feed_data, in order
                   (unread_data inserts its argument at the current read position)
   So: no loss, no duplication, no reordering, at every point of every run. *)
Theorem C08_conservation : forall limit ops y bs,
  run ops (init_sys limit) = (y, bs) ->
  concat (map obs_bytes bs) ++ inflight y ++ concat (buf (sst y)) = fedlog (sst y).
Proof. exact conservation. Qed.
Print Assumptions C08_conservation.

(* the bookkeeping the implementation relies on holds in every reachable state *)
Theorem C08_invariant : forall limit ops, Inv (sst (fst (run ops (init_sys limit)))).
Proof. exact Inv_run. Qed.
Print Assumptions C08_invariant.

(* ---- end-of-stream last -------------------------------------------------------------------------
   After ANY run, if the next operation completes a call with an end-of-stream indication
   (read(n>0)/readany/readline/readuntil returning b"", read() returning, readexactly raising
   IncompleteReadError, readchunk returning (b"", False); async iteration stops on exactly these)
   then EOF was fed and the buffer is empty; by C08_conservation everything received has then
   been handed out.  `eof_ind_c` / `eof_ind_k` (Proofs/StreamEof.v) name those results for a call that
   completes at once / a suspended call that the loop resumes. *)
Theorem C08_eof_last : forall limit ops o y' r,
  let y := fst (run ops (init_sys limit)) in
  step o y = (y', ObDone r) ->
  match o with
  | OStart c => eof_ind_c c r
  | ORun => match task y with Some k => eof_ind_k k r | None => False end
  | _ => False
  end ->
  at_eof (sst y') = true.
Proof. exact eof_last. Qed.
Print Assumptions C08_eof_last.

(* ---- chunk boundaries ----------------------------------------------------------------------------
   endlog = the values of total_bytes recorded by end_http_chunk_receiving (the sender's chunk ends);
   cursor = the read position in the same coordinates (cursor + size = total_bytes, C08_invariant).
   Whenever readchunk (called now, or suspended and resumed) returns (data, True), the read position
   is one of the sender's chunk ends. *)
Theorem C08_chunk_boundary_sound : forall limit ops o y' d,
  let y := fst (run ops (init_sys limit)) in
  step o y = (y', ObDone (RChunk d true)) ->
  o = OStart CReadChunk \/ (o = ORun /\ task y = Some KReadChunk) ->
  In (cursor (sst y')) (endlog (sst y')).
Proof. exact chunk_sound. Qed.
Print Assumptions C08_chunk_boundary_sound.

(* Exactness, for a consumer that reads only with readchunk (async for ... in iter_chunks()), under
   every producer behaviour: the positions reported so far, followed by the splits still pending, are
   exactly the positions recorded by end_http_chunk_receiving: none skipped, none invented, in order.
   (With other reads mixed in, boundaries the cursor has passed are dropped by design; soundness above
   still holds.) *)
Theorem C08_chunk_boundaries_exact : forall limit ops,
  Forall chunk_only_op ops ->
  endlog (sst (fst (run ops (init_sys limit)))) =
  reports ops (init_sys limit) ++ rem (sst (fst (run ops (init_sys limit)))).
Proof. exact chunk_exact. Qed.
Print Assumptions C08_chunk_boundaries_exact.

(* ---- the model's own artefacts are unreachable: recursion fuel always suffices and
   `self._buffer[0]` is never evaluated on an empty deque, in every run *)
Theorem C08_no_model_artefact : forall limit ops,
  Forall clean_obs (snd (run ops (init_sys limit))).
Proof. exact run_clean. Qed.
Print Assumptions C08_no_model_artefact.

(* ---- back-pressure ------------------------------------------------------------------------------ *)

(* pause: feed_data leaves the transport paused whenever the buffer exceeds the high-water mark *)
Theorem C08_pause_on_high_water : forall d s s',
  feed_data d s = (s', None) -> d <> [] -> high s' < size s' -> paused s' = true.
Proof. exact feed_pauses. Qed.
Print Assumptions C08_pause_on_high_water.

(* ... and end_http_chunk_receiving when more than high_water_chunks splits are outstanding *)
Theorem C08_pause_on_chunk_count : forall s s' l,
  end_chunk s = (s', None) -> splits s' = Some l -> splits s <> Some l -> highc s' < len l -> paused s' = true.
Proof. exact end_chunk_pauses. Qed.
Print Assumptions C08_pause_on_chunk_count.

(* resume: after any consumption step (_read_nowait_chunk, including the re-entrant feeding it may
   trigger) the transport is paused only if EOF was fed (nothing is resumed any more, b336e09), or the
   buffer is non-empty and at/above the low-water mark, or at least low_water_chunks splits are outstanding.  `Wq true s` (0 <= low <= high, 2 <= lowc <= highc)
   holds in every reachable state when limit >= 0 (C08_water_marks_ordered). *)
Theorem C08_resume_below_low_water : forall n f r s,
  Inv s -> Wq true s -> buf s = f :: r -> pause_justified (fst (rnc n f r s)).
Proof. exact rnc_resume_rule. Qed.
Print Assumptions C08_resume_below_low_water.

Theorem C08_water_marks_ordered : forall limit ops,
  0 <= limit -> Wq true (sst (fst (run ops (init_sys limit)))).
Proof. exact Wb_run. Qed.
Print Assumptions C08_water_marks_ordered.

(* no stuck pause, for EVERY limit (including read_bufsize = 0 and negative values): whenever the
   reader is suspended in _wait the buffer is empty and the transport is reading; more generally an
   empty buffer is never left paused.  (Before repair b609c8c this needed 1 <= limit and was refuted
   at limit = 0; the old witness is now the regression case corpus/C08/limit0_stuck.json and the
   example below.) *)
Theorem C08_not_stuck : forall limit ops,
  let y := fst (run ops (init_sys limit)) in
  wt (sst y) = Waiting -> buf (sst y) = [] /\ paused (sst y) = false.
Proof. exact not_stuck. Qed.
Print Assumptions C08_not_stuck.

(* a suspended reader implies an open stream *)
Theorem C08_waiting_implies_not_eof : forall limit ops,
  let y := fst (run ops (init_sys limit)) in
  wt (sst y) = Waiting -> eof (sst y) = false.
Proof. exact waiting_not_eof. Qed.
Print Assumptions C08_waiting_implies_not_eof.

(* Auxiliary, stronger than the property: on an OPEN stream an empty buffer is never left paused.
   Since repair b336e09 (`not self._eof and ...` in the resume test: a completely received message no
   longer touches the connection it may have given back) the hypothesis `eof = false` is needed:
   feed_eof() itself resumes the transport, but a producer call that pauses AFTER EOF
   (end_http_chunk_receiving with more than high_water_chunks splits outstanding) is no longer undone by
   draining; see the example below.  No reader can be suspended in that state (C08_waiting_implies_not_eof),
   so the property ("a blocked reader is never left with the transport paused", C08_not_stuck) is
   unaffected, for every limit. *)
Theorem C08_empty_buffer_is_reading_partial : forall limit ops,
  let y := fst (run ops (init_sys limit)) in
  eof (sst y) = false -> buf (sst y) = [] -> paused (sst y) = false.
Proof. exact empty_buffer_reading. Qed.
Print Assumptions C08_empty_buffer_is_reading_partial.

Example C08_example_paused_after_eof :
  let y := fst (run [OBegin; OFeed [1%N]; OEnd; OFeed [2%N]; OEnd; OFeed [3%N]; OEnd; OFeed [4%N]; OEnd;
                     OFeed [5%N]; OEof; OEnd; OStart (CRead (-1))] (init_sys 1)) in
  eof (sst y) = true /\ buf (sst y) = [] /\ paused (sst y) = true /\ task y = None.
Proof. vm_compute. repeat split. Qed.
Print Assumptions C08_example_paused_after_eof.

(* ---- a reader does not hang once an exception is set (repair 497a2a6) ----------------------------
   In every reachable state: no reader is suspended on a pending waiter while self._exception is set
   (set_exception fails the waiter if there is one; _wait raises a pending exception before creating a
   new one).  A reader that was woken with the exception completes, on its next loop turn, by raising it. *)
Theorem C08_no_wait_with_exception : forall limit ops,
  let y := fst (run ops (init_sys limit)) in
  wt (sst y) = Waiting -> exc (sst y) = None.
Proof. exact NE_run. Qed.
Print Assumptions C08_no_wait_with_exception.

Theorem C08_exception_unblocks : forall limit ops,
  let y := fst (run ops (init_sys limit)) in
  exc (sst y) <> None -> wt (sst y) <> Waiting.
Proof. exact exception_unblocks. Qed.
Print Assumptions C08_exception_unblocks.

Theorem C08_woken_reader_raises : forall y k e,
  task y = Some k -> wt (sst y) = WokenExc e ->
  snd (step ORun y) = ObDone (RRaise (ExStream e) (acc_of k)) /\ task (fst (step ORun y)) = None.
Proof. exact woken_reader_completes_on_exception. Qed.
Print Assumptions C08_woken_reader_raises.

(* the repaired scenario: read(3) suspended, woken by a chunk end without data, exception set before
   the reader runs: the reader now raises instead of waiting again *)
Example C08_example_exception_after_wakeup :
  snd (run [OBegin; OFeed [97%N]; OStart CReadAny; OStart (CRead 3); OEnd; OExc 1%N; ORun] (init_sys 4)) =
  [ObNone; ObNone; ObDone (RBytes [97%N]); ObBlocked; ObNone; ObNone; ObDone (RRaise (ExStream 1%N) [])].
Proof. vm_compute. reflexivity. Qed.
Print Assumptions C08_example_exception_after_wakeup.

(* the former counterexample: limit = 0, feed_data(b"abc"); readany(); readany() now ends with the
   reader suspended and the transport reading *)
Example C08_example_limit0 :
  let y := fst (run [OFeed [97%N; 98%N; 99%N]; OStart CReadAny; OStart CReadAny] (init_sys 0)) in
  wt (sst y) = Waiting /\ task y <> None /\ buf (sst y) = [] /\ paused (sst y) = false.
Proof. vm_compute. repeat split; discriminate. Qed.
Print Assumptions C08_example_limit0.

(* non-vacuity: the water-mark hypothesis holds initially for every limit >= 0, and a concrete run
   with chunks, re-entrant feeding, a blocked reader and EOF *)
Example C08_example_W : Wq true (init 0) /\ Wq true (init 65536) /\ Wq false (init (-5)).
Proof.
  split; [apply W_init; intros _; lia|split; [apply W_init; intros _; lia|apply W_init; discriminate]].
Qed.
Print Assumptions C08_example_W.

Example C08_example_run :
  snd (run [OBegin; OFeed [1%N; 2%N; 3%N; 4%N; 5%N]; OEnd; OPend (PData [6%N; 7%N]); OPend PEndC;
            OStart CReadChunk; OStart (CRead 2); OStart CReadChunk; OStart CReadAny; OFeed [8%N]; ORun;
            OEof; OStart CReadChunk] (init_sys 2)) =
  [ObNone; ObNone; ObNone; ObNone; ObNone;
   ObDone (RChunk [1%N; 2%N; 3%N; 4%N; 5%N] true); ObDone (RBytes [6%N; 7%N]); ObDone (RChunk [] true);
   ObBlocked; ObNone; ObDone (RBytes [8%N]); ObNone; ObDone (RChunk [] false)].
Proof. vm_compute. reflexivity. Qed.
Print Assumptions C08_example_run.
