(* C12 — WebSocket reader enforces the protocol and its size bounds.
   Model: Model/Ws.v (WebSocketReader.feed_data/_feed_data/_handle_frame field for field; every guarded
   WebSocketError test is a definition regenerated from the source into Generated/WsGen.v).
   Spec : Model/WsSpec.v (whole-stream RFC 6455 / RFC 7692 reference decoder).
   The decompressor is a parameter (Cx, decomp) of every theorem; `toycx/toy_decomp` instantiate it. *)
From AV Require Import Lib.Base Lib.Utf8 Lib.Utf8Valid Generated.WsGen Model.Ws Model.WsSpec
  Proofs.WsSeg Proofs.WsRefine Proofs.WsClasses Proofs.WsMem Proofs.WsQueue.
Open Scope N_scope.

(* ---- 1. the outcome does not depend on segmentation (FULL, all codecs, all streams, all cuts) ---- *)
Theorem C12_segmentation_independent :
  forall (Cx : Type) (decomp : Cx -> bytes -> N -> dres Cx) (c : cfg) (cx0 : Cx) (segs : list bytes),
    let r1 := feed_all Cx decomp c (Live (init_state Cx cx0)) segs in
    let r2 := feed Cx decomp c (Live (init_state Cx cx0)) (concat segs) in
    fst r1 = fst r2                                   (* same messages, in order *)
    /\ zapr Cx (snd r1) = zapr Cx (snd r2)            (* same reader state, up to len(_payload_fragments) *)
    /\ rd_status (snd r1) = rd_status (snd r2).       (* same error (close code) or none *)
Proof. exact seg_independent. Qed.
Print Assumptions C12_segmentation_independent.

(* ---- 2. the reader IS the reference decoder --------------------------------------------------- *)
(* agrees_with_spec p c segs (Proofs/WsRefine.v): with the toy codec, feeding segs delivers fst (decode p c (concat segs))
   and ends in the status of its outcome *)

(* FULL (after the repair 12587f3): for every codec, configuration, stream and segmentation the reader delivers exactly
   the messages of the RFC reference decoder (hand-written rfc_profile: a message may be as large as max_msg_size;
   close codes as registered) up to the first violation, then fails with the reference's close code and delivers
   nothing more. *)
Theorem C12_refines_spec :
  forall (Cx : Type) (decomp : Cx -> bytes -> N -> dres Cx) (c : cfg) (cx0 : Cx) (segs : list bytes),
    let r := feed_all Cx decomp c (Live (init_state Cx cx0)) segs in
    let d := decode Cx decomp rfc_profile c cx0 (concat segs) in
    fst r = fst d /\ rd_status (snd r) = out_status (snd d).
Proof. exact refines_rfc. Qed.
Print Assumptions C12_refines_spec.

(* a non-trivial instance: fragmented text with an interleaved ping, a compressed binary message, a close frame,
   then a violation (reserved opcode) — cut in three places *)
Example C12_refines_spec_example :
  let c := mkcfg 64 true true in
  let segs := [[1; 2; 104]; [101; 137; 0; 128; 3; 108; 108]; [111; 194; 2; 3; 7; 136; 2; 3; 232; 131; 0]] in
  decode toycx toy_decomp rfc_profile c toy0 (concat segs)
     = ([MPing []; MText [104; 101; 108; 108; 111]; MBinary [7; 7; 7]; MClose 1000 []], Violation (WsErr 1002) VOpcode)
  /\ agrees_with_spec rfc_profile c segs.
Proof. vm_compute. repeat split. Qed.
Print Assumptions C12_refines_spec_example.

(* the comparisons regenerated from the source (pre-buffering size test, post-inflate size test, close-code test)
   are the ones of the hand-written RFC profile *)
Theorem C12_code_comparisons_are_rfc :
  (forall mx n, wire_too_big aiohttp_profile mx n = wire_too_big rfc_profile mx n) /\
  (forall mx n, msg_too_big aiohttp_profile mx n = msg_too_big rfc_profile mx n) /\
  (forall code, close_ok aiohttp_profile code = close_ok rfc_profile code).
Proof. exact aiohttp_is_rfc. Qed.
Print Assumptions C12_code_comparisons_are_rfc.

(* regressions of the two repaired deviations (fix: 4d0d72b, 0ee4932): a message of exactly max_msg_size bytes is
   delivered; a Close frame with the reserved status 1006 is a protocol error *)
Example C12_regression_exact_max_accepted :
  feed toycx toy_decomp (mkcfg 5 false true) (Live (init_state toycx toy0)) [130; 5; 49; 50; 51; 52; 53]
  = ([MBinary [49; 50; 51; 52; 53]],
     Live (R RH [] (mkm [] 16 toy0) true 2 [] 0 false (0, 0, 0, 0) 0 5 0))
  /\ snd (feed toycx toy_decomp (mkcfg 5 false true) (Live (init_state toycx toy0)) [130; 6; 49; 50; 51; 52; 53; 54])
     = Latched (WsErr 1009).
Proof. vm_compute. split; reflexivity. Qed.
Print Assumptions C12_regression_exact_max_accepted.

(* fix 12587f3: a TEXT/BINARY frame while a fragmented message is open ends the stream with 1002, whether or not
   payload was collected so far, and nothing of the open message is delivered *)
Example C12_regression_interleaved_refused :
  agrees_with_spec rfc_profile (mkcfg 0 false true) [[1; 1; 97; 2; 1; 98; 128; 1; 99]]
  /\ feed toycx toy_decomp (mkcfg 0 false true) (Live (init_state toycx toy0)) [1; 1; 97; 2; 1; 98; 128; 1; 99]
     = ([], Latched (WsErr 1002))
  /\ feed toycx toy_decomp (mkcfg 0 false true) (Live (init_state toycx toy0)) [1; 0; 130; 1; 120; 128; 1; 121]
     = ([], Latched (WsErr 1002)).
Proof. vm_compute. repeat split. Qed.
Print Assumptions C12_regression_interleaved_refused.

Example C12_regression_close_1006_refused :
  feed toycx toy_decomp (mkcfg 0 false true) (Live (init_state toycx toy0)) [136; 2; 3; 238] = ([], Latched (WsErr 1002))
  /\ agrees_with_spec rfc_profile (mkcfg 0 false true) [[136; 2; 3; 238]].
Proof. vm_compute. repeat split. Qed.
Print Assumptions C12_regression_close_1006_refused.

(* ---- 3. nothing after the violation; the functions are total ---------------------------------- *)
Theorem C12_nothing_after_violation :
  forall (Cx : Type) (decomp : Cx -> bytes -> N -> dres Cx) (c : cfg) (e : werr) (segs : list bytes),
    feed_all Cx decomp c (Latched e) segs = ([], Latched e).
Proof. exact feed_all_latched. Qed.
Print Assumptions C12_nothing_after_violation.

Theorem C12_reader_total :
  forall (Cx : Type) (decomp : Cx -> bytes -> N -> dres Cx) (c : cfg) (rd : reader Cx) (segs : list bytes),
    rd <> Fuel -> snd (feed_all Cx decomp c rd segs) <> Fuel.
Proof. exact reader_total. Qed.
Print Assumptions C12_reader_total.

Theorem C12_spec_total :
  forall (Cx : Type) (decomp : Cx -> bytes -> N -> dres Cx) (p : profile) (c : cfg) (cx0 : Cx) (s : bytes),
    snd (decode Cx decomp p c cx0 s) <> SpecFuel.
Proof. exact decode_no_fuel. Qed.
Print Assumptions C12_spec_total.

(* ---- 3b. the application reads through WebSocketDataQueue: buffered messages first, the error only from an empty
   queue (shape regenerated from _read_from_buffer).  For ANY interleaving `ops` of network reads (OFeed d) and
   non-blocking queue reads (ORead): what the application has read plus what it can still read without waiting, and
   the error it then gets, are those of ONE feed of the concatenated stream — independent of the cuts and of how far
   the consumer lags behind (FULL) *)
Theorem C12_consumer_timing_independent :
  forall (Cx : Type) (decomp : Cx -> bytes -> N -> dres Cx) (c : cfg) (cx0 : Cx) (ops : list appop),
    app_observe Cx (app_run Cx decomp c (app0 Cx cx0) ops) =
    (fst (feed Cx decomp c (Live (init_state Cx cx0)) (concat (feeds_of ops))),
     exc_of (snd (feed Cx decomp c (Live (init_state Cx cx0)) (concat (feeds_of ops))))).
Proof. exact consumer_independent. Qed.
Print Assumptions C12_consumer_timing_independent.

(* the error is only ever handed out by an empty queue: nothing decoded before the violation is lost *)
Theorem C12_queue_error_only_when_drained :
  forall (q : wsqueue) (e : werr), q_read q = QErr e -> q_buf q = [] /\ q_exc q = Some e.
Proof. exact q_read_err. Qed.
Print Assumptions C12_queue_error_only_when_drained.

(* ... so the application reads exactly the reference decoder's messages, then its close code (FULL) *)
Theorem C12_consumer_refines_spec :
  forall (Cx : Type) (decomp : Cx -> bytes -> N -> dres Cx) (c : cfg) (cx0 : Cx) (ops : list appop),
    let d := decode Cx decomp rfc_profile c cx0 (concat (feeds_of ops)) in
    fst (app_observe Cx (app_run Cx decomp c (app0 Cx cx0) ops)) = fst d /\
    match snd (app_observe Cx (app_run Cx decomp c (app0 Cx cx0) ops)) with
    | Some e => out_status (snd d) = SFailed e
    | None => out_status (snd d) = SPending
    end.
Proof. exact consumer_refines_rfc. Qed.
Print Assumptions C12_consumer_refines_spec.

(* two valid messages and a violation in ONE network read, the application reads only afterwards (the schedule that
   a fail-fast queue gets wrong), and an eager consumer on the same bytes cut in three: same observation *)
Example C12_consumer_example :
  let c := mkcfg 0 false true in
  let lazy := [OFeed [129; 1; 97; 130; 1; 98; 131; 0]; ORead; ORead; ORead] in
  let eager := [OFeed [129; 1; 97]; ORead; OFeed [130; 1]; ORead; OFeed [98; 131; 0]; ORead; ORead] in
  let a := app_run toycx toy_decomp c (app0 toycx toy0) lazy in
  a_got a = [MText [97]; MBinary [98]] /\ a_err a = Some (WsErr 1002)
  /\ app_observe toycx a = app_observe toycx (app_run toycx toy_decomp c (app0 toycx toy0) eager).
Proof. vm_compute. repeat split. Qed.
Print Assumptions C12_consumer_example.

(* ---- 4. violation classes, stated on the model alone: in ANY state waiting for a header -------- *)
Theorem C12_header_violation_1002 :
  forall (Cx : Type) (decomp : Cx -> bytes -> N -> dres Cx) (c : cfg) (s : rstate Cx) (b0 b1 : N) (r : bytes),
    s_phase s = RH -> header_violation c b0 b1 = true ->
    iter Cx decomp c s (b0 :: b1 :: r) = PFail (WsErr 1002).
Proof. exact header_violation_rejected. Qed.
Print Assumptions C12_header_violation_1002.

Example C12_header_violation_examples :
  header_violation (mkcfg 0 false true) 193 0 = true        (* RSV1 without the extension *)
  /\ header_violation (mkcfg 0 true true) 161 0 = true      (* RSV2 *)
  /\ header_violation (mkcfg 0 true true) 131 0 = true      (* opcode 3 *)
  /\ header_violation (mkcfg 0 true true) 9 0 = true        (* fragmented ping *)
  /\ header_violation (mkcfg 0 true true) 136 126 = true    (* close with 16-bit length *)
  /\ header_violation (mkcfg 0 true true) 201 0 = true      (* compressed ping *)
  /\ header_violation (mkcfg 0 true true) 193 5 = false.    (* compressed text: fine *)
Proof. vm_compute. repeat split. Qed.
Print Assumptions C12_header_violation_examples.

Theorem C12_oversize_refused_before_buffering :
  forall (Cx : Type) (decomp : Cx -> bytes -> N -> dres Cx) (c : cfg) (s : rstate Cx) (d : bytes) (len : N),
    s_phase s = RL -> s_lflag s < 126 -> len = s_lflag s ->
    max_msg_size c <> 0 -> is_data (s_fop s) = true ->
    max_msg_size c < len + lenN (m_partial (s_m s)) ->
    iter Cx decomp c s d = PFail (WsErr 1009).
Proof. exact oversize_rejected. Qed.
Print Assumptions C12_oversize_refused_before_buffering.

(* hypotheses satisfiable: limit 8, 3 bytes collected, a continuation announcing 6 more *)
Example C12_oversize_example :
  let c := mkcfg 8 false false in
  let s := R RL [] (mkm [1; 2; 3] 2 toy0) false 0 [] 0 false (0, 0, 0, 0) 0 6 0 in
  s_lflag s < 126 /\ is_data (s_fop s) = true /\ max_msg_size c < 6 + lenN (m_partial (s_m s))
  /\ iter toycx toy_decomp c s [9; 9; 9; 9; 9; 9] = PFail (WsErr 1009).
Proof. vm_compute. repeat split; congruence. Qed.
Print Assumptions C12_oversize_example.

(* ---- 5. memory: bounded by max_msg_size plus a constant, for every stream and segmentation (FULL) ---- *)
(* retained s = len(_partial) + total length of _payload_fragments + len(_tail) *)
Theorem C12_memory_bound :
  forall (Cx : Type) (decomp : Cx -> bytes -> N -> dres Cx) (c : cfg),
    max_msg_size c <> 0 ->
    forall (cx0 : Cx) (segs : list bytes) (s : rstate Cx),
      snd (feed_all Cx decomp c (Live (init_state Cx cx0)) segs) = Live s ->
      retained Cx s < max_msg_size c + 126.
Proof. exact retained_bounded. Qed.
Print Assumptions C12_memory_bound.

(* a 100-byte limit, 60 bytes collected, a 39-byte frame half received, byte at a time: hypotheses hold, 80 bytes kept *)
Example C12_memory_bound_nonvacuous :
  let c := mkcfg 100 false false in
  let stream := [2; 60] ++ repeat 7 60 ++ [0; 39] ++ repeat 9 20 in
  match snd (feed_all toycx toy_decomp c (Live (init_state toycx toy0)) (map (fun b => [b]) stream)) with
  | Live s => retained toycx s = 80 /\ s_toread s = 19
  | _ => False
  end.
Proof. vm_compute. split; reflexivity. Qed.
Print Assumptions C12_memory_bound_nonvacuous.

(* no entry of _payload_fragments outlives its frame (fix 9d0c64f): whenever the reader is not in the middle of a
   payload the list is empty, for every stream and segmentation — so len(_payload_fragments), which triggers
   pause_reading() above _max_fragments, only counts the reads of the frame being received *)
Theorem C12_no_stale_fragments :
  forall (Cx : Type) (decomp : Cx -> bytes -> N -> dres Cx) (c : cfg) (cx0 : Cx) (segs : list bytes) (s : rstate Cx),
    snd (feed_all Cx decomp c (Live (init_state Cx cx0)) segs) = Live s -> s_phase s <> RP -> s_nfrags s = 0.
Proof. exact no_stale_fragments. Qed.
Print Assumptions C12_no_stale_fragments.

(* header and payload in two reads (the case that used to leak): one entry while the payload is awaited, none after *)
Example C12_no_stale_fragments_example :
  let c := mkcfg 1024 false false in
  let st segs := match snd (feed_all toycx toy_decomp c (Live (init_state toycx toy0)) segs) with
                 | Live s => Some (s_phase s, s_nfrags s) | _ => None end in
  st [[130; 2]] = Some (RP, 1) /\ st [[130; 2]; [97; 98]] = Some (RH, 0) /\ st [[130; 2]; [97; 98]; [130; 2]; [97; 98]] = Some (RH, 0).
Proof. vm_compute. repeat split. Qed.
Print Assumptions C12_no_stale_fragments_example.

(* ... even under decompression: the reader never asks the codec for more than max_msg_size + 1 bytes; the codec
   is assumed to honour max_length (premise; validated for zlib by the harness, proved for the toy codec) *)
Theorem C12_inflation_bounded :
  forall (Cx : Type) (decomp : Cx -> bytes -> N -> dres Cx) (c : cfg),
    max_msg_size c <> 0 ->
    (forall cx d cap out cx', cap <> 0 -> decomp cx d cap = DOk out cx' -> lenN out <= cap) ->
    forall (cx : Cx) (assembled : bytes),
      match decomp cx (assembled ++ WS_DEFLATE_TRAILING) (inflate_cap (max_msg_size c)) with
      | DOk out _ => lenN out <= max_msg_size c + 1
      | _ => True
      end.
Proof. exact inflate_request_bounded. Qed.
Print Assumptions C12_inflation_bounded.

Theorem C12_toy_codec_honours_cap :
  forall cx d cap out cx', cap <> 0 -> toy_decomp cx d cap = DOk out cx' -> lenN out <= cap.
Proof. exact toy_decomp_cap. Qed.
Print Assumptions C12_toy_codec_honours_cap.

(* ---- 6. the UTF-8 validator is exactly "is an encoding" ---------------------------------------- *)
Theorem C12_utf8_encodings_valid :
  forall (s : str) (b : bytes), utf8_encode s = Some b -> utf8_valid b = true.
Proof. exact utf8_encode_valid. Qed.
Print Assumptions C12_utf8_encodings_valid.

Theorem C12_utf8_valid_iff_encoding :
  forall b : bytes, utf8_valid b = true <-> exists s : str, utf8_encode s = Some b.
Proof. exact utf8_valid_iff_encoding. Qed.
Print Assumptions C12_utf8_valid_iff_encoding.

Theorem C12_utf8_valid_iff_decodes :
  forall b : bytes, utf8_valid b = true <-> exists t, utf8_decode b = Some t.
Proof. exact utf8_valid_decode. Qed.
Print Assumptions C12_utf8_valid_iff_decodes.
