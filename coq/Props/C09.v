(* C09 — body decoding is transparent, memory-bounded and always makes progress.
   Statements only; proofs are in Proofs/Decode*.v.

   The composed model (Model/Decode.v) is parametric in the streaming codec
       H, hnew, hstep (decompress_sync; None = raises), havail (data_available), heof, hflush.
   Theorems quantify over every codec that satisfies the stated law, every configuration, framing
   (Content-Length / chunked / until-EOF), segmentation, close point and consumer schedule (`evs`), and every
   recursion fuel.  `init c t len enc` is the state right after the message head was parsed. *)
From AV Require Import Lib.Base Generated.DecodeGen Model.Decode Proofs.DecodeBasic Proofs.DecodeCommon Proofs.DecodeBound Proofs.DecodeProgress Proofs.DecodeHandler Proofs.DecodeInst Proofs.DecodeServer.

(* ---- bounded memory ------------------------------------------------------------------------------
   Whatever the compression ratio: if one decompress_sync(data, max_length = m) call returns at most capf m
   bytes (capf monotone), the transport honours pause_reading and read_bufsize >= 1, then after any history
   the reader buffers at most   high + capf (max (read_bufsize, low))   bytes, with high = 2 * low;
   low is the read-buffer limit or the largest chunk size the consumer asked for
   (dg_max_length = 0 means the consumer asked for everything: read(-1)). *)
Theorem C09_bounded :
  forall (H : Type) (hnew : N -> H) (hstep : H -> bytes -> N -> option (option (H * bytes)))
         (havail heof : H -> bool) (hflush : H -> option bytes) (capf : N -> N),
    (forall h x m h' out, hstep h x m = Some (Some (h', out)) -> m <> 0 -> lenN out <= capf m) ->
    (forall a b, a <= b -> capf a <= capf b) ->
    forall fuel c t len enc evs (y : sys H) os,
      c_flow c = true -> 1 <= c_limit c -> enc <> 0 ->
      run H hnew hstep havail heof hflush fuel (init H hnew c t len enc) evs = (y, os) ->
      let r := re (core y) in
      dg_max_length (c_limit c) (low r) <> 0 ->
      rsize r <= high r + capf (dg_max_length (c_limit c) (low r)) /\ high r = low r * 2.
Proof. exact bounded_memory. Qed.
Print Assumptions C09_bounded.

(* the hypotheses are satisfiable: a concrete codec with zlib's max_length discipline *)
Theorem C09_bounded_instance :
  forall fuel c t len enc evs (y : ic_sys) os,
    c_flow c = true -> 1 <= c_limit c -> enc <> 0 ->
    ic_run fuel (ic_init c t len enc) evs = (y, os) ->
    let r := re (core y) in
    dg_max_length (c_limit c) (low r) <> 0 ->
    rsize r <= high r + dg_max_length (c_limit c) (low r) /\ high r = low r * 2.
Proof. exact bounded_memory_idcap. Qed.
Print Assumptions C09_bounded_instance.

(* a non-trivial reachable state: a 9-byte toy-gzip bomb that decodes to 600 bytes, read_bufsize 4:
   12 = high + max_length bytes are buffered, the transport is paused, the parser holds the rest *)
Example C09_bounded_example :
  let y := fst (toy_run 1000 w_bomb_init [EvData w_bomb]) in
  rsize (re (core y)) = 12 /\ tpaused (pr (core y)) = true /\ has_more (pr (core y)) = true.
Proof. exact bomb_witness. Qed.
Print Assumptions C09_bounded_example.

(* the cap law for the multi-member glue (ZLibDecompressor.decompress_sync + _decompress_members: budget =
   max_length - produced, walk stops when the budget is spent) follows from the cap law of one decompressobj *)
Theorem C09_handler_cap :
  forall (M : Type) (mnew : N -> M) (mdec : M -> bytes -> N -> option (M * bytes)) (mtail munused : M -> bytes) (meof : M -> bool),
    (forall d x m d' out, mdec d x m = Some (d', out) -> m <> 0 -> lenN out <= m) ->
    forall z data maxlen z' out,
      maxlen <> 0 -> zh_step M mnew mdec mtail munused meof z data maxlen = HOk M z' out -> lenN out <= maxlen.
Proof. exact zh_step_cap. Qed.
Print Assumptions C09_handler_cap.

(* two concatenated toy-gzip members (200 x 'A', 200 x 'B') through decompress_sync with max_length 7:
   exactly 7 bytes come out and data_available stays true *)
Example C09_handler_cap_example :
  match toy_hstep (toy_hnew 31) [31; 200; 65; 0; (200 * 65) mod 256; 31; 200; 66; 0; (200 * 66) mod 256] 7 with
  | Some (Some (z, out)) => lenN out = 7 /\ toy_havail z = true
  | _ => False
  end.
Proof. vm_compute. split; reflexivity. Qed.
Print Assumptions C09_handler_cap_example.

(* ---- progress (all framings; repaired code: dc85988 stale `_paused`, 497a2a6 re-wait, 72e5a25 parser kept at close) ----
   For every codec whose decompress_sync leaves data_available false after an output-less call (ZLibDecompressor:
   `_last_empty`), read_bufsize >= 1, Content-Length / chunked / until-EOF framing, with or without transport flow
   control, every history and fuel: while the connection is open, no payload error is set and EOF has not been fed, an empty buffer
   implies that the parser holds no unprocessed input and that reading is not paused - the consumer waits for
   the network, never for a resume that nobody will issue.  After EOF has been fed reads never block at all
   (they return what is buffered, then b""); what happens once the connection is lost is C09_reaches_eof.
   (Before dc85988 this was refuted for chunked bodies;
   the refuting history is now the regression example below.) *)
Theorem C09_progress :
  forall (H : Type) (hnew : N -> H) (hstep : H -> bytes -> N -> option (option (H * bytes)))
         (havail heof : H -> bool) (hflush : H -> option bytes),
    (forall h x m h', hstep h x m = Some (Some (h', [])) -> havail h' = false) ->
    forall fuel c t len enc evs (y : sys H) os,
      1 <= c_limit c ->
      run H hnew hstep havail heof hflush fuel (init H hnew c t len enc) evs = (y, os) ->
      rexn (re (core y)) = None -> reof (re (core y)) = false -> connected (pr (core y)) = true -> buf (re (core y)) = [] ->
      has_more (pr (core y)) = false /\ rpaused (pr (core y)) = false /\ tpaused (pr (core y)) = false.
Proof. exact progress_all. Qed.
Print Assumptions C09_progress.

(* ---- end of body after the peer closed -----------------------------------------------------------------------
   Same hypotheses: once the connection is lost, an empty buffer implies that EOF was fed or a payload error is
   set: the consumer's next read returns b"" or raises the payload's exception, it never waits and never ends in
   RuntimeError("Connection closed.").  (Before 72e5a25 this was refuted: pending decoded output was dropped.)
   The theorem does not say the error is deserved: on a transport without flow control a complete chunked body
   whose tail is still unparsed at close ends in TransferEncodingError (open finding
   C09-chunked-close-while-pending-noflow). *)
Theorem C09_reaches_eof :
  forall (H : Type) (hnew : N -> H) (hstep : H -> bytes -> N -> option (option (H * bytes)))
         (havail heof : H -> bool) (hflush : H -> option bytes),
    (forall h x m h', hstep h x m = Some (Some (h', [])) -> havail h' = false) ->
    forall fuel c t len enc evs (y : sys H) os,
      1 <= c_limit c ->
      run H hnew hstep havail heof hflush fuel (init H hnew c t len enc) evs = (y, os) ->
      connected (pr (core y)) = false -> buf (re (core y)) = [] ->
      reof (re (core y)) = true \/ rexn (re (core y)) <> None.
Proof. exact reaches_eof_all. Qed.
Print Assumptions C09_reaches_eof.

(* the codec law is satisfiable *)
Theorem C09_progress_instance :
  forall fuel c t len enc evs (y : ic_sys) os,
    1 <= c_limit c -> ic_run fuel (ic_init c t len enc) evs = (y, os) ->
    rexn (re (core y)) = None -> reof (re (core y)) = false -> connected (pr (core y)) = true -> buf (re (core y)) = [] ->
    has_more (pr (core y)) = false /\ rpaused (pr (core y)) = false /\ tpaused (pr (core y)) = false.
Proof. exact progress_idcap. Qed.
Print Assumptions C09_progress_instance.

Theorem C09_reaches_eof_instance :
  forall fuel c t len enc evs (y : ic_sys) os,
    1 <= c_limit c -> ic_run fuel (ic_init c t len enc) evs = (y, os) ->
    connected (pr (core y)) = false -> buf (re (core y)) = [] ->
    reof (re (core y)) = true \/ rexn (re (core y)) <> None.
Proof. exact reaches_eof_idcap. Qed.
Print Assumptions C09_reaches_eof_instance.

(* the three histories that refuted the property on the unrepaired code, on the repaired model:
   chunked "3 abc" / readany / readany / "3 def 0": the blocked read now returns "def", then EOF;
   9-byte toy gzip bomb, no flow control, peer closes while input is pending: all 600 bytes, then EOF;
   wrong checksum after a data-less chunk end: the blocked read raises the payload error *)
Example C09_progress_regression :
  snd (toy_run 100 (toy_init 1 true 8190 8190 125 true PChunked 0 0) w_stale_events) =
  [ONone; ORes (RData [97; 98; 99]); ORes RBlocked; ORes (RData [100; 101; 102]); ORes (RData [])].
Proof. exact stale_pause_regression. Qed.
Print Assumptions C09_progress_regression.

Example C09_reaches_eof_regression :
  let r := toy_run 1000 (toy_init 1 true 8190 8190 125 false PLength 9 1) w_lost_events in
  last (snd r) ONone = ORes (RData []) /\ lenN (delivered (re (core (fst r)))) = 600 /\ reof (re (core (fst r))) = true.
Proof. exact lost_at_close_regression. Qed.
Print Assumptions C09_reaches_eof_regression.

Example C09_error_wakeup_regression :
  last (snd (toy_run 100 (toy_init 64 true 8190 8190 125 true PChunked 5 1) w_rewait_events)) ONone = ORes (RErr EContentEncoding).
Proof. exact rewait_regression. Qed.
Print Assumptions C09_error_wakeup_regression.

(* ---- stream end (db20ae1) -----------------------------------------------------------------------
   One call of DeflateBuffer.feed_eof over ANY decompressor: a compressed body that carried data gets a
   clean EOF only when the decompressor's stream-end checks pass (deflate: eof; every coding: not
   mid_stream); otherwise the call is an error and the reader is not given EOF.  This is the local step,
   not a theorem about whole traces: that a corrupt/truncated stream is an error end to end is covered by
   the correspondence suites and the oracle (kinds truncated_delivered, corrupt_delivered) only. *)
Theorem C09_clean_eof_needs_complete_stream :
  forall (H : Type) (heof : H -> bool) (hflush : H -> option bytes) (s s' : st H),
    db_feed_eof H heof hflush s = (s', None) -> comp (de s) = true -> 0 < d_size (de s) ->
    heof (d_h (de s)) = true.
Proof. exact clean_eof_needs_complete. Qed.
Print Assumptions C09_clean_eof_needs_complete_stream.

Theorem C09_incomplete_stream_is_error :
  forall (H : Type) (heof : H -> bool) (hflush : H -> option bytes) (s : st H),
    comp (de s) = true -> 0 < d_size (de s) -> heof (d_h (de s)) = false ->
    exists e, db_feed_eof H heof hflush s = (s, Some e).
Proof. exact incomplete_is_error. Qed.
Print Assumptions C09_incomplete_stream_is_error.

(* the toy gzip member cut before its terminator and checksum (Content-Length complete) used to end in a
   clean EOF; now both reads raise the payload error and the reader never sees EOF *)
Example C09_truncated_stream_regression :
  let r := toy_run 1000 (toy_init 65536 true 8190 8190 125 true PLength 7 1) w_trunc_events in
  snd r = [ONone; ORes (RErr EContentEncoding); ORes (RErr EContentEncoding)] /\ reof (re (core (fst r))) = false.
Proof. exact truncated_regression. Qed.
Print Assumptions C09_truncated_stream_regression.

(* ---- client_max_size ------------------------------------------------------------------------------
   BaseRequest.read(): what it returns never exceeds client_max_size, and what it accumulated before
   raising is at most client_max_size plus the last readany() result (itself bounded by C09_bounded). *)
Theorem C09_client_max_size_returned : forall cms chunks b peak,
  cms <> 0 -> request_read cms chunks [] 0 = (Some b, peak) -> lenN b <= cms /\ peak <= cms.
Proof. exact request_read_returned. Qed.
Print Assumptions C09_client_max_size_returned.

Theorem C09_client_max_size_accumulated : forall cms chunks res peak m,
  cms <> 0 -> (forall c, In c chunks -> lenN c <= m) ->
  request_read cms chunks [] 0 = (res, peak) -> peak <= cms + m.
Proof. exact request_read_accumulated. Qed.
Print Assumptions C09_client_max_size_accumulated.

Example C09_client_max_size_example :
  request_read 5 [[1;2;3]; [4;5]; []] [] 0 = (Some [1;2;3;4;5], 5) /\
  request_read 5 [[1;2;3]; [4;5;6]; [7]] [] 0 = (None, 6).
Proof. vm_compute. split; reflexivity. Qed.
Print Assumptions C09_client_max_size_example.

(* ---- graceful shutdown does not starve the request being handled ------------------------------------
   RequestHandler.data_received on a closing connection (`_close` / `_force_close`, set by
   Server.pre_shutdown() -> RequestHandler.close()) goes through a gate translated conjunct by conjunct from the
   source (dg_srv_closing_feeds).  For the request being handled, while its body is not at EOF and the
   connection is alive, the gate lets EVERY call through - in particular the empty one by which
   BaseProtocol.resume_reading() pushes on input the paused parser / decompressor holds - so the server entry
   points coincide with the client-side ones that C09_progress / C09_bounded are about, whether or not a
   shutdown has begun.  (A gate that tested `data` would starve a paused compressed body: seeded change C09-7.) *)
Theorem C09_shutdown_keeps_feeding_body :
  forall (H : Type) (hnew : N -> H) (hstep : H -> bytes -> N -> option (option (H * bytes)))
         (havail heof : H -> bool) (hflush : H -> option bytes) fuel closing_conn (s : st H) data,
    connected (pr s) = true -> parser_alive (pr s) = true -> reof (re s) = false ->
    srv_data_received H hnew hstep havail heof hflush fuel closing_conn true false false s data
    = parser_feed H hnew hstep havail heof hflush fuel s data.
Proof. exact srv_feed_is_feed. Qed.
Print Assumptions C09_shutdown_keeps_feeding_body.

Theorem C09_shutdown_resume_is_resume :
  forall (H : Type) (hnew : N -> H) (hstep : H -> bytes -> N -> option (option (H * bytes)))
         (havail heof : H -> bool) (hflush : H -> option bytes) fuel closing_conn (s : st H),
    connected (pr s) = true -> parser_alive (pr s) = true -> reof (re s) = false ->
    srv_resume_reading H hnew hstep havail heof hflush fuel closing_conn true false false s
    = resume_reading H hnew hstep havail heof hflush fuel s.
Proof. exact srv_resume_is_resume. Qed.
Print Assumptions C09_shutdown_resume_is_resume.

(* and nothing else is accepted: with no request being handled a closing connection ignores what arrives *)
Theorem C09_closing_idle_ignores_input :
  forall (H : Type) (hnew : N -> H) (hstep : H -> bytes -> N -> option (option (H * bytes)))
         (havail heof : H -> bool) (hflush : H -> option bytes) fuel custom_pp upgraded (s : st H) data,
    srv_data_received H hnew hstep havail heof hflush fuel true false custom_pp upgraded s data = s.
Proof. exact srv_closing_idle_ignores. Qed.
Print Assumptions C09_closing_idle_ignores_input.

Example C09_shutdown_example :
  let s := core (fst (toy_run 1000 w_bomb_init [EvData w_bomb; EvOp OpReadAny])) in
  connected (pr s) = true /\ parser_alive (pr s) = true /\ reof (re s) = false /\ has_more (pr s) = true.
Proof. exact shutdown_witness. Qed.
Print Assumptions C09_shutdown_example.
