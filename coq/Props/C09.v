(* C09 — body decoding is transparent, memory-bounded and always makes progress.
   Statements only; proofs are in Proofs/Decode*.v. *)
From AV Require Import Lib.Base Generated.DecodeGen Model.Decode Proofs.DecodeBasic.

(* BaseRequest.read(): what it returns never exceeds client_max_size, and what it accumulated before
   raising is at most client_max_size plus the last readany() result. *)
Theorem C09_client_max_size_returned : forall cms chunks b peak,
  cms <> 0 -> request_read cms chunks [] 0 = (Some b, peak) -> lenN b <= cms /\ peak <= cms.
Proof. exact request_read_returned. Qed.
Print Assumptions C09_client_max_size_returned.

Theorem C09_client_max_size_accumulated : forall cms chunks res peak m,
  cms <> 0 -> (forall c, In c chunks -> lenN c <= m) ->
  request_read cms chunks [] 0 = (res, peak) -> peak <= cms + m.
Proof. exact request_read_accumulated. Qed.
Print Assumptions C09_client_max_size_accumulated.

Example C09_client_max_size_example :
  request_read 5 [[1;2;3]; [4;5]; []] [] 0 = (Some [1;2;3;4;5], 5) /\
  request_read 5 [[1;2;3]; [4;5;6]; [7]] [] 0 = (None, 6).
Proof. vm_compute. split; reflexivity. Qed.
Print Assumptions C09_client_max_size_example.
