(* C09 — body decoding is transparent, memory-bounded and always makes progress.
   Statements only; proofs are in Proofs/Decode*.v.

   The composed model (Model/Decode.v) is parametric in the streaming codec
       H, hnew, hstep (decompress_sync; None = raises), havail (data_available), heof, hflush.
   Theorems quantify over every codec that satisfies the stated law, every configuration, framing
   (Content-Length / chunked / until-EOF), segmentation, close point and consumer schedule (`evs`), and every
   recursion fuel.  `init c t len enc` is the state right after the message head was parsed. *)
From AV Require Import Lib.Base Generated.DecodeGen Model.Decode Proofs.DecodeBasic Proofs.DecodeBound Proofs.DecodeHandler Proofs.DecodeInst.

(* ---- bounded memory ------------------------------------------------------------------------------
   Whatever the compression ratio: if one decompress_sync(data, max_length = m) call returns at most capf m
   bytes (capf monotone), the transport honours pause_reading and read_bufsize >= 1, then after any history
   the reader buffers at most   high + capf (max (read_bufsize, low))   bytes, with high = 2 * low;
   low is the read-buffer limit or the largest chunk size the consumer asked for
   (dg_max_length = 0 means the consumer asked for everything: read(-1)). *)
Theorem C09_bounded :
  forall (H : Type) (hnew : N -> H) (hstep : H -> bytes -> N -> option (option (H * bytes)))
         (havail heof : H -> bool) (hflush : H -> option bytes) (capf : N -> N),
    (forall h x m h' out, hstep h x m = Some (Some (h', out)) -> m <> 0 -> lenN out <= capf m) ->
    (forall a b, a <= b -> capf a <= capf b) ->
    forall fuel c t len enc evs (y : sys H) os,
      c_flow c = true -> 1 <= c_limit c -> enc <> 0 ->
      run H hnew hstep havail heof hflush fuel (init H hnew c t len enc) evs = (y, os) ->
      let r := re (core y) in
      dg_max_length (c_limit c) (low r) <> 0 ->
      rsize r <= high r + capf (dg_max_length (c_limit c) (low r)) /\ high r = low r * 2.
Proof. exact bounded_memory. Qed.
Print Assumptions C09_bounded.

(* the hypotheses are satisfiable: a concrete codec with zlib's max_length discipline *)
Theorem C09_bounded_instance :
  forall fuel c t len enc evs (y : ic_sys) os,
    c_flow c = true -> 1 <= c_limit c -> enc <> 0 ->
    ic_run fuel (ic_init c t len enc) evs = (y, os) ->
    let r := re (core y) in
    dg_max_length (c_limit c) (low r) <> 0 ->
    rsize r <= high r + dg_max_length (c_limit c) (low r) /\ high r = low r * 2.
Proof. exact bounded_memory_idcap. Qed.
Print Assumptions C09_bounded_instance.

(* a non-trivial reachable state: a 9-byte toy-gzip bomb that decodes to 600 bytes, read_bufsize 4:
   12 = high + max_length bytes are buffered, the transport is paused, the parser holds the rest *)
Example C09_bounded_example :
  let y := fst (toy_run 1000 w_bomb_init [EvData w_bomb]) in
  rsize (re (core y)) = 12 /\ tpaused (pr (core y)) = true /\ has_more (pr (core y)) = true.
Proof. exact bomb_witness. Qed.
Print Assumptions C09_bounded_example.

(* the cap law for the multi-member glue (ZLibDecompressor.decompress_sync + _decompress_members: budget =
   max_length - produced, walk stops when the budget is spent) follows from the cap law of one decompressobj *)
Theorem C09_handler_cap :
  forall (M : Type) (mnew : N -> M) (mdec : M -> bytes -> N -> option (M * bytes)) (mtail munused : M -> bytes) (meof : M -> bool),
    (forall d x m d' out, mdec d x m = Some (d', out) -> m <> 0 -> lenN out <= m) ->
    forall z data maxlen z' out,
      maxlen <> 0 -> zh_step M mnew mdec mtail munused meof z data maxlen = HOk M z' out -> lenN out <= maxlen.
Proof. exact zh_step_cap. Qed.
Print Assumptions C09_handler_cap.

(* two concatenated toy-gzip members (200 x 'A', 200 x 'B') through decompress_sync with max_length 7:
   exactly 7 bytes come out and data_available stays true *)
Example C09_handler_cap_example :
  match toy_hstep (toy_hnew 31) [31; 200; 65; 0; (200 * 65) mod 256; 31; 200; 66; 0; (200 * 66) mod 256] 7 with
  | Some (Some (z, out)) => lenN out = 7 /\ toy_havail z = true
  | _ => False
  end.
Proof. vm_compute. split; reflexivity. Qed.
Print Assumptions C09_handler_cap_example.

(* ---- progress / reaches EOF: see below (restored once re-proved for the repaired code) ---- *)

(* ---- client_max_size ------------------------------------------------------------------------------
   BaseRequest.read(): what it returns never exceeds client_max_size, and what it accumulated before
   raising is at most client_max_size plus the last readany() result (itself bounded by C09_bounded). *)
Theorem C09_client_max_size_returned : forall cms chunks b peak,
  cms <> 0 -> request_read cms chunks [] 0 = (Some b, peak) -> lenN b <= cms /\ peak <= cms.
Proof. exact request_read_returned. Qed.
Print Assumptions C09_client_max_size_returned.

Theorem C09_client_max_size_accumulated : forall cms chunks res peak m,
  cms <> 0 -> (forall c, In c chunks -> lenN c <= m) ->
  request_read cms chunks [] 0 = (res, peak) -> peak <= cms + m.
Proof. exact request_read_accumulated. Qed.
Print Assumptions C09_client_max_size_accumulated.

Example C09_client_max_size_example :
  request_read 5 [[1;2;3]; [4;5]; []] [] 0 = (Some [1;2;3;4;5], 5) /\
  request_read 5 [[1;2;3]; [4;5;6]; [7]] [] 0 = (None, 6).
Proof. vm_compute. split; reflexivity. Qed.
Print Assumptions C09_client_max_size_example.
