(* C11 — WebSocket codec round trip.
   Writer model: Model/WsCodec.v (WebSocketWriter.send_frame / _write_websocket_frame / _get_compressor / close and
   _websocket_mask_python; every bound, marker, bit and struct layout regenerated from the source into
   Generated/WsCodecGen.v).  Reader model: Model/Ws.v (C12's field-for-field model of WebSocketReader).
   The deflate codec (zlib compressobj / ZLibDecompressor) is a parameter of the theorems: types Cc, Cx, functions
   cinit / comp / decomp and a pairing relation Rsync with the four laws below as premises; `toy_*` instantiates
   them (C11_toy_codec_laws), real zlib is sampled against the same laws by harness/c11.py. *)
From AV Require Import Lib.Base Lib.Utf8Valid Generated.WsGen Generated.WsCodecGen Model.Ws Model.WsCodec Model.WsSend Model.WsQueue
  Proofs.WsSeg Proofs.WsRefine Proofs.WsCodecBytes Proofs.WsCodecFrame Proofs.WsCodecRT Proofs.WsCodecToy Proofs.WsSendInv Proofs.WsQueueInv.
Open Scope N_scope.

(* ---- 1. masking and length encoding (all payloads, all sizes) ------------------------------------------ *)
Theorem C11_mask_involutive :
  forall (p : bytes) (a b c d : N), xor_mask a b c d (xor_mask a b c d p) = p.
Proof. exact xor_mask_involutive. Qed.
Print Assumptions C11_mask_involutive.

(* struct.pack("!H"/"!Q"/...) followed by the reader's big-endian accumulation is the identity below 256^k *)
Theorem C11_length_field_roundtrip :
  forall (k : nat) (n : N), n < 256 ^ N.of_nat k -> be_num 0 (be_bytes k n) = n /\ length (be_bytes k n) = k.
Proof. intros k n H. split; [exact (be_num_be_bytes_small k n H)|exact (be_bytes_length k n)]. Qed.
Print Assumptions C11_length_field_roundtrip.

(* ---- 2. one frame: for EVERY payload length (the 125/126 and 65535/65536 switches included), masked or not,
   compressed bit or not, one pass of the reader's loop over the writer's bytes hands _handle_frame exactly the
   opcode, the RSV1 flag and the payload that were written, and stops exactly at the end of the frame ---------- *)
Theorem C11_frame_transport :
  forall (Cx : Type) (decomp : Cx -> bytes -> N -> dres Cx) (c : cfg) (s : rstate Cx)
         (mk rsv1 : bool) (opcode : N) (body : bytes) (rbits : N) (w rest : bytes),
    s_phase s = RH -> s_frags s = [] ->
    opcode_ok opcode = true ->
    (rsv1 = true -> compress c = true /\ hdr_is_control opcode = false) ->
    (hdr_is_control opcode = true -> lenN body <= 125) ->
    lenN body <= MAX_PAYLOAD_LEN ->
    hdr_first_fragment (s_ffin s) (s_comp s) = true ->
    size_check_applies (max_msg_size c) opcode
    && size_reject (Z.of_N (lenN body)) (Z.of_N (max_msg_size c)) (Z.of_N (lenN (m_partial (s_m s)))) = false ->
    write_frame mk (if rsv1 then RSV1_COMPRESSED else 0) opcode body rbits = FOk w ->
    let ff' := if hdr_is_control opcode then s_ffin s else true in
    let cp' := if hdr_is_control opcode then s_comp s else if rsv1 then 1 else 0 in
    match handle_frame Cx decomp c (s_m s) ff' opcode body cp' with
    | HErr e => iter Cx decomp c s (w ++ rest) = PFail e
    | HOk ev m' =>
      exists s', iter Cx decomp c s (w ++ rest) = PDone ev s' rest
                 /\ s_phase s' = RH /\ s_tail s' = [] /\ s_frags s' = [] /\ s_m s' = m' /\ s_ffin s' = ff' /\ s_comp s' = cp'
    end.
Proof. exact iter_frame. Qed.
Print Assumptions C11_frame_transport.

Example C11_frame_transport_example :
  (* masked binary frame of 126 bytes (first length of the 16-bit form), then a stray byte *)
  let body := repeat 7 126 in
  exists w, write_frame true 0 OP_BINARY body 305419896 = FOk w
    /\ firstn 8 w = [130; 254; 0; 126; 18; 52; 86; 120]
    /\ exists s', iter toyd toy_decomp2 (mkcfg 0 false false) (init_state toyd toyd0) (w ++ [9]) = PDone [MBinary body] s' [9].
Proof. eexists. split; [reflexivity|]. split; [reflexivity|]. eexists. vm_compute. reflexivity. Qed.
Print Assumptions C11_frame_transport_example.

(* ---- 3. the round trip ------------------------------------------------------------------------------------
   Full statement (every sequence of well-formed operations that fits the peer's limit is read back, whatever the
   per-message `compress` overrides): REFUTED by the faithful model in one way (an override when nothing was negotiated);
   the witness is replayed on the implementation by harness/c11.py (corpus/C11/override_unnegotiated.json,
   known_findings.d/C11.json).  A second refutation (override on a connection with context takeover) was repaired in
   /repo c4741b4 and is now a regression example. *)

(* the toy codec satisfies the four laws the theorems assume of deflate, so the witnesses below are about a lawful codec *)
Theorem C11_toy_codec_laws :
  (forall ff cc m z cc', toy_comp ff cc m = (z, cc') -> exists z0, z = z0 ++ DEFLATE_TRAILING)
  /\ (forall w d, toy_sync (toy_cinit w) d)
  /\ (forall ff cc d m z cc' cap, toy_sync cc d -> toy_comp ff cc m = (z, cc') -> (cap = 0 \/ lenN m < cap) ->
        exists d', toy_decomp2 d z cap = DOk m d' /\ toy_sync cc' d')
  /\ (forall cc m z cc' d, toy_comp true cc m = (z, cc') -> toy_sync cc' d).
Proof. exact (conj toy_trailer (conj toy_fresh (conj toy_step toy_full))). Qed.
Print Assumptions C11_toy_codec_laws.

(* REPAIRED (/repo c4741b4): negotiated permessage-deflate with context takeover, [binary "aa"] [binary "bb", compress=12]
   [binary "cc"].  The override message is deflated by a NEW compressor and inflated by the peer's ONE decompressor; the
   writer now drops its shared compressor after it, so "cc" starts a fresh stream.  Before the repair the faithful model
   delivered "cc" as 05 05 (and real zlib delivered `bcabcabcxbca` for `abcabcabcabc`); kept as a regression example. *)
Example C11_override_then_shared_regression :
  let wc := mkw false 15 false in
  let ops := [Send OP_BINARY [97; 97] 0 0; Send OP_BINARY [98; 98] 12 0; Send OP_BINARY [99; 99] 0 0] in
  let c := peer_cfg wc 0 false in
  let r := toy_wrun wc (wstate0 toyc) ops in
  forallb (op_wf c) ops = true /\ safe_overrides wc ops = true /\ all_fit c (wo_sent r) = true
  /\ toy_feed_all c toy_reader0 [wo_wire r]
     = ([MBinary [97; 97]; MBinary [98; 98]; MBinary [99; 99]], snd (toy_feed_all c toy_reader0 [wo_wire r]))
  /\ rd_status (snd (toy_feed_all c toy_reader0 [wo_wire r])) = SPending.
Proof. exact desync_regression. Qed.
Print Assumptions C11_override_then_shared_regression.

(* nothing negotiated: [text "hi", compress=15] is sent with RSV1 and the peer fails the connection with 1002 *)
Theorem C11_roundtrip_refuted_override_unnegotiated :
  exists (wc : wcfg) (ops : list sop),
    let c := peer_cfg wc 0 true in
    let r := toy_wrun wc (wstate0 toyc) ops in
    forallb (op_wf c) ops = true /\ all_fit c (wo_sent r) = true
    /\ expect_all (wo_sent r) <> Some []
    /\ toy_feed_all c toy_reader0 [wo_wire r] = ([], Latched (WsErr 1002)).
Proof.
  exists unneg_cfg, unneg_ops. destruct unneg_witness as (A & B & C & D). cbv zeta in *.
  split; [exact A|split; [exact B|split; [rewrite C; discriminate|exact D]]].
Qed.
Print Assumptions C11_roundtrip_refuted_override_unnegotiated.

(* What IS proved, for every codec satisfying the pairing laws, every configuration (mask, negotiated window 0/9..15,
   no_context_takeover), every sequence of operations (text / binary / ping / pong / close, sends after close — refused
   ones simply do not appear on the wire), every payload size, every random mask and every segmentation of the wire:
   the reader delivers exactly the accepted operations, in order, with identical payloads, and is still alive —
   PROVIDED a per-message override is only used when the extension was negotiated (safe_overrides).  Overrides on a
   connection with context takeover are covered: the writer drops its shared compressor after an override message.
   Missing for the full statement: exactly the refuted family above. *)
Theorem C11_roundtrip_partial :
  forall (Cc : Type) (cinit : N -> Cc) (comp : bool -> Cc -> bytes -> bytes * Cc)
         (Cx : Type) (decomp : Cx -> bytes -> N -> dres Cx) (Rsync : Cc -> Cx -> Prop),
    (forall ff cc m z cc', comp ff cc m = (z, cc') -> exists z0, z = z0 ++ DEFLATE_TRAILING) ->
    (forall w d, Rsync (cinit w) d) ->
    (forall ff cc d m z cc' cap, Rsync cc d -> comp ff cc m = (z, cc') -> (cap = 0 \/ lenN m < cap) ->
       exists d', decomp d z cap = DOk m d' /\ Rsync cc' d') ->
    (forall cc m z cc' d, comp true cc m = (z, cc') -> Rsync cc' d) ->
    forall (wc : wcfg) (max_msg_size : N) (decode_text : bool) (ops : list sop) (segs : list bytes) (cx0 : Cx),
      let c := peer_cfg wc max_msg_size decode_text in
      let r := wrun Cc cinit comp wc (wstate0 Cc) ops in
      forallb (op_wf c) ops = true ->
      safe_overrides wc ops = true ->
      all_fit c (wo_sent r) = true ->
      concat segs = wo_wire r ->
      exists msgs, expect_all (wo_sent r) = Some msgs
        /\ fst (feed_all Cx decomp c (Live (init_state Cx cx0)) segs) = msgs
        /\ rd_status (snd (feed_all Cx decomp c (Live (init_state Cx cx0)) segs)) = SPending.
Proof. exact roundtrip_laws. Qed.
Print Assumptions C11_roundtrip_partial.

(* FULL for uncompressed traffic (control frames, close, data frames when neither the connection nor the call asks
   for compression): no assumption about the codec, no restriction besides well-formedness and the peer's limit *)
Theorem C11_roundtrip_uncompressed :
  forall (Cc : Type) (cinit : N -> Cc) (comp : bool -> Cc -> bytes -> bytes * Cc)
         (Cx : Type) (decomp : Cx -> bytes -> N -> dres Cx)
         (wc : wcfg) (max_msg_size : N) (decode_text : bool) (ops : list sop) (segs : list bytes) (cx0 : Cx),
    let c := peer_cfg wc max_msg_size decode_text in
    let r := wrun Cc cinit comp wc (wstate0 Cc) ops in
    forallb (op_wf c) ops = true ->
    forallb (op_plain wc) ops = true ->
    all_fit c (wo_sent r) = true ->
    concat segs = wo_wire r ->
    exists msgs, expect_all (wo_sent r) = Some msgs
      /\ fst (feed_all Cx decomp c (Live (init_state Cx cx0)) segs) = msgs
      /\ rd_status (snd (feed_all Cx decomp c (Live (init_state Cx cx0)) segs)) = SPending.
Proof. exact roundtrip_plain. Qed.
Print Assumptions C11_roundtrip_uncompressed.

(* the partial theorem holds of the runnable (extracted) model *)
Theorem C11_roundtrip_toy :
  forall (wc : wcfg) (max_msg_size : N) (decode_text : bool) (ops : list sop) (segs : list bytes),
    let c := peer_cfg wc max_msg_size decode_text in
    let r := toy_wrun wc (wstate0 toyc) ops in
    forallb (op_wf c) ops = true ->
    safe_overrides wc ops = true ->
    all_fit c (wo_sent r) = true ->
    concat segs = wo_wire r ->
    exists msgs, expect_all (wo_sent r) = Some msgs
      /\ fst (toy_feed_all c toy_reader0 segs) = msgs
      /\ rd_status (snd (toy_feed_all c toy_reader0 segs)) = SPending.
Proof. exact roundtrip_toy. Qed.
Print Assumptions C11_roundtrip_toy.

(* the hypotheses are satisfiable by a non-trivial run: masked, negotiated window 12 with takeover; shared text, an
   override AFTER the shared compressor has history, ping, the first message again (shared context, fresh stream), close,
   a refused late text, a pong that a closing writer still sends; max_msg_size 64, decode_text *)
Example C11_roundtrip_partial_nonvacuous :
  let wc := mkw true 12 false in
  let ops := [Send OP_TEXT [104; 105] 0 305419896; Send OP_BINARY [1; 2; 3] 9 11; Send OP_PING [] 0 5;
              Send OP_TEXT [104; 105] 0 77; Close 1000 [98; 121; 101] 3; Send OP_TEXT [108] 0 1; Send OP_PONG [7] 0 2] in
  let c := peer_cfg wc 64 true in
  let r := toy_wrun wc (wstate0 toyc) ops in
  forallb (op_wf c) ops = true /\ safe_overrides wc ops = true /\ all_fit c (wo_sent r) = true
  /\ wo_tags r = [TSent PSync; TSent PSync; TSent PPlain; TSent PSync; TSent PPlain; TRefused; TSent PPlain]
  /\ expect_all (wo_sent r)
     = Some [MText [104; 105]; MBinary [1; 2; 3]; MPing []; MText [104; 105]; MClose 1000 [98; 121; 101]; MPong [7]].
Proof. vm_compute. repeat split. Qed.
Print Assumptions C11_roundtrip_partial_nonvacuous.

(* ---- 4. concurrent senders, cancellations: the lock / shield discipline (Model/WsSend.v) -----------------------
   Whatever the interleaving of sender tasks, executor completions and cancellations: if every compress runs under
   _send_lock and is followed by its frame write before the lock is released (the traces the system accepts — the
   harness validates that the real writer only produces such traces), then the transport carries exactly what the
   SEQUENTIAL writer produces for the operations in wire order, with the same compressor state: wire order = compress
   order, no context is advanced without its frame being sent. *)
Theorem C11_wire_order_is_compress_order :
  forall (Cc : Type) (cinit : N -> Cc) (comp : bool -> Cc -> bytes -> bytes * Cc) (wc : wcfg)
         (evs : list cev) (st : cstate Cc),
    crun Cc cinit comp wc (cinit_state Cc) evs = Some st ->
    (forall t o w n, c_lock st <> Some (t, HComp o w n)) ->
    let r := wrun Cc cinit comp wc (wstate0 Cc) (map fst (c_order st)) in
    wo_wire r = c_wire st /\ wo_sent r = c_order st /\ wo_state r = c_w st.
Proof. exact sequentially_consistent. Qed.
Print Assumptions C11_wire_order_is_compress_order.

(* hence the peer reads the concurrent senders' messages back in wire order (same provisos as C11_roundtrip_partial) *)
Theorem C11_concurrent_roundtrip_partial :
  forall (Cc : Type) (cinit : N -> Cc) (comp : bool -> Cc -> bytes -> bytes * Cc)
         (Cx : Type) (decomp : Cx -> bytes -> N -> dres Cx) (Rsync : Cc -> Cx -> Prop),
    (forall ff cc m z cc', comp ff cc m = (z, cc') -> exists z0, z = z0 ++ DEFLATE_TRAILING) ->
    (forall w d, Rsync (cinit w) d) ->
    (forall ff cc d m z cc' cap, Rsync cc d -> comp ff cc m = (z, cc') -> (cap = 0 \/ lenN m < cap) ->
       exists d', decomp d z cap = DOk m d' /\ Rsync cc' d') ->
    (forall cc m z cc' d, comp true cc m = (z, cc') -> Rsync cc' d) ->
    forall (wc : wcfg) (max_msg_size : N) (decode_text : bool) (evs : list cev) (st : cstate Cc)
           (segs : list bytes) (cx0 : Cx),
      let c := peer_cfg wc max_msg_size decode_text in
      crun Cc cinit comp wc (cinit_state Cc) evs = Some st ->
      (forall t o w n, c_lock st <> Some (t, HComp o w n)) ->
      forallb (op_wf c) (map fst (c_order st)) = true ->
      safe_overrides wc (map fst (c_order st)) = true ->
      all_fit c (c_order st) = true ->
      concat segs = c_wire st ->
      exists msgs, expect_all (c_order st) = Some msgs
        /\ fst (feed_all Cx decomp c (Live (init_state Cx cx0)) segs) = msgs
        /\ rd_status (snd (feed_all Cx decomp c (Live (init_state Cx cx0)) segs)) = SPending.
Proof. exact concurrent_roundtrip. Qed.
Print Assumptions C11_concurrent_roundtrip_partial.

(* accepted: task 1 compresses in the executor while a ping is written and task 2 waits; rejected: compressing
   without the lock, taking a held lock, releasing between compress and write *)
Example C11_lock_discipline_examples :
  let wc := mkw false 15 false in
  let a := Send OP_BINARY [1; 2] 0 0 in
  let b := Send OP_BINARY [3] 0 0 in
  let ping := Send OP_PING [] 0 0 in
  (exists st, crun toyc toy_cinit toy_comp wc (cinit_state toyc)
                [EAcq 1; EComp 1 a; EPlain ping; EWrite 1; ERel 1; EAcq 2; EComp 2 b; EWrite 2; ERel 2] = Some st
              /\ map fst (c_order st) = [ping; a; b] /\ c_lock st = None)
  /\ crun toyc toy_cinit toy_comp wc (cinit_state toyc) [EComp 1 a] = None
  /\ crun toyc toy_cinit toy_comp wc (cinit_state toyc) [EAcq 1; EAcq 2] = None
  /\ crun toyc toy_cinit toy_comp wc (cinit_state toyc) [EAcq 1; EComp 1 a; ERel 1] = None
  /\ crun toyc toy_cinit toy_comp wc (cinit_state toyc) [EAcq 1; EComp 2 b] = None.
Proof. cbv zeta. split; [eexists; vm_compute; repeat split|vm_compute; repeat split]. Qed.
Print Assumptions C11_lock_discipline_examples.

(* ---- 5. submission order and the receive queue -------------------------------------------------------------------
   send_frame asks for the (fair) lock before it returns control — FEnq is ONE event: the call and the lock request
   (the shielded task of a large message is started eagerly for that reason).  Then, for every accepted trace, the
   compressed messages reach the wire in the order in which send_frame was called. *)
Theorem C11_wire_order_is_submission_order :
  forall (Cc : Type) (cinit : N -> Cc) (comp : bool -> Cc -> bytes -> bytes * Cc) (wc : wcfg)
         (evs : list fev) (st : fstate Cc),
    frun Cc cinit comp wc (finit_state Cc) evs = Some st -> f_q st = [] -> f_cur st = None ->
    comp_ops wc (c_order (f_c st)) = f_sub st.
Proof. exact wire_order_is_submission_order. Qed.
Print Assumptions C11_wire_order_is_submission_order.

(* such a trace, with the lock requests left out, is a trace of the system of section 4 *)
Theorem C11_submission_traces_are_lock_traces :
  forall (Cc : Type) (cinit : N -> Cc) (comp : bool -> Cc -> bytes -> bytes * Cc) (wc : wcfg)
         (evs : list fev) (st st' : fstate Cc),
    frun Cc cinit comp wc st evs = Some st' -> crun Cc cinit comp wc (f_c st) (proj_evs evs) = Some (f_c st').
Proof. exact frun_crun. Qed.
Print Assumptions C11_submission_traces_are_lock_traces.

(* gather(big A, small B): A queues and gets the lock inside its call, B queues behind it; B overtaking A (taking the
   lock while A is at the head of the queue) is not a trace *)
Example C11_submission_order_examples :
  let wc := mkw false 15 false in
  let a := Send OP_BINARY [1; 2] 0 0 in
  let b := Send OP_BINARY [3] 0 0 in
  (exists st, frun toyc toy_cinit toy_comp wc (finit_state toyc)
                [FEnq 1 a; FEv (EAcq 1); FEnq 2 b; FEv (EComp 1 a); FEv (EWrite 1); FEv (ERel 1);
                 FEv (EAcq 2); FEv (EComp 2 b); FEv (EWrite 2); FEv (ERel 2)] = Some st
              /\ comp_ops wc (c_order (f_c st)) = [a; b] /\ f_sub st = [a; b])
  /\ frun toyc toy_cinit toy_comp wc (finit_state toyc) [FEnq 1 a; FEnq 2 b; FEv (EAcq 2)] = None
  /\ frun toyc toy_cinit toy_comp wc (finit_state toyc) [FEnq 1 a; FEv (EAcq 1); FEv (EComp 1 b)] = None.
Proof. cbv zeta. split; [eexists; vm_compute; repeat split|vm_compute; repeat split]. Qed.
Print Assumptions C11_submission_order_examples.

(* WebSocketDataQueue: over all interleavings of feed_data, read(), and cancelled read()s (parked or already woken),
   what the read()s returned followed by what is still buffered is exactly what was fed, in order *)
Theorem C11_queue_exactly_once_in_order :
  forall (evs : list qev) (st : qstate), qrun qinit evs = Some st -> q_got st ++ q_buf st = q_fed st.
Proof. exact queue_from_init. Qed.
Print Assumptions C11_queue_exactly_once_in_order.

Example C11_queue_cancelled_read_loses_nothing :
  forall m m2, exists st,
    qrun qinit [QRead; QFeed m; QCancel; QRead; QFeed m2; QReturn] = Some st /\ q_got st = [m] /\ q_buf st = [m2].
Proof. exact cancel_after_wake_keeps_message. Qed.
Print Assumptions C11_queue_cancelled_read_loses_nothing.

(* read flow control of the queue (pause / resume tests regenerated from feed_data / _read_from_buffer): for every
   positive limit and every sequence of feeds and reads, once the consumer has drained the queue reading is not paused
   and the size counter is back to 0 — the peer's next frames can arrive *)
Theorem C11_drained_queue_is_not_paused :
  forall (lim : N) (evs : list flev) (st : flstate),
    0 < lim -> flrun lim flinit evs = Some st -> fl_buf st = [] -> fl_paused st = false /\ fl_size st = 0.
Proof. exact drained_from_init. Qed.
Print Assumptions C11_drained_queue_is_not_paused.

Example C11_drained_queue_example :
  (* limit 8 (_limit 16): a 40-byte message alone pauses reading; reading it resumes *)
  exists st, flrun 16 flinit [FlFeed 40; FlPop; FlFeed 4; FlFeed 4; FlPop] = Some st
             /\ fl_paused st = false /\ fl_buf st = [4]
  /\ exists st1, flrun 16 flinit [FlFeed 40] = Some st1 /\ fl_paused st1 = true.
Proof. eexists. split; [reflexivity|]. split; [reflexivity|]. split; [reflexivity|]. eexists. split; reflexivity. Qed.
Print Assumptions C11_drained_queue_example.
