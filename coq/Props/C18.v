(* C18 — Timeouts and cancellation are bounded and leave no residue.
   Only statements; each closed by `exact` of a lemma proved in Proofs/Timeouts*.v (or by vm_compute for the
   examples).  The model (Model/Timeouts.v) is a transition system over ALL histories of stimuli
   (start / DNS answer / connect / body drained / response data / read / cancel / timer / time passes) of any
   number of requests sharing one pool and one DNS lookup; `run g init tr = Some s` says that s is the state
   after the history tr.  Time is counted in ticks of 1/u second; u, the pool limit, every configuration and
   every history are universally quantified.  `Forall wf_event tr` only says that the configured timeouts
   are not negative. *)
From AV Require Import Lib.Base Generated.TimeoutsGen Model.Timeouts Proofs.TimeoutsArith Proofs.TimeoutsEff
  Proofs.TimeoutsInv Proofs.TimeoutsTimers Proofs.TimeoutsMain Proofs.TimeoutsUsable.
Open Scope Z_scope.

(* ---- the documented rounding (formulas generated from helpers.py) ------------------------------------------- *)

(* A total timeout t armed at nw expires no earlier than nw + t and before nw + t + 1 s; it is rounded up to a
   whole second exactly when t >= ceil_threshold (TimeoutHandle.start). *)
Theorem C18_total_deadline_rounding : forall u nw t thr, 0 < u ->
  nw + t <= total_when u nw t thr < nw + t + u /\
  (t < thr -> total_when u nw t thr = nw + t) /\
  (thr <= t -> total_when u nw t thr = ceil_to u (nw + t) /\ (total_when u nw t thr) mod u = 0).
Proof. exact total_deadline_rounding. Qed.
Print Assumptions C18_total_deadline_rounding.

(* connect / sock_connect (ceil_timeout): same window; rounded only when t > ceil_threshold. *)
Theorem C18_ctx_deadline_rounding : forall u nw t thr, 0 < u ->
  nw + t <= ctx_when u nw t thr < nw + t + u /\
  (t <= thr -> ctx_when u nw t thr = nw + t) /\
  (thr < t -> ctx_when u nw t thr = ceil_to u (nw + t)).
Proof. exact ctx_deadline_rounding. Qed.
Print Assumptions C18_ctx_deadline_rounding.

(* ---- boundedness ----------------------------------------------------------------------------------------------
   In EVERY reachable state, a request whose caller is awaiting (waiting for a pool slot, resolving, connecting,
   sending / awaiting the head, reading the body) has its total timer armed with the generated deadline D, the
   clock has not passed D, and D is within the documented rounding of start + T. *)
Theorem C18_bound_total : forall g tr s t T,
  0 < u g -> Forall wf_event tr -> run g init tr = Some s ->
  awaiting (pcs (tasks s t)) = true -> eff_total (cfg (tasks s t)) = Some T -> 0 < T ->
  let ts := tasks s t in
  let D := total_when (u g) (started ts) T (c_thr (cfg ts)) in
  d_total (tm ts) = Some D /\ now s <= D /\ D <= ceil_to (u g) (started ts + T) /\ D < started ts + T + u g /\
  (T < c_thr (cfg ts) -> D = started ts + T).
Proof. exact bound_total. Qed.
Print Assumptions C18_bound_total.

(* connect: covers waiting for a slot, resolving and connecting (not the reuse of an idle connection) *)
Theorem C18_bound_connect : forall g tr s t T,
  0 < u g -> Forall wf_event tr -> run g init tr = Some s ->
  connecting (pcs (tasks s t)) = true -> c_connect (cfg (tasks s t)) = Some T -> 0 < T ->
  let ts := tasks s t in
  let D := ctx_when (u g) (started ts) T (c_thr (cfg ts)) in
  d_conn (tm ts) = Some D /\ now s <= D /\ D <= ceil_to (u g) (started ts + T) /\ D < started ts + T + u g /\
  (T <= c_thr (cfg ts) -> D = started ts + T).
Proof. exact bound_connect. Qed.
Print Assumptions C18_bound_connect.

(* sock_connect: counted from the start of the socket connect attempt *)
Theorem C18_bound_sock_connect : forall g tr s t T,
  0 < u g -> Forall wf_event tr -> run g init tr = Some s ->
  pcs (tasks s t) = PConnect -> c_sock_connect (cfg (tasks s t)) = Some T -> 0 < T ->
  let ts := tasks s t in
  let D := ctx_when (u g) (sock_started ts) T (c_thr (cfg ts)) in
  d_sock (tm ts) = Some D /\ now s <= D /\ D <= ceil_to (u g) (sock_started ts + T) /\
  D < sock_started ts + T + u g /\ (T <= c_thr (cfg ts) -> D = sock_started ts + T).
Proof. exact bound_sock_connect. Qed.
Print Assumptions C18_bound_sock_connect.

(* sock_read: once the request body has been written, while awaiting the head or reading the body, the timer is
   armed for last socket activity + T, unrounded (mid-line and mid-chunk data re-arm it like any other data) *)
Theorem C18_bound_sock_read : forall g tr s t T,
  0 < u g -> Forall wf_event tr -> run g init tr = Some s ->
  pcs (tasks s t) = PHeaders \/ pcs (tasks s t) = PBody true -> writer (tasks s t) = false ->
  c_sock_read (cfg (tasks s t)) = Some T -> T <> 0 ->
  let ts := tasks s t in
  d_read (tm ts) = Some (last_io ts + T) /\ now s <= last_io ts + T /\ last_io ts <= now s.
Proof. exact bound_sock_read. Qed.
Print Assumptions C18_bound_sock_read.

(* time cannot pass an armed deadline ... *)
Theorem C18_time_stops_at_deadline : forall g tr s d s' t w D,
  run g init tr = Some s -> step g s (EAdv d) = Some s' -> deadline (tasks s t) w = Some D -> now s + d <= D.
Proof. exact time_stops_at_deadline. Qed.
Print Assumptions C18_time_stops_at_deadline.

(* ... when it is reached while the caller is awaiting, the timer event is enabled ... *)
Theorem C18_due_timer_fails : forall g tr s t w D,
  0 < u g -> Forall wf_event tr -> run g init tr = Some s ->
  awaiting (pcs (tasks s t)) = true -> deadline (tasks s t) w = Some D -> D <= now s ->
  exists s', step g s (EFire t w) = Some s' /\ now s' = now s /\
             tasks s' t = failed (tasks s t) (fire_kind w) (now s).
Proof. exact due_timer_fails. Qed.
Print Assumptions C18_due_timer_fails.

(* ... and whenever a timer fires, it fires exactly at its deadline and (caller awaiting) the request has failed
   with that timer's error, stamped with the deadline.  With the four theorems above: the request fails with
   a timeout error no later than the configured bound plus the documented rounding. *)
Theorem C18_timeout_at_deadline : forall g tr s t w s',
  0 < u g -> Forall wf_event tr -> run g init tr = Some s -> step g s (EFire t w) = Some s' ->
  exists D, deadline (tasks s t) w = Some D /\ now s = D /\ now s' = D /\
            (awaiting (pcs (tasks s t)) = true -> tasks s' t = failed (tasks s t) (fire_kind w) D).
Proof. exact timeout_at_deadline. Qed.
Print Assumptions C18_timeout_at_deadline.

(* ---- no residue ---------------------------------------------------------------------------------------------- *)

(* In EVERY reachable state, a request that has failed (timeout of any kind or cancellation, at any await
   point) holds no pool slot, is not queued, has no writer task and no armed timer; the connection it had is
   closed, is not in the idle pool and is not owned by any other request. *)
Theorem C18_residue : forall g tr s t f a,
  0 < u g -> Forall wf_event tr -> run g init tr = Some s -> pcs (tasks s t) = PFailed f a ->
  ~ In t (acq s) /\ ~ In t (waiters s) /\ writer (tasks s t) = false /\ tm (tasks s t) = no_timers /\
  (forall c, conn_of (tasks s t) = Some c ->
     In c (closedc s) /\ ~ In c (idle s) /\
     forall t', has_conn (pcs (tasks s t')) = true -> conn_of (tasks s t') <> Some c).
Proof. exact residue. Qed.
Print Assumptions C18_residue.

(* Timer state machine: in EVERY reachable state, a request whose connection has been given back (response
   complete - read by the caller or still waiting in the buffer - or failed) has no armed timer, holds no slot and
   has no writer task, whatever the order of end-of-body, pause / resume, body-written and read events was: no
   timer is ever left armed on behalf of a connection that idles in the pool. *)
Theorem C18_released_no_timers : forall g tr s t,
  0 < u g -> Forall wf_event tr -> run g init tr = Some s -> live (pcs (tasks s t)) = false ->
  tm (tasks s t) = no_timers /\ ~ In t (acq s) /\ writer (tasks s t) = false.
Proof. exact released_no_timers. Qed.
Print Assumptions C18_released_no_timers.

(* the pool accounting is exact in every reachable state (the C07 coherence is re-established after every
   failure): slots = requests being established or served, queue = requests waiting, idle connections are open
   and owned by nobody *)
Theorem C18_pool_coherent : forall g tr s,
  run g init tr = Some s ->
  NoDup (acq s) /\ NoDup (waiters s) /\
  (forall t, In t (acq s) <-> holds_slot (pcs (tasks s t)) = true) /\
  (forall t, In t (waiters s) <-> pcs (tasks s t) = PWaitSlot) /\
  (forall c, In c (idle s) -> ~ In c (closedc s) /\
     forall t, has_conn (pcs (tasks s t)) = true -> conn_of (tasks s t) <> Some c).
Proof. exact pool_coherent. Qed.
Print Assumptions C18_pool_coherent.

(* ---- other requests are neither failed nor cancelled ----------------------------------------------------------- *)

(* a request is failed only by an event of its own: its own cancellation, one of its own timers, or its own
   read picking up a timer that fired while the caller was not awaiting *)
Theorem C18_failed_only_by_own_event : forall g tr s t f a,
  run g init tr = Some s -> pcs (tasks s t) = PFailed f a -> exists e, In e tr /\ cause t f e.
Proof. exact failed_only_by_own_event. Qed.
Print Assumptions C18_failed_only_by_own_event.

(* step form, with the failure time: the failure is stamped with the instant of the causing event *)
Theorem C18_failure_stamped_now : forall g tr s e s' t f a,
  run g init tr = Some s -> step g s e = Some s' -> pcs (tasks s' t) = PFailed f a ->
  pcs (tasks s t) = PFailed f a \/ (cause t f e /\ a = now s /\ pending (pcs (tasks s t)) = true).
Proof. exact failure_stamped_now. Qed.
Print Assumptions C18_failure_stamped_now.

(* whatever happens to request t' (timeout, cancellation, anything), a different request t is left exactly as it
   was, or makes progress: a queued request is given the freed slot, a request waiting for the shared lookup
   starts connecting *)
Theorem C18_bystander_untouched : forall g tr s e s' t,
  run g init tr = Some s -> step g s e = Some s' -> ev_task e <> Some t ->
  tasks s' t = tasks s t \/
  (pcs (tasks s t) = PWaitSlot /\
     (pcs (tasks s' t) = PHeaders \/ pcs (tasks s' t) = PConnect \/ pcs (tasks s' t) = PResolve)) \/
  (pcs (tasks s t) = PResolve /\ pcs (tasks s' t) = PConnect).
Proof. exact bystander_untouched. Qed.
Print Assumptions C18_bystander_untouched.

(* the shared DNS lookup in flight survives every event but the resolver's answer (in particular the timeout or
   cancellation of the request that started it); a cached answer stays *)
Theorem C18_lookup_survives : forall g s e s',
  step g s e = Some s' -> dns s = DInflight \/ dns s = DCached ->
  dns s' = dns s \/ (e = EDns /\ dns s = DInflight /\ dns s' = DCached).
Proof. exact step_dns. Qed.
Print Assumptions C18_lookup_survives.

(* ---- the session remains usable ---------------------------------------------------------------------------- *)

(* after ANY history, once the earlier requests have ended (however they ended), a new request served by a
   cooperative peer completes *)
Theorem C18_session_usable : forall g tr s t c,
  0 <= limit g -> run g init tr = Some s ->
  (forall t', live (pcs (tasks s t')) = false) -> ~ In t (ids s) ->
  exists tr' s', run g s (EStart t c :: tr') = Some s' /\ pcs (tasks s' t) = PDone.
Proof. exact session_usable. Qed.
Print Assumptions C18_session_usable.

(* ---- non-vacuity ----------------------------------------------------------------------------------------------- *)

Definition ex_g : gcfg := mkG 16 1.
Definition ex_cfg (total connect sockc sockr : option Z) (blk : bool) : tcfg := mkCfg total connect sockc sockr 80 blk.

(* pool of one.  Request 0 (total 8.125 s, started 2 ticks into a second) resolves, connects, receives a partial
   head and then the peer stalls; request 1 (connect timeout 2 s) queues for the slot and times out at tick 35;
   request 2 queues behind it.  At tick 144 (= ceil(2 + 130)) request 0's total timer fires: it fails, its
   connection is closed, request 2 is woken, connects, is served and its connection goes back to the pool; a
   follow-up request 3 then reuses that connection and completes. *)
Definition ex_trace : list event :=
  [EAdv 2; EStart 0%N (ex_cfg (Some 130) None None None false); EAdv 1; EDns; EConn 0%N; EData 0%N KPart;
   EStart 1%N (ex_cfg None (Some 32) None None false); EStart 2%N (ex_cfg None None None (Some 40) true);
   EAdv 32; EFire 1%N TConn; EAdv 109; EFire 0%N TTotal;
   EConn 2%N; EWritten 2%N; EData 2%N KHead; ERead 2%N; EData 2%N KBig; EData 2%N KEnd;
   EStart 3%N (ex_cfg (Some 20) None None None false); EData 3%N KHead; ERead 3%N; EData 3%N KEnd].

Example C18_example_run :
  exists s, run ex_g init ex_trace = Some s /\
    pcs (tasks s 0%N) = PFailed FTotal 144 /\ pcs (tasks s 1%N) = PFailed FConnect 35 /\
    pcs (tasks s 2%N) = PDone /\ pcs (tasks s 3%N) = PDone /\
    acq s = [] /\ waiters s = [] /\ idle s = [1%N] /\ closedc s = [0%N] /\ Forall wf_event ex_trace.
Proof.
  eexists. split; [vm_compute; reflexivity|]. vm_compute.
  repeat split; try reflexivity.
  repeat constructor; intros t [H|[H|[H|H]]]; try discriminate; injection H as <-; vm_compute; discriminate.
Qed.
Print Assumptions C18_example_run.

(* the hypotheses of C18_bound_total / C18_due_timer_fails hold in the state just before request 0's timer
   fires: it is awaiting the head, its effective total is 130 ticks, and the deadline 144 has been reached *)
Example C18_example_bound_hyps :
  exists s, run ex_g init (firstn 11 ex_trace) = Some s /\
    awaiting (pcs (tasks s 0%N)) = true /\ eff_total (cfg (tasks s 0%N)) = Some 130 /\
    deadline (tasks s 0%N) TTotal = Some 144 /\ now s = 144 /\
    pcs (tasks s 2%N) = PWaitSlot /\ total_when 16 2 130 80 = 144.
Proof. eexists. split; [vm_compute; reflexivity|]. vm_compute. repeat split; reflexivity. Qed.
Print Assumptions C18_example_bound_hyps.

(* the whole response arrives before the caller reads (PRecv): the connection is pooled at once with no timer
   left, the next request reuses it after an idle period longer than sock_read and completes; then the first
   caller reads its buffered body *)
Example C18_example_received_before_read :
  exists s, run ex_g init [EStart 0%N (ex_cfg None None None (Some 20) false); EDns; EConn 0%N; EData 0%N KHead;
                          EData 0%N KEnd; EAdv 45; EStart 1%N (ex_cfg None None None (Some 20) false);
                          EData 1%N KHead; ERead 1%N; EData 1%N KEnd; ERead 0%N] = Some s /\
    pcs (tasks s 0%N) = PDone /\ pcs (tasks s 1%N) = PDone /\ idle s = [0%N] /\ nconn s = 1%N /\
    tm (tasks s 0%N) = no_timers.
Proof. eexists. split; [vm_compute; reflexivity|]. vm_compute. repeat split; reflexivity. Qed.
Print Assumptions C18_example_received_before_read.

(* the hypotheses of C18_session_usable hold after a history in which every request failed *)
Example C18_example_usable_hyps :
  exists s, run ex_g init [EStart 0%N (ex_cfg (Some 20) None None None false); EStart 1%N (ex_cfg None None None None false);
                          ECancel 1%N; EAdv 20; EFire 0%N TTotal] = Some s /\
    pcs (tasks s 0%N) = PFailed FTotal 20 /\ pcs (tasks s 1%N) = PFailed FCancelled 0 /\
    ids s = [0%N; 1%N] /\ dns s = DInflight /\ acq s = [].
Proof. eexists. split; [vm_compute; reflexivity|]. vm_compute. repeat split; reflexivity. Qed.
Print Assumptions C18_example_usable_hyps.
