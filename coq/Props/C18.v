(* C18 — Timeouts and cancellation are bounded and leave no residue.
   Only statements; each closed by `exact` of a lemma proved in Proofs/Timeouts*.v. *)
From AV Require Import Lib.Base Generated.TimeoutsGen Model.Timeouts Proofs.TimeoutsArith.
Open Scope Z_scope.

(* ---- the documented rounding ---------------------------------------------------------------- *)

(* A total timeout t armed at `nw` expires no earlier than nw + t and no later than the next whole second
   after it (u ticks = 1 s); it is rounded exactly when t >= ceil_threshold (helpers.TimeoutHandle.start). *)
Theorem C18_total_deadline_rounding : forall u nw t thr, 0 < u ->
  nw + t <= total_when u nw t thr < nw + t + u /\
  (t < thr -> total_when u nw t thr = nw + t) /\
  (thr <= t -> total_when u nw t thr = ceil_to u (nw + t) /\ (total_when u nw t thr) mod u = 0).
Proof.
  intros u nw t thr Hu. repeat split.
  - apply total_when_ge; assumption.
  - pose proof (total_when_le u nw t thr Hu). pose proof (ceil_to_lt u (nw + t) Hu). lia.
  - apply total_when_exact.
  - apply total_when_ceiled; assumption.
  - rewrite total_when_ceiled by assumption. apply ceil_to_multiple; assumption.
Qed.
Print Assumptions C18_total_deadline_rounding.
