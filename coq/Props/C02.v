(* C02 — Wire round trip: what one aiohttp endpoint sends, the other receives.
   Only statements; each is closed by `exact` of a lemma proved in Proofs/Wire*.v.

   REQUEST DIRECTION (client -> server), modelled and proved:
     Model/Wire.v composes Model/Writer.v (header serialisation + StreamWriter) with Model/Http.v
     (HttpRequestParser):  cinput --build--> creq --client_serialize--> bytes --run_segs--> mrec.
     C02_request_roundtrip : every request of the modelled shape that the writer accepts and whose fields
       are parser-valid (`valid`, spelled out in Model/Wire.v and by C02_valid_* below) is delivered by the
       request parser, under EVERY segmentation of the emitted bytes, as exactly one message with the same
       method, target, version, field list (OWS-stripped) and body bytes; the parser ends in its idle state.
       Route: (1) every PREFIX of the emitted bytes is accepted in one read and leaves a buffered chunk line
       that passes the next read's re-check (C02_request_prefixes_accepted); (2) C03's two-read splitting
       theorem (feed_split = C03_split_partial) then gives every segmentation the one-read result.
       The strict `+ 1` in the limits of `valid` is exactly C03's CR-boundary finding: a line of the limit
       length is rejected when a read ends between its CR and LF.
     chunked=False: the writer mode is regenerated from `ClientRequest._create_writer` on every run; since fix
       85945a4 (`if self.chunked:`) a chunked=False request keeps Content-Length framing, satisfies `valid` and is
       covered by C02_request_roundtrip (C02_chunked_false_example); before it the statement was refuted there.
     C02_keepalive_request_side : for every request build produces without a caller-supplied Connection header,
       the parser's should_close equals connector.force_close (by version and the Connection header _send adds).
   RESPONSE DIRECTION (server -> client): the BYTES are covered by the end-to-end harness (harness/c02.py)
     only - a strict response-parser model does not exist.  The keep-alive DECISIONS are modelled
     (Model/WireResp.v: the framing / Connection choices of StreamResponse._prepare_headers, what web_protocol
     then does, what HttpResponseParser concludes) and compared with the real endpoints on every run:
     C02_keepalive_agree : FULL - for every response StreamResponse prepares, the client never reuses a connection
       the server closes and never waits for the end of a connection the server keeps open (refuted until fix 796e67c by
       HTTP/1.0 keep-alive + length-less body; the generated flag h10_nolength_clears_stored_keepalive follows the code).
     C02_expect_continue_no_deadlock : the client creates the 100-continue waiter only when the server sends a 100. *)
From AV Require Import Lib.Base Lib.BytesX Generated.HttpGen Generated.WireGen Model.Writer Model.Http Model.Wire
  Model.WireResp
  Proofs.HttpSeg Proofs.HttpSegEx Proofs.WireLines Proofs.WireRoundtrip Proofs.WireKeepalive Proofs.WireExamples
  Proofs.WireResp.
Open Scope N_scope.

(* ------------------------------------------------------------------ 1. the round trip *)
Theorem C02_request_roundtrip : forall lim o r w,
  client_serialize r = Some w -> valid lim r = true ->
  forall segs, concat segs = w ->
  run_segs lim o init segs [] [] = (final_state lim r, [expected_rec r], ROk []).
Proof. exact request_roundtrip. Qed.
Print Assumptions C02_request_roundtrip.

(* what the delivered record and the final parser state are *)
Theorem C02_expected_rec_spelled : forall r,
  let e := expected_rec r in
  m_method (r_msg e) = map upper (c_method r) /\ m_target (r_msg e) = c_target r /\
  (m_vmaj (r_msg e), m_vmin (r_msg e)) = (1, if c_v11 r then 1 else 0) /\
  m_headers (r_msg e) = map (fun kv => (u8 (fst kv), strip_ows (u8 (snd kv)))) (c_headers r) /\
  r_data e = body_bytes (c_body r) /\ r_eof e = true /\ r_exc e = None.
Proof. exact expected_rec_spelled. Qed.
Print Assumptions C02_expected_rec_spelled.

Theorem C02_final_state_spelled : forall lim r,
  let s := final_state lim r in
  lines s = [] /\ tail s = [] /\ payload s = None /\ upgraded s = false /\
  should_close s = m_close (r_msg (expected_rec r)).
Proof. exact final_state_spelled. Qed.
Print Assumptions C02_final_state_spelled.

(* the two ingredients: one read of the whole message; no read of a prefix is ever rejected *)
Theorem C02_request_one_read : forall lim o r w,
  client_serialize r = Some w -> valid lim r = true ->
  feed lim o init w [] = (final_state lim r, [expected_rec r], ROk []).
Proof. exact wire_one_read. Qed.
Print Assumptions C02_request_one_read.

Theorem C02_request_prefixes_accepted : forall lim o r w,
  client_serialize r = Some w -> valid lim r = true ->
  forall x y, w = x ++ y ->
  exists s a, tail_ok lim s = true /\
    forall f, (2 * length x + 2 <= f)%nat -> feed_loop f lim o init x [] = (s, a, ROk []).
Proof. exact wire_prefixes. Qed.
Print Assumptions C02_request_prefixes_accepted.

(* generic step from prefixes to segmentations (any byte stream, any limits) *)
Theorem C02_prefixes_give_segmentations : forall lim o w s a,
  prefix_accepting lim o w -> feed lim o init w [] = (s, a, ROk []) ->
  forall segs, concat segs = w -> run_segs lim o init segs [] [] = (s, a, ROk []).
Proof. exact all_segmentations. Qed.
Print Assumptions C02_prefixes_give_segmentations.

(* the bytes on the wire: head, then the body as-is or chunk-framed *)
Theorem C02_wire_shape : forall lim r w,
  client_serialize r = Some w -> valid lim r = true ->
  exists head, serialize_headers (status_line r) (c_headers r) = Some head /\
    headers_safe (c_headers r) = true /\
    w = u8 (status_line r) ++ 13 :: 10 :: lines_bytes (map hline (c_headers r)) ++ 13 :: 10 :: body_wire r.
Proof. exact wire_is. Qed.
Print Assumptions C02_wire_shape.

(* non-vacuity: three requests built by `build` (chunked async-generator body on 1.1; bytes body on 1.0 with
   force_close; no body) satisfy `valid` with the default limits and are accepted by the writer *)
Example C02_valid_examples :
  (exists r, build ex_chunked = BOk r /\ valid lim0 r = true /\ client_serialize r <> None /\ c_chunked r = Some true) /\
  (exists r, build ex_bytes = BOk r /\ valid lim0 r = true /\ client_serialize r <> None /\ c_chunked r = None) /\
  (exists r, build ex_nobody = BOk r /\ valid lim0 r = true /\ client_serialize r <> None).
Proof. exact ex_valid. Qed.
Print Assumptions C02_valid_examples.

(* and a three-read segmentation (cut inside the head and inside a chunk) run by computation *)
Example C02_roundtrip_example :
  let r := built ex_chunked in
  concat (cut3 (wire_of r)) = wire_of r /\
  digest (run_segs lim0 [] init (cut3 (wire_of r)) [] []) =
    (ROk [], [([80; 79; 83; 84], [47; 112], [120; 121; 122], [1; 3], true, None)]) /\
  r_data (expected_rec r) = [120; 121; 122] /\ m_method (r_msg (expected_rec r)) = [80; 79; 83; 84].
Proof. exact ex_segmented. Qed.
Print Assumptions C02_roundtrip_example.

(* ------------------------------------------------------------------ 2. chunked=False *)
(* Until fix 85945a4 the unrestricted statement was refuted here (chunked=False kept Content-Length on the head
   while the writer chunk-framed the body).  The writer mode is regenerated from the source
   (Generated/WireGen.writer_chunking_enabled): chunked=False now satisfies `valid`, so C02_request_roundtrip
   covers it like any other request; instance: *)
Example C02_chunked_false_example :
  let r := built ex_chunked_false in
  build ex_chunked_false = BOk r /\ i_chunked ex_chunked_false = Some false /\ c_chunked r = Some false /\
  client_serialize r <> None /\ valid lim0 r = true /\
  concat (cut3 (wire_of r)) = wire_of r /\
  digest (run_segs lim0 [] init (cut3 (wire_of r)) [] []) =
    (ROk [], [([80; 79; 83; 84], [47; 112], [120; 121; 122], [], true, None)]).
Proof. exact ex_chunked_false_ok. Qed.
Print Assumptions C02_chunked_false_example.

(* ------------------------------------------------------------------ 2b. a body source that fails part of the way *)
(* ClientRequest._write_bytes runs writer.write_eof() only in the `else:` of the try around the body write
   (Generated/WireGen.write_eof_only_after_success, regenerated from the source): when the body source of a chunked
   request raises after k pieces, the client emits the head and the chunks written so far and NO last-chunk.
   Then, under every segmentation, the request parser either has seen nothing or is still inside the body: the
   handler's payload stream is never completed, the truncated prefix is not handed over as a whole body.
   (With write_eof() after the try - seeded change C02-4 - the generated flag flips and this proof breaks.) *)
Theorem C02_aborted_body_not_completed : forall lim o r k w',
  req_chunking r = true ->
  client_serialize r <> None -> valid lim r = true ->
  client_serialize_aborted r k = Some w' ->
  forall segs, concat segs = w' ->
  exists s a, run_segs lim o init segs [] [] = (s, a, ROk []) /\
              ((s = init /\ a = []) \/ payload s <> None).
Proof. exact aborted_body_not_completed. Qed.
Print Assumptions C02_aborted_body_not_completed.

Example C02_aborted_body_example :
  let r := built ex_chunked in
  req_chunking r = true /\ client_serialize r <> None /\ valid lim0 r = true /\
  client_serialize_aborted r 2 <> None /\
  digest (run_segs lim0 [] init [wire_aborted r 2] [] []) =
    (ROk [], [([80; 79; 83; 84], [47; 112], [120], [1], false, None)]) /\
  digest (run_segs lim0 [] init [wire_of r] [] []) =
    (ROk [], [([80; 79; 83; 84], [47; 112], [120; 121; 122], [1; 3], true, None)]).
Proof. exact ex_aborted. Qed.
Print Assumptions C02_aborted_body_example.

(* since fix ef4bcfa the client counts the declared Content-Length down (writer.length) and fails the request when the body
   source ends short of it (Generated/WireGen.client_counts_declared_length); for a valid request nothing is missing *)
Theorem C02_valid_request_has_no_shortfall : forall lim r, valid lim r = true -> body_shortfall r = 0.
Proof. exact valid_no_shortfall. Qed.
Print Assumptions C02_valid_request_has_no_shortfall.

(* ------------------------------------------------------------------ 3. keep-alive, request side *)
Theorem C02_keepalive_request_side : forall lim i r,
  build i = BOk r -> valid lim r = true ->
  md_has n_connection (i_headers i) = false ->
  m_close (r_msg (expected_rec r)) = i_force_close i.
Proof. exact keepalive_request_side. Qed.
Print Assumptions C02_keepalive_request_side.

Example C02_keepalive_examples :
  (let r := built ex_chunked in valid lim0 r = true /\ md_has n_connection (i_headers ex_chunked) = false /\ close_of r = false) /\
  (let r := built ex_bytes in valid lim0 r = true /\ md_has n_connection (i_headers ex_bytes) = false /\ close_of r = true).
Proof. exact ex_keepalive. Qed.
Print Assumptions C02_keepalive_examples.

(* ------------------------------------------------------------------ 4. keep-alive, both ends (decisions) *)
(* Full statement: for every response StreamResponse prepares, the two ends' decisions are safe together - the client
   never reuses a connection the server closes and never waits for the end of a connection the server keeps open.
   (Until fix 796e67c this was refuted by the HTTP/1.0 keep-alive + length-less body family; the stored decision is
   now cleared at the end of the close-delimited body: Generated/WireGen.h10_nolength_clears_stored_keepalive.) *)
Theorem C02_keepalive_agree : forall c r h keeps,
  server_prepare c r = SHead h keeps ->
  (client_close h = false -> keeps = true) /\ (keeps && client_waits_eof (q_head c) h = false).
Proof. exact keepalive_agree. Qed.
Print Assumptions C02_keepalive_agree.

(* the formerly refuting instance: the server now closes, ending the close-delimited body the client reads *)
Example C02_keepalive_h10_close_delimited_example :
  h10_close_delimited_kept (mkCtx false true false) (mkResp 200 None false false) = true /\
  server_prepare (mkCtx false true false) (mkResp 200 None false false) = SHead (mkHead false 200 None false CNone) false /\
  client_close (mkHead false 200 None false CNone) = true /\ client_waits_eof false (mkHead false 200 None false CNone) = true.
Proof. exact h10_family_now_closes. Qed.
Print Assumptions C02_keepalive_h10_close_delimited_example.

(* Expect: 100-continue (decisions regenerated from _update_expect_continue and _default_expect_handler): whenever the
   client creates the waiter for `100 Continue`, the server sends one (since fix a7a14c4: not for HTTP/1.0 requests) *)
Theorem C02_expect_continue_no_deadlock : forall expect v11,
  continue_waiter_created expect v11 = true -> server_sends_100 expect v11 = true.
Proof. exact expect_no_deadlock. Qed.
Print Assumptions C02_expect_continue_no_deadlock.

(* hypotheses satisfiable: HTTP/1.1 stream without length (chunked, kept open, reusable); HTTP/1.0 with a length *)
Example C02_keepalive_agree_examples :
  (exists h, server_prepare (mkCtx true true false) (mkResp 200 None false false) = SHead h true /\
             client_close h = false /\ client_waits_eof false h = false /\
             h10_close_delimited_kept (mkCtx true true false) (mkResp 200 None false false) = false) /\
  (exists h, server_prepare (mkCtx false true false) (mkResp 200 (Some 5) false false) = SHead h true /\
             client_close h = false /\ h_conn h = CKeepAlive).
Proof. exact agree_example. Qed.
Print Assumptions C02_keepalive_agree_examples.
