(* C20 — App lifecycle: cleanup runs exactly for what started; shutdown drains.
   Only statements; each closed by `exact` of a lemma proved in Proofs/ (or by computation on a witness).

   Model/Lifecycle.v: an application is the list of registration calls made on it (cleanup_ctx.append,
   on_startup/on_shutdown/on_cleanup.append, add_subapp); a failure oracle says which user step raises;
   `via_apprunner` / `via_run_app` give the event log of the instrumented callbacks.
   `entered l` = contexts whose startup code completed, `exited l` = contexts whose cleanup code ran. *)
From AV Require Import Lib.Base Generated.LifecycleGen Model.Lifecycle Proofs.Lifecycle Model.Shutdown Proofs.Shutdown.
From Coq Require Import Permutation.
Open Scope N_scope.

(* ---- the mechanism (CleanupContext._on_startup/_on_cleanup), every context list and failure choice ----
   what is recorded is exactly what completed (a prefix, cut at the first failing context), and the
   teardown runs each recorded context once, in reverse order, whatever teardown raises *)
Theorem C20_context_mechanism : forall f cs l ex r,
  ctx_startup f cs [] = (l, ex, r) ->
  ex = entered l /\
  (r = None -> ex = cs) /\
  (forall e, r = Some e -> exists p c q, cs = p ++ c :: q /\ ex = p /\ e = ErrStep (SEnter c) /\ f (SEnter c) = true) /\
  (forall l' r', ctx_cleanup f ex = (l', r') -> exited l' = rev ex /\ entered l' = []).
Proof. exact context_mechanism. Qed.
Print Assumptions C20_context_mechanism.

(* ---- "only if", and "at most once": ALL trees, ALL failure choices, both entry points ----
   the cleanup code of a context never runs more often than its startup code completed *)
Theorem C20_cleanup_only_if_started : forall f a c,
  (count_occ N.eq_dec (exited (via_apprunner f a)) c <= count_occ N.eq_dec (entered (via_apprunner f a)) c)%nat /\
  (count_occ N.eq_dec (exited (fst (via_run_app f a))) c <= count_occ N.eq_dec (entered (fst (via_run_app f a))) c)%nat.
Proof. exact only_if_started. Qed.
Print Assumptions C20_cleanup_only_if_started.

(* ---- order: ALL trees, ALL failure choices ----
   the contexts whose cleanup code runs form a subsequence of: per application (root first, then
   sub-applications in registration order) its started contexts reversed *)
Theorem C20_cleanup_order : forall f a l1 x r1,
  startup_app f a = (l1, x, r1) ->
  entered (via_apprunner f a) = xt_started x /\
  subseq (exited (via_apprunner f a)) (xt_cleanup_order x) /\
  Permutation (xt_cleanup_order x) (xt_started x).
Proof. exact exit_order. Qed.
Print Assumptions C20_cleanup_order.

(* ---- both entry points produce the same events (run_app's setup() is inside its try/finally) ---- *)
Theorem C20_entry_points_agree : forall f a, fst (via_run_app f a) = via_apprunner f a.
Proof. exact entry_points_agree. Qed.
Print Assumptions C20_entry_points_agree.

(* ---- the full statement `forall f a, cleanup_iff_started (via_apprunner f a)` is REFUTED by the faithful
   model in two ways (a third one is repaired, see (c)); each witness is replayed on the implementation (corpus/C20/finding-*.json) ---- *)

(* (a) a later start-up step fails after a sub-application's context started: Application.cleanup()
       takes the not-frozen branch and runs only the root's own contexts *)
Theorem C20_cleanup_iff_started_refuted_startup_failure :
  exists f a, ~ cleanup_iff_started (via_apprunner f a).
Proof. exists w_startup_f, w_startup_app. exact refuted_startup. Qed.
Print Assumptions C20_cleanup_iff_started_refuted_startup_failure.

(* (b) a context teardown raises: Signal.send stops, later sub-applications are not cleaned *)
Theorem C20_cleanup_iff_started_refuted_cleanup_error :
  exists f a, (forall s, f s = true -> exists c, s = SExit c) /\ ~ cleanup_iff_started (via_apprunner f a).
Proof.
  exists w_cleanup_f, w_cleanup_app. split; [|exact refuted_cleanup].
  intros s; destruct s; vm_compute; try discriminate; intros _; eexists; reflexivity.
Qed.
Print Assumptions C20_cleanup_iff_started_refuted_cleanup_error.

(* (c) REPAIRED in /repo 9bf51ac (was: an on_shutdown receiver raises and BaseRunner.cleanup() never reaches
       _cleanup_server()).  Regression example: Server.shutdown and the context teardown still run, and the
       receiver's exception is the one that leaves cleanup().  Replay: corpus/C20/fixed-on_shutdown-error-skips-cleanup.json *)
Example C20_regression_on_shutdown_error_still_cleans :
  via_apprunner (fails [SShutdown 201]) (App [RCtx 1; RSd 201]) =
  [EEnter 1 true; ESite true; EPre; ESd 201 false; ESrv; EExit 1 true; ECleanupRaised (ErrStep (SShutdown 201))].
Proof. exact regression_shutdown. Qed.
Print Assumptions C20_regression_on_shutdown_error_still_cleans.

(* ---- what holds instead ---- *)

(* applications without sub-applications: FULL — every failure choice (contexts, all three kinds of receivers,
   site start), exact reverse order, through both entry points *)
Theorem C20_cleanup_iff_started_flat : forall f a,
  flat a = true ->
  exited (via_apprunner f a) = rev (entered (via_apprunner f a)) /\
  exited (fst (via_run_app f a)) = rev (entered (fst (via_run_app f a))) /\
  cleanup_iff_started (via_apprunner f a).
Proof. exact flat_iff. Qed.
Print Assumptions C20_cleanup_iff_started_flat.

(* arbitrary trees: start-up succeeded (excludes (a)) and no teardown step raises (excludes (b)); on_shutdown
   receivers and the site may fail.  Missing for the full statement: exactly the two refuted families above. *)
Theorem C20_cleanup_iff_started_tree_partial : forall f a l x,
  no_teardown_failure f -> startup_app f a = (l, x, None) ->
  exited (via_apprunner f a) = xt_cleanup_order x /\
  exited (fst (via_run_app f a)) = xt_cleanup_order x /\
  cleanup_iff_started (via_apprunner f a).
Proof. exact tree_iff. Qed.
Print Assumptions C20_cleanup_iff_started_tree_partial.

(* whatever fails during start-up, the ROOT application's started contexts are cleaned, in reverse order *)
Theorem C20_root_contexts_cleaned_when_startup_fails : forall f a l x e,
  startup_app f a = (l, x, Some e) -> exited (via_apprunner f a) = rev (xt_exits x).
Proof. exact root_cleaned_on_startup_failure. Qed.
Print Assumptions C20_root_contexts_cleaned_when_startup_fails.

(* order of the phases when start-up succeeded, whatever raises afterwards: close() on every connection (EPre)
   before the on_shutdown receivers, Server.shutdown (ESrv) after them — also when one of them raised — and
   before any cleanup context is torn down; the exception leaving cleanup() is the last one raised *)
Theorem C20_phase_order : forall f a l1 x,
  startup_app f a = (l1, x, None) ->
  exists l2 r2 l3 r3,
    shutdown_app f a = (l2, r2) /\ cleanup_app f a x = (l3, r3) /\
    via_apprunner f a = l1 ++ fst (site_phase f) ++ EPre :: l2 ++ ESrv :: l3 ++
                        raised_cleanup (match r3 with Some e => Some e | None => r2 end) /\
    exited l1 = [] /\ exited l2 = [] /\ exited (via_apprunner f a) = exited l3.
Proof. exact phase_order. Qed.
Print Assumptions C20_phase_order.

(* ---- non-vacuity ---- *)
Example C20_example_flat :
  let a := App [RCtx 1; RCtx 2; RSu 101; RCtx 3; RCl 301] in
  let f := fails [SEnter 3; SExit 1; SCleanup 301; SSite] in
  flat a = true /\
  via_apprunner f a = [EEnter 1 true; EEnter 2 true; EEnter 3 false; ESetupRaised (ErrStep (SEnter 3));
                       EExit 2 true; EExit 1 false; ECleanupRaised (ErrStep (SExit 1))].
Proof. vm_compute. repeat split; intros; reflexivity. Qed.
Print Assumptions C20_example_flat.

Example C20_example_tree :
  let a := App [RCtx 1; RSub (App [RCtx 2; RCtx 3; RSu 102; RCl 302]); RSu 101; RSd 201; RCl 301] in
  let f := fails [SSite; SShutdown 201] in
  no_teardown_failure f /\
  (exists l x, startup_app f a = (l, x, None) /\ xt_cleanup_order x = [1; 3; 2]) /\
  exited (via_apprunner f a) = [1; 3; 2] /\ entered (via_apprunner f a) = [1; 2; 3].
Proof. vm_compute. repeat split; intros; try reflexivity. eexists; eexists; split; reflexivity. Qed.
Print Assumptions C20_example_tree.

(* ======================= graceful shutdown (Model/Shutdown.v) =======================
   Times in ms relative to T0, the instant Server.pre_shutdown() runs; t_ms = shutdown_timeout,
   s_ms = how long the on_shutdown signal takes (Server.shutdown(timeout) starts at T0 + s_ms). *)
Open Scope Z_scope.

(* no request the peer sends after T0 is dispatched, whatever the connection was doing *)
Theorem C20_shutdown_no_new_request : forall c p delta, late_accepted c p delta = false.
Proof. exact no_new_request. Qed.
Print Assumptions C20_shutdown_no_new_request.

(* "idle keep-alive connections are closed at once" (closed_at = Some 0) is REFUTED: pre_shutdown() only
   cancels the idle waiter; the transport is closed by Server.shutdown() after the on_shutdown signal.
   Replay: corpus/C20/finding-idle-open-during-on_shutdown.json *)
Theorem C20_shutdown_idle_closed_at_once_refuted :
  exists c, 0 < t_ms c /\ 0 <= s_ms c /\ closed_at (conn_outcome c PIdle) <> Some 0.
Proof. exact idle_at_once_refuted. Qed.
Print Assumptions C20_shutdown_idle_closed_at_once_refuted.

(* what holds: an idle connection is closed when the on_shutdown signal has finished (at once iff s_ms = 0) *)
Theorem C20_shutdown_idle_closed_partial : forall c,
  conn_outcome c PIdle = {| closed_at := Some (s_ms c); handler := HNone |}.
Proof. exact idle_outcome. Qed.
Print Assumptions C20_shutdown_idle_closed_partial.

(* a request already being handled completes if its handler returns within the timeout (counted from the
   end of the on_shutdown signal); its connection is closed when the response has been written *)
Theorem C20_shutdown_in_flight_may_complete : forall c d,
  0 < t_ms c -> 0 <= s_ms c -> d <= s_ms c + t_ms c ->
  conn_outcome c (PHandling (Some d)) = {| closed_at := Some d; handler := HCompleted d |}.
Proof. exact may_complete. Qed.
Print Assumptions C20_shutdown_in_flight_may_complete.

(* ... but NOT a request whose body is still arriving: REFUTED, the bytes are dropped after close().
   Replay: corpus/C20/finding-inflight-body-dropped.json *)
Theorem C20_shutdown_in_flight_may_complete_refuted_upload :
  exists c arrive, 0 < t_ms c /\ 0 <= s_ms c /\ 0 < arrive <= s_ms c + t_ms c /\
  exists a, handler (conn_outcome c (PUpload (Some arrive))) = HCancelled a.
Proof. exact upload_refuted. Qed.
Print Assumptions C20_shutdown_in_flight_may_complete_refuted_upload.

(* every handler has completed or been cancelled, and every connection is closed, no later than twice the
   timeout after the on_shutdown signal (+ at most 2 s of ceil_timeout rounding when the timeout exceeds 5 s).
   _partial: needs 0 < shutdown_timeout; see the refutation below *)
Theorem C20_shutdown_cancelled_after_twice_timeout_partial : forall c p,
  0 < t_ms c -> 0 <= s_ms c ->
  bounded c (conn_outcome c p) /\
  bound c <= s_ms c + 2 * t_ms c + 2000 /\ (t_ms c <= 5000 -> bound c = s_ms c + 2 * t_ms c).
Proof. exact cancel_bound. Qed.
Print Assumptions C20_shutdown_cancelled_after_twice_timeout_partial.

(* shutdown_timeout <= 0 means NO deadline (ceil_timeout(0)): REFUTED for such timeouts.
   Replay: corpus/C20/finding-zero-timeout-never-cancels.json *)
Theorem C20_shutdown_cancelled_after_twice_timeout_refuted_nonpositive :
  exists c, t_ms c <= 0 /\ 0 <= s_ms c /\
  conn_outcome c (PHandling None) = {| closed_at := None; handler := HStuck |} /\
  server_shutdown_returns c [PHandling None] = None.
Proof. exact nonpositive_timeout_refuted. Qed.
Print Assumptions C20_shutdown_cancelled_after_twice_timeout_refuted_nonpositive.

(* whenever Server.shutdown returns (cleanup then runs the on_cleanup signal and returns), every connection
   has been closed, for any number of connections in any phases *)
Theorem C20_shutdown_all_closed_on_return : forall c ps r,
  server_shutdown_returns c ps = Some r ->
  s_ms c <= r /\ forall p, In p ps -> exists a, closed_at (conn_outcome c p) = Some a /\ a <= r.
Proof. exact all_closed_on_return. Qed.
Print Assumptions C20_shutdown_all_closed_on_return.

(* and with a positive timeout it does return, within the same bound *)
Theorem C20_shutdown_returns_partial : forall c ps,
  0 < t_ms c -> 0 <= s_ms c ->
  exists r, server_shutdown_returns c ps = Some r /\ r <= bound c /\
  forall p, In p ps -> exists a, closed_at (conn_outcome c p) = Some a /\ a <= r.
Proof. exact returns_bounded. Qed.
Print Assumptions C20_shutdown_returns_partial.

Example C20_example_shutdown :
  let c := {| t_ms := 7500; s_ms := 250; abs0 := 1000000 |} in
  0 < t_ms c /\ 0 <= s_ms c /\
  map (conn_outcome c) [PIdle; PHandling (Some 7625); PHandling (Some 9000); PHandling None; PUpload (Some 125)] =
    [ {| closed_at := Some 250; handler := HNone |};
      {| closed_at := Some 7625; handler := HCompleted 7625 |};
      {| closed_at := Some 9000; handler := HCompleted 9000 |};
      {| closed_at := Some 16000; handler := HCancelled 16000 |};
      {| closed_at := Some 8000; handler := HCancelled 8000 |} ] /\
  server_shutdown_returns c [PIdle; PHandling (Some 7625); PHandling None] = Some 16000 /\ bound c = 17250.
Proof. vm_compute. repeat split; try reflexivity; intro H; discriminate H. Qed.
Print Assumptions C20_example_shutdown.
