(* C20 — App lifecycle: cleanup runs exactly for what started; shutdown drains.
   Only statements; each closed by `exact` of a lemma proved in Proofs/ (or by computation on a witness).

   Model/Lifecycle.v: an application is the list of registration calls made on it (cleanup_ctx.append,
   on_startup/on_shutdown/on_cleanup.append, add_subapp); a failure oracle says which user step raises;
   `via_apprunner` / `via_run_app` give the event log of the instrumented callbacks.
   `entered l` = contexts whose startup code completed, `exited l` = contexts whose cleanup code ran.
   The model follows the code repaired by /repo 439e4f8, 9bf51ac, 14e69de, ee73039 (every finding this property had). *)
From AV Require Import Lib.Base Generated.LifecycleGen Model.Lifecycle Proofs.Lifecycle Model.Shutdown Proofs.Shutdown.
From Coq Require Import Permutation.
Open Scope N_scope.

(* ---- the mechanism (CleanupContext._on_startup/_on_cleanup), every context list and failure choice ----
   what is recorded is exactly what completed (a prefix, cut at the first failing context), and the
   teardown runs each recorded context once, in reverse order, whatever teardown raises *)
Theorem C20_context_mechanism : forall f cs l ex r,
  ctx_startup f cs [] = (l, ex, r) ->
  ex = entered l /\
  (r = None -> ex = cs) /\
  (forall e, r = Some e -> exists p c q, cs = p ++ c :: q /\ ex = p /\ e = ErrStep (SEnter c) /\ f (SEnter c) = true) /\
  (forall l' r', ctx_cleanup f ex = (l', r') -> exited l' = rev ex /\ entered l' = []).
Proof. exact context_mechanism. Qed.
Print Assumptions C20_context_mechanism.

(* ---- THE PROPERTY, FULL: for ALL application trees, ALL choices of failing steps (context startup/teardown,
   on_startup / on_shutdown / on_cleanup receivers at any level, the site), through BOTH entry points: the cleanup
   code of a context runs exactly as often as its startup code completed ---- *)
Theorem C20_cleanup_iff_started : forall f a,
  cleanup_iff_started (via_apprunner f a) /\ cleanup_iff_started (fst (via_run_app f a)).
Proof. exact iff_started. Qed.
Print Assumptions C20_cleanup_iff_started.

(* ... and in which order: exactly, per application (root first, then the sub-applications in registration
   order), its started contexts reversed *)
Theorem C20_cleanup_order : forall f a l1 x r1,
  startup_app f a = (l1, x, r1) ->
  entered (via_apprunner f a) = xt_started x /\
  exited (via_apprunner f a) = xt_cleanup_order x /\
  Permutation (xt_cleanup_order x) (xt_started x).
Proof. exact exact. Qed.
Print Assumptions C20_cleanup_order.

(* corollary kept as a separate obligation: never without a completed start-up, never twice *)
Theorem C20_cleanup_only_if_started : forall f a c,
  (count_occ N.eq_dec (exited (via_apprunner f a)) c <= count_occ N.eq_dec (entered (via_apprunner f a)) c)%nat /\
  (count_occ N.eq_dec (exited (fst (via_run_app f a))) c <= count_occ N.eq_dec (entered (fst (via_run_app f a))) c)%nat.
Proof. exact only_if_started. Qed.
Print Assumptions C20_cleanup_only_if_started.

(* applications without sub-applications: the global order is the exact reverse of start-up *)
Theorem C20_cleanup_reverse_order_flat : forall f a,
  flat a = true ->
  exited (via_apprunner f a) = rev (entered (via_apprunner f a)) /\
  exited (fst (via_run_app f a)) = rev (entered (fst (via_run_app f a))).
Proof. exact flat_iff. Qed.
Print Assumptions C20_cleanup_reverse_order_flat.

(* ---- both entry points produce the same events (run_app's setup() is inside its try/finally) ---- *)
Theorem C20_entry_points_agree : forall f a, fst (via_run_app f a) = via_apprunner f a.
Proof. exact entry_points_agree. Qed.
Print Assumptions C20_entry_points_agree.

(* order of the phases when start-up succeeded, whatever raises afterwards: close() on every connection (EPre)
   before the on_shutdown receivers, Server.shutdown (ESrv) after them — also when one of them raised — and
   before any cleanup context is torn down; the exception leaving cleanup() is the last one raised *)
Theorem C20_phase_order : forall f a l1 x,
  startup_app f a = (l1, x, None) ->
  exists l2 r2 l3 r3,
    shutdown_app f a = (l2, r2) /\ cleanup_app f a x = (l3, r3) /\
    via_apprunner f a = l1 ++ fst (site_phase f) ++ EPre :: l2 ++ ESrv :: l3 ++
                        raised_cleanup (match r3 with Some e => Some e | None => r2 end) /\
    exited l1 = [] /\ exited l2 = [] /\ exited (via_apprunner f a) = exited l3.
Proof. exact phase_order. Qed.
Print Assumptions C20_phase_order.

(* ---- regression examples: the three former refutations of the full statement, now repaired in /repo ---- *)
(* 14e69de: a later start-up step fails after a sub-application's context started *)
Example C20_regression_startup_failure_cleans_subapp :
  via_apprunner (fails [SStartup 101]) (App [RSub (App [RCtx 1]); RSu 101]) =
  [EEnter 1 true; ESu 101 false; ESetupRaised (ErrStep (SStartup 101)); EExit 1 true].
Proof. exact regression_startup. Qed.
Print Assumptions C20_regression_startup_failure_cleans_subapp.

(* ee73039: a context teardown raises; the sub-application registered later is still cleaned *)
Example C20_regression_cleanup_error_runs_later_receivers :
  via_apprunner (fails [SExit 1]) (App [RCtx 1; RSub (App [RCtx 2])]) =
  [EEnter 1 true; EEnter 2 true; ESite true; EPre; ESrv; EExit 1 false; EExit 2 true; ECleanupRaised (ErrStep (SExit 1))].
Proof. exact regression_cleanup. Qed.
Print Assumptions C20_regression_cleanup_error_runs_later_receivers.

(* 9bf51ac: an on_shutdown receiver raises; Server.shutdown and the teardown still run *)
Example C20_regression_on_shutdown_error_still_cleans :
  via_apprunner (fails [SShutdown 201]) (App [RCtx 1; RSd 201]) =
  [EEnter 1 true; ESite true; EPre; ESd 201 false; ESrv; EExit 1 true; ECleanupRaised (ErrStep (SShutdown 201))].
Proof. exact regression_shutdown. Qed.
Print Assumptions C20_regression_on_shutdown_error_still_cleans.

(* ---- non-vacuity ---- *)
Example C20_example_tree :
  let a := App [RCtx 1; RSub (App [RCtx 2; RCtx 3; RSu 102; RCl 302; RSub (App [RCtx 4])]); RSu 101; RSd 201; RCl 301] in
  let f := fails [SSite; SShutdown 201; SExit 3; SCleanup 302; SExit 1] in
  exited (via_apprunner f a) = [1; 3; 2; 4] /\ entered (via_apprunner f a) = [1; 2; 3; 4] /\
  last (via_apprunner f a) EPre = ECleanupRaised ErrMulti.
Proof. vm_compute. repeat split; reflexivity. Qed.
Print Assumptions C20_example_tree.

(* ======================= graceful shutdown (Model/Shutdown.v) =======================
   Times in ms relative to T0, the instant Server.pre_shutdown() runs; t_ms = shutdown_timeout,
   s_ms = how long the on_shutdown signal takes (Server.shutdown(timeout) starts at T0 + s_ms).
   The model follows the code repaired by /repo 009879e, cff98d2, 8d0202e. *)
Open Scope Z_scope.

(* no request the peer sends after T0 is dispatched, whatever the connection was doing *)
Theorem C20_shutdown_no_new_request : forall c p delta, late_accepted c p delta = false.
Proof. exact no_new_request. Qed.
Print Assumptions C20_shutdown_no_new_request.

(* idle keep-alive connections are closed at once (at T0), whatever the on_shutdown receivers do *)
Theorem C20_shutdown_idle_closed_at_once : forall c,
  conn_outcome c PIdle = {| closed_at := Some 0; handler := HNone |}.
Proof. exact idle_outcome. Qed.
Print Assumptions C20_shutdown_idle_closed_at_once.

(* a request already being handled completes if what it needs (its handler returning / the rest of its body
   arriving / reading its already received body) happens within the timeout, counted from the end of the
   on_shutdown signal; its connection is closed when the response has been written *)
Theorem C20_shutdown_in_flight_may_complete : forall c d,
  0 <= s_ms c -> d <= s_ms c + Z.max 0 (t_ms c) ->
  conn_outcome c (PHandling (Some d)) = {| closed_at := Some d; handler := HCompleted d |} /\
  conn_outcome c (PUpload (Some d)) = {| closed_at := Some d; handler := HCompleted d |} /\
  conn_outcome c (PReadLater d) = {| closed_at := Some d; handler := HCompleted d |}.
Proof. exact may_complete. Qed.
Print Assumptions C20_shutdown_in_flight_may_complete.

(* every handler has completed or been cancelled, and every connection is closed, no later than twice the
   timeout after the on_shutdown signal (+ at most 2 s of ceil_timeout rounding when the timeout exceeds 5 s);
   a timeout <= 0 means "do not wait" *)
Theorem C20_shutdown_cancelled_after_twice_timeout : forall c p,
  0 <= s_ms c ->
  bounded c (conn_outcome c p) /\
  bound c <= s_ms c + 2 * Z.max 0 (t_ms c) + 2000 /\ (t_ms c <= 5000 -> bound c = s_ms c + 2 * Z.max 0 (t_ms c)).
Proof. exact cancel_bound. Qed.
Print Assumptions C20_shutdown_cancelled_after_twice_timeout.

(* the second wait is the cancellation phase: a handler that touches its request body only then is failed
   at that moment (the payload was poisoned at the end of the first wait) — it does not get until 2t *)
Theorem C20_shutdown_body_read_in_second_wait_fails : forall c d d1 dl,
  0 <= s_ms c -> first_deadline c = Some d1 -> last_deadline c = Some dl -> d1 < d <= dl ->
  conn_outcome c (PReadLater d) = {| closed_at := Some d; handler := HCancelled d |}.
Proof. exact read_later_after_first_wait. Qed.
Print Assumptions C20_shutdown_body_read_in_second_wait_fails.

(* whenever Server.shutdown returns (cleanup then runs the on_cleanup signal and returns), every connection
   has been closed, for any number of connections in any phases *)
Theorem C20_shutdown_all_closed_on_return : forall c ps r,
  server_shutdown_returns c ps = Some r ->
  s_ms c <= r /\ forall p, In p ps -> exists a, closed_at (conn_outcome c p) = Some a /\ a <= r.
Proof. exact all_closed_on_return. Qed.
Print Assumptions C20_shutdown_all_closed_on_return.

(* and it always returns, within the same bound *)
Theorem C20_shutdown_returns : forall c ps,
  0 <= s_ms c ->
  exists r, server_shutdown_returns c ps = Some r /\ r <= bound c /\
  forall p, In p ps -> exists a, closed_at (conn_outcome c p) = Some a /\ a <= r.
Proof. exact returns_bounded. Qed.
Print Assumptions C20_shutdown_returns.

(* regression examples: the three former refutations (009879e idle, cff98d2 upload, 8d0202e timeout <= 0) *)
Example C20_regression_idle_closed_before_on_shutdown :
  conn_outcome {| t_ms := 10000; s_ms := 4000; abs0 := 1000000 |} PIdle = {| closed_at := Some 0; handler := HNone |}.
Proof. exact regression_idle. Qed.
Print Assumptions C20_regression_idle_closed_before_on_shutdown.

Example C20_regression_upload_completes :
  conn_outcome {| t_ms := 10000; s_ms := 0; abs0 := 1000000 |} (PUpload (Some 125)) = {| closed_at := Some 125; handler := HCompleted 125 |}.
Proof. exact regression_upload. Qed.
Print Assumptions C20_regression_upload_completes.

Example C20_regression_zero_timeout_cancels_at_once :
  conn_outcome {| t_ms := 0; s_ms := 0; abs0 := 1000000 |} (PHandling None) = {| closed_at := Some 0; handler := HCancelled 0 |} /\
  server_shutdown_returns {| t_ms := 0; s_ms := 0; abs0 := 1000000 |} [PHandling None] = Some 0.
Proof. exact regression_zero_timeout. Qed.
Print Assumptions C20_regression_zero_timeout_cancels_at_once.

Example C20_example_shutdown :
  let c := {| t_ms := 7500; s_ms := 250; abs0 := 1000000 |} in
  map (conn_outcome c) [PIdle; PHandling (Some 7625); PHandling (Some 9000); PHandling None; PUpload (Some 125);
                        PUpload None; PReadLater 9000] =
    [ {| closed_at := Some 0; handler := HNone |};
      {| closed_at := Some 7625; handler := HCompleted 7625 |};
      {| closed_at := Some 9000; handler := HCompleted 9000 |};
      {| closed_at := Some 16000; handler := HCancelled 16000 |};
      {| closed_at := Some 125; handler := HCompleted 125 |};
      {| closed_at := Some 8000; handler := HCancelled 8000 |};
      {| closed_at := Some 9000; handler := HCancelled 9000 |} ] /\
  server_shutdown_returns c [PIdle; PHandling (Some 7625); PHandling None] = Some 16000 /\ bound c = 17250.
Proof. vm_compute. repeat split; reflexivity. Qed.
Print Assumptions C20_example_shutdown.
