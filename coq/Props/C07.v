(* C07 — Connection pool: limits hold, nothing leaks, no waiter is forgotten.
   Only statements; each closed by `exact` of a lemma proved in Proofs/Pool*.v (or by vm_compute
   for witnesses).  The model (Model/Pool.v) is an LTS whose `step` accepts every interleaving of
   connect / wake-up / cancel / create outcome / release / close at await granularity; `run c init tr`
   is the state after the event list `tr`; all theorems quantify over ALL configurations and traces. *)
From AV Require Import Lib.Base Generated.PoolGen Model.Pool Proofs.PoolLimit.
Open Scope N_scope.

(* ---- limits --------------------------------------------------------------------------------- *)

(* Full statement (limit clause of the property): REFUTED by the faithful model — connect() hands
   out an idle pooled connection through its first _get before any capacity check.  Witness:
   limit=1; a connection to host 0 is released to the pool, a request to host 1 is being
   established, a request to host 0 then reuses the idle connection: 2 in use.  Replayed on the
   implementation: corpus/C07/limit_idle_reuse.json (known finding C07-reuse-over-limit). *)
Theorem C07_limit_refuted : exists c tr s,
  run c init tr = Some s /\ closed s = false /\ (0 < limit c)%Z /\
  (limit c < Z.of_nat (length (acquired s)))%Z.
Proof.
  exists {| limit := 1; lph := 0; force_close := false |}.
  exists [EStart 0 0; ECreateOk 0; ERelease 0 false []; EStart 1 1; EStart 2 0].
  eexists. vm_compute. repeat split; reflexivity.
Qed.
Print Assumptions C07_limit_refuted.

(* What holds instead, for every trace whose EStart steps never take an idle connection while the
   capacity is exhausted (`good_step`: the pool has no idle connection for the key, or the capacity
   formula is positive): connections in use or being established (placeholders included) never
   exceed `limit`, nor `limit_per_host` per endpoint.  Missing for the full statement: a capacity
   check in front of the first _get. *)
Theorem C07_limit_partial : forall c tr s,
  run c init tr = Some s -> all_steps (good_step c) c init tr ->
  ((0 < limit c)%Z -> (Z.of_nat (length (acquired s)) <= limit c)%Z) /\
  ((0 < lph c)%Z -> forall k, (Z.of_nat (count_host k (hostacq s)) <= lph c)%Z).
Proof. exact limit_partial. Qed.
Print Assumptions C07_limit_partial.

(* With force_close=True nothing is ever pooled, and the limit clause holds for ALL traces. *)
Theorem C07_limit_force_close : forall c tr s,
  force_close c = true -> run c init tr = Some s ->
  ((0 < limit c)%Z -> (Z.of_nat (length (acquired s)) <= limit c)%Z) /\
  ((0 < lph c)%Z -> forall k, (Z.of_nat (count_host k (hostacq s)) <= lph c)%Z).
Proof. exact limit_force_close. Qed.
Print Assumptions C07_limit_force_close.

(* non-vacuity: a run in which requests queue, are woken, lose a race and are cancelled satisfies
   the hypothesis of C07_limit_partial *)
Example C07_limit_partial_example :
  let c := {| limit := 1; lph := 1; force_close := false |} in
  let tr := [EStart 0 0; EStart 1 0; EStart 2 1; ECreateOk 0; ERelease 0 false [0; 1];
             EResume 1 []; ECancel 2; EResume 2 []; ERelease 1 false []] in
  (exists s, run c init tr = Some s /\ length (acquired s) = 0%nat /\ idle s = [(0, 0)]) /\
  all_steps (good_step c) c init tr.
Proof.
  split.
  - eexists. split; [vm_compute; reflexivity|]. vm_compute. split; reflexivity.
  - vm_compute. repeat split; left; reflexivity.
Qed.
Print Assumptions C07_limit_partial_example.
