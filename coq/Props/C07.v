(* C07 — Connection pool: limits hold, nothing leaks, no waiter is forgotten.
   Only statements; each closed by `exact` of a lemma proved in Proofs/Pool*.v (or by vm_compute
   for witnesses).  The model (Model/Pool.v) is an LTS whose `step` accepts every interleaving of
   connect / wake-up / cancel / create outcome / release / close at await granularity; `run c init tr`
   is the state after the event list `tr`; all theorems quantify over ALL configurations and traces. *)
From AV Require Import Lib.Base Generated.PoolGen Model.Pool Proofs.PoolLimit Proofs.PoolCoh Proofs.PoolOwner
  Proofs.PoolConn Proofs.PoolWake Proofs.PoolClose.
Open Scope N_scope.

(* ---- limits --------------------------------------------------------------------------------- *)

(* Full (limit clause of the property), for ALL configurations and ALL traces: connections in use or
   being established (placeholders included) never exceed `limit`, nor `limit_per_host` per endpoint.
   Holds since repair 755fa27: connect() takes an idle pooled connection on its fast path only while the
   capacity is positive (translated fact Generated.PoolGen.connect_fast_path); before that repair the
   statement was refuted (corpus/C07/limit_idle_reuse.json, kept as a regression case). *)
Theorem C07_limit : forall c tr s,
  run c init tr = Some s ->
  ((0 < limit c)%Z -> (Z.of_nat (length (acquired s)) <= limit c)%Z) /\
  ((0 < lph c)%Z -> forall k, (Z.of_nat (count_host k (hostacq s)) <= lph c)%Z).
Proof. exact limit_full. Qed.
Print Assumptions C07_limit.

(* non-vacuity, on the trace that used to exceed the limit: with limit=1, an idle connection to host 0
   and a request to host 1 being established, the next request to host 0 now queues *)
Example C07_limit_example :
  let c := {| limit := 1; lph := 0; force_close := false |} in
  let tr := [EStart 0 0; ECreateOk 0; ERelease 0 false []; EStart 1 1; EStart 2 0] in
  exists s, run c init tr = Some s /\ length (acquired s) = 1%nat /\ idle s = [(0, 0)] /\
            waiters s = [(2, 0, false)].
Proof. eexists. vm_compute. repeat split; reflexivity. Qed.
Print Assumptions C07_limit_example.

(* ---- nothing leaks -------------------------------------------------------------------------- *)

(* Full: in every reachable open state, once no request is being established or holds a connection
   (all finished, failed, cancelled, or merely queued), nothing remains counted as in use, in
   total or per host.  Covers every interleaving of failures, cancellations (also of a woken
   waiter, also during creation) and lost races. *)
Theorem C07_no_leak : forall c tr s,
  run c init tr = Some s -> closed s = false ->
  (forall t, not_in_use (get_pc (pcs s) t)) ->
  acquired s = [] /\ hostacq s = [].
Proof. exact no_leak. Qed.
Print Assumptions C07_no_leak.

(* Stronger form: every counted slot is owned by a request that is being established (placeholder)
   or holds exactly that connection. *)
Theorem C07_counted_has_owner : forall c tr s sl,
  run c init tr = Some s -> closed s = false -> In sl (acquired s) ->
  match sl with
  | SPh t => exists k, get_pc (pcs s) t = PCreating k
  | SConn cn => exists t k, get_pc (pcs s) t = PHolding k cn
  end.
Proof. exact counted_has_owner. Qed.
Print Assumptions C07_counted_has_owner.

Example C07_no_leak_example :
  let c := {| limit := 1; lph := 0; force_close := false |} in
  let tr := [EStart 0 0; EStart 1 0; EStart 2 0; ECreateOk 0; ERelease 0 true [0]; ECancel 1;
             EResume 1 [0]; EResume 2 []; ECreateFail 2 []] in
  exists s, run c init tr = Some s /\ closed s = false /\
            get_pc (pcs s) 0 = PDone /\ get_pc (pcs s) 1 = PCancelled /\ get_pc (pcs s) 2 = PFailed /\
            acquired s = [].
Proof. eexists. vm_compute. repeat split; reflexivity. Qed.
Print Assumptions C07_no_leak_example.

(* ---- no waiter is forgotten ----------------------------------------------------------------- *)

(* Full statement (not proved, no longer refuted in this model): in a reachable open state with no wake-up in
   flight, a queued live waiter finds no usable capacity.  With limit_per_host, _release_waiter still computes
   availability ignoring wake-ups in flight and may hand a wake-up to a host whose slot is already promised; since
   the partial repair fb3ee24 the waiter that then finds no slot hands the wake-up on before queueing again
   (translated fact requeue_hands_on, modelled in `requeue`), so the former witness
   (corpus/C07/per_host_wasted_wakeup.json, now a regression case) ends with every waiter served.  What remains on
   the implementation is a delay, outside this model (traces=[]): while the wrongly woken waiter sits in a
   suspending on_connection_queued_start/_end trace callback the other host's waiter sleeps although its slot is
   free (open known finding C07-per-host-wasted-wakeup, narrowed). *)

(* What holds, for ALL traces, when only the total limit is configured (limit_per_host = 0):
   a queued live waiter at a point with no wake-up in flight means the limit is really reached.
   Missing for the full statement: the per-host and the combined case (see above). *)
Theorem C07_no_lost_wakeup_partial : forall c tr s t k,
  lph c = 0%Z -> (0 < limit c)%Z ->
  run c init tr = Some s -> closed s = false -> woken s = [] ->
  In (t, k, false) (waiters s) ->
  (avail c s k <= 0)%Z /\ (limit c <= Z.of_nat (length (acquired s)))%Z.
Proof. exact no_lost_wakeup_total. Qed.
Print Assumptions C07_no_lost_wakeup_partial.

(* The counting invariant behind it (holds at every instant, not only at quiescence): while a live
   waiter is queued, slots in use plus wake-ups in flight cover the limit, i.e. every free slot has
   already been promised to a woken waiter that has not run yet. *)
Theorem C07_wakeups_cover_limit_partial : forall c tr s t k,
  lph c = 0%Z -> (0 < limit c)%Z ->
  run c init tr = Some s -> closed s = false -> In (t, k, false) (waiters s) ->
  (limit c <= Z.of_nat (length (acquired s)) + Z.of_nat (length (woken s)))%Z.
Proof. exact wakeups_cover_limit. Qed.
Print Assumptions C07_wakeups_cover_limit_partial.

(* non-vacuity: a state satisfying every hypothesis of the partial theorem, reached through a lost
   race: request 1 is woken, request 4 takes the freed slot first, request 1 re-queues at the front *)
Example C07_no_lost_wakeup_partial_example :
  let c := {| limit := 1; lph := 0; force_close := false |} in
  let tr := [EStart 0 0; ECreateOk 0; EStart 1 0; EStart 3 0; ERelease 0 true [0]; EStart 4 0;
             EResume 1 [0]] in
  exists s, run c init tr = Some s /\ closed s = false /\ woken s = [] /\
            waiters s = [(1, 0, false); (3, 0, false)] /\ length (acquired s) = 1%nat.
Proof. eexists. vm_compute. repeat split; reflexivity. Qed.
Print Assumptions C07_no_lost_wakeup_partial_example.

(* ---- close ------------------------------------------------------------------------------------ *)

(* Full: after the connector is closed, every connection it created is closed — pooled ones,
   ones in use at the time, and ones whose establishment completes after the close. *)
Theorem C07_close_closes_all : forall c tr s cn,
  run c init tr = Some s -> closed s = true -> cn < nconn s -> In cn (closedc s).
Proof. exact close_closes_all. Qed.
Print Assumptions C07_close_closes_all.

(* and before that no connection is ever lost track of: pooled, counted in use, or closed *)
Theorem C07_conn_conservation : forall c tr s cn,
  run c init tr = Some s -> closed s = false -> cn < nconn s ->
  In cn (map fst (idle s)) \/ In (SConn cn) (acquired s) \/ In cn (closedc s).
Proof. exact conn_conservation. Qed.
Print Assumptions C07_conn_conservation.

(* Full ("close fails every waiter", first half): on a closed connector nobody is ever queued, in ANY
   trace — the close step empties the queue and afterwards a request that finds no capacity is refused
   (ClientConnectionError) instead of being queued, also a waiter that had been woken just before the
   close and lost its slot.  (Repaired in /repo by 8661c48; before that repair this statement was refuted:
   corpus/C07/requeue_after_close.json is kept as a regression case.)  The two facts the proof uses —
   the closed test at the top of the wait loop and the clearing of the per-host book on close — are
   read from the source by the translator (Generated.PoolGen.wait_checks_closed /
   close_clears_per_host), so removing either breaks this theorem at compile time. *)
Theorem C07_close_no_waiter : forall c tr s,
  run c init tr = Some s -> closed s = true -> waiters s = [] /\ idle s = [].
Proof. exact close_no_waiter. Qed.
Print Assumptions C07_close_no_waiter.

(* Full (second half): the close step fails every request queued at that moment: its future is
   cancelled, queue and in-use set are emptied, and when the request runs again it ends cancelled. *)
Theorem C07_close_fails_waiters : forall c tr s s' t k,
  run c init tr = Some s -> closed s = false -> step c s EClose = Some s' ->
  In (t, k, false) (waiters s) ->
  closed s' = true /\ waiters s' = [] /\ acquired s' = [] /\
  get_pc (pcs s') t = PWaiting k FCancelled /\
  forall order, exists s'', step c s' (EResume t order) = Some s'' /\ get_pc (pcs s'') t = PCancelled.
Proof. exact close_fails_waiters. Qed.
Print Assumptions C07_close_fails_waiters.

(* Full (third half): a waiter that had already been woken when the connector closed also fails: when
   it runs it is either refused at once or starts a connection attempt, and on a closed connector both
   outcomes of an attempt end in failure (a connection that does arrive is closed on the spot). *)
Theorem C07_close_woken_waiter_fails : forall c tr s t k,
  run c init tr = Some s -> closed s = true -> get_pc (pcs s) t = PWaiting k FWoken ->
  forall order, exists s',
    step c s (EResume t order) = Some s' /\ closed s' = true /\
    (get_pc (pcs s') t = PFailed \/ get_pc (pcs s') t = PCreating k).
Proof. exact woken_fails_after_close. Qed.
Print Assumptions C07_close_woken_waiter_fails.

Theorem C07_close_attempt_fails : forall c s t k,
  closed s = true -> get_pc (pcs s) t = PCreating k ->
  (exists s', step c s (ECreateOk t) = Some s' /\ get_pc (pcs s') t = PFailed /\ In (nconn s) (closedc s')) /\
  (forall order, exists s', step c s (ECreateFail t order) = Some s' /\ get_pc (pcs s') t = PFailed).
Proof. exact creating_fails_after_close. Qed.
Print Assumptions C07_close_attempt_fails.

(* non-vacuity: two wake-ups in flight when the connector closes (limit=1); the first woken waiter
   starts an attempt, the second finds no capacity and is refused instead of queueing again *)
Example C07_close_woken_example :
  let c := {| limit := 1; lph := 0; force_close := false |} in
  let tr := [EStart 0 0; EStart 1 0; EStart 2 0; ECreateFail 0 [0]; EStart 3 0; ECreateFail 3 [0]; EClose;
             EResume 1 []; EResume 2 []] in
  exists s, run c init tr = Some s /\ closed s = true /\ waiters s = [] /\
            get_pc (pcs s) 1 = PCreating 0 /\ get_pc (pcs s) 2 = PFailed.
Proof. eexists. vm_compute. repeat split; reflexivity. Qed.
Print Assumptions C07_close_woken_example.

Example C07_close_example :
  let c := {| limit := 1; lph := 0; force_close := false |} in
  let tr := [EStart 0 0; ECreateOk 0; ERelease 0 false []; EStart 1 1; EStart 2 0; EStart 3 1; EClose;
             ECreateOk 1; EResume 3 []] in
  exists s, run c init tr = Some s /\ closed s = true /\ nconn s = 2 /\ closedc s = [1; 0] /\
            get_pc (pcs s) 3 = PCancelled /\ get_pc (pcs s) 1 = PFailed.
Proof. eexists. vm_compute. repeat split; reflexivity. Qed.
Print Assumptions C07_close_example.
