(* C16 — Cookies are sent only where RFC 6265 scoping allows.
   Only statements; each closed by `exact` of a lemma proved in Proofs/Cookies*.v.

   Model/Cookies.v: `run` is the jar (cookies keyed (domain, path.rstrip("/"), name); host-only table keyed
   (domain, name); deadline table; expiry heap; update_cookies / filter_cookies / clear / clear_domain /
   save+load / _do_expiration) driven by a history of operations; `rfc_run` is an RFC 6265 section 5.3/5.4
   reference store driven by the same history.  `attached_allowed unsafe t0 ops` says: for every
   filter_cookies query of the history, every (name, value) the jar attaches is attached by the reference store. *)
From AV Require Import Lib.Base Generated.CookiesGen Model.Cookies
  Proofs.CookiesStrings Proofs.CookiesJar Proofs.CookiesSound Proofs.CookiesSpec Proofs.CookiesWitness.
Open Scope N_scope.

(* ---- Safety core, full statement: for ALL histories (any length; any interleaving of Set-Cookie batches, clock
   advances, clear, clear_domain, save+load and queries; safe or unsafe jar; arbitrary attribute records: any
   Domain, Path, Secure, valid / invalid / absent Max-Age and Expires) every cookie the jar attaches is attached
   by the RFC reference store.  The only hypothesis (`op_okb`) is that response hosts are well-formed: non-empty,
   not starting with "." and without an empty label inside (a trailing dot is allowed).  It is genuinely needed:
   for a host ".example.com" the jar strips the dot from the host-only domain as well, and save+load moves a
   cookie of domain ".x" to "x"; such hosts do not resolve and are outside the property's host lattice.
   (Earlier rounds had this only as `_partial`: the three shapes it excluded -- Expires at the epoch, a cookie
   path with several trailing slashes, an invalid Max-Age next to a valid Expires -- were defects, now repaired
   in /repo; their witnesses are corpus regressions and `C16_example_repaired` below.) *)
Theorem C16_no_leak : forall unsafe t0 ops,
  forallb op_okb ops = true -> attached_allowed unsafe t0 ops.
Proof. exact no_leak_b. Qed.
Print Assumptions C16_no_leak.

(* ... and "attached by the reference store" means, in RFC 6265 terms: some stored cookie with that name and
   value domain-matches the request host (a host-only cookie: equals it), path-matches the request path, is not
   Secure unless the scheme is, and has not expired. *)
Theorem C16_reference_allows : forall s u now n v,
  In (n, v) (rfc_filter s u now) <->
  exists r, In r s /\ r_name r = n /\ r_value r = v /\
    (if r_host_only r then r_domain r = u_host u else domain_match (r_domain r) (u_host u)) /\
    path_match (r_path r) (u_path u) /\
    (r_secure r = true -> u_secure u = true) /\
    (forall e, r_expiry r = Some e -> (now < e)%Z).
Proof. exact rfc_filter_spec. Qed.
Print Assumptions C16_reference_allows.

(* the reference store admits a cookie only under a domain that domain-matches the host that sent it *)
Theorem C16_reference_set_own_domain : forall u now s m r,
  In r (rfc_set1 u now s m) ->
  In r s \/ (domain_match (r_domain r) (u_host u) /\ r_name r = m_name m /\ r_value r = m_value m).
Proof. exact rfc_set1_own_domain. Qed.
Print Assumptions C16_reference_set_own_domain.

(* ---- A response can set or overwrite cookies only within its own host's domain (the jar itself, any state,
   no side conditions beyond a non-empty host): after update_cookies every stored cookie either was there
   before, unchanged, or lies under a domain the response host domain-matches and carries a name/value of this
   response; and only (response host, name) pairs become host-only. *)
Theorem C16_set_only_own_domain : forall j u ms now, u_host u <> [] ->
  (forall k c, In (k, c) (j_cookies (update j u ms now)) ->
     In (k, c) (j_cookies j) \/
     (domain_match (k_dom k) (u_host u) /\ exists m, In m ms /\ k_name k = m_name m /\ c_value c = m_value m)) /\
  (forall x, In x (j_host_only (update j u ms now)) ->
     In x (j_host_only j) \/ (fst x = u_host u /\ exists m, In m ms /\ snd x = m_name m)).
Proof. exact set_only_own_domain. Qed.
Print Assumptions C16_set_only_own_domain.

(* ... and one site cannot replace or remove another site's cookie: a stored cookie whose domain the response
   host does not domain-match is still there after update_cookies, same value, same deadline (unless its own
   deadline has passed, in which case _do_expiration may drop it). *)
Theorem C16_foreign_cookies_untouched : forall j u ms now k c, u_host u <> [] ->
  In (k, c) (j_cookies j) -> ~ domain_match (k_dom k) (u_host u) ->
  (forall w, lookup k (j_expirations j) = Some w -> (now < w)%Z) ->
  In (k, c) (j_cookies (update j u ms now)) /\
  lookup k (j_expirations (update j u ms now)) = lookup k (j_expirations j).
Proof. exact foreign_cookies_untouched. Qed.
Print Assumptions C16_foreign_cookies_untouched.

(* ---- The mechanisms the property names, as lemmas in their own right. *)

(* _is_domain_match is exactly RFC 6265 5.1.3 *)
Theorem C16_domain_match_exact : forall d h,
  is_domain_match d h = true <->
  (d = h \/ (d <> [] /\ (exists p, h = p ++ DOT :: d) /\ is_ip h = false)).
Proof. exact is_domain_match_spec. Qed.
Print Assumptions C16_domain_match_exact.

(* the suffix enumeration of filter_cookies reaches exactly the host and its dot-separated parents *)
Theorem C16_suffix_enumeration : forall h d,
  In d (dot_suffixes h) <-> d = h \/ exists p, h = p ++ DOT :: d.
Proof. exact dot_suffixes_In. Qed.
Print Assumptions C16_suffix_enumeration.

(* ... and the prefix enumeration exactly the path and its "/"-separated ancestors *)
Theorem C16_prefix_enumeration : forall r p,
  In p (path_prefixes r) <-> p = r \/ exists t, r = p ++ SLASH :: t.
Proof. exact path_prefixes_In. Qed.
Print Assumptions C16_prefix_enumeration.

(* expiry heap: if every recorded deadline has a heap entry, then after _do_expiration no remaining cookie has a
   deadline <= now, and the heap still covers the deadlines *)
Theorem C16_expiry_sound : forall j now, heap_covers j ->
  heap_covers (do_expiration j now) /\
  forall k c w, In (k, c) (j_cookies (do_expiration j now)) ->
    lookup k (j_expirations (do_expiration j now)) = Some w -> (now < w)%Z.
Proof. exact (fun j now H => conj (do_expiration_covers j now H) (do_expiration_live j now H)). Qed.
Print Assumptions C16_expiry_sound.

(* deletion (expiry, clear_domain) keeps the side tables in step: whatever cookie remains keeps its host-only
   flag and its deadline (this is the invariant the repaired host-only defect broke) *)
Theorem C16_deletion_keeps_side_tables : forall j ks k c,
  In (k, c) (j_cookies (delete_cookies j ks)) ->
  In (k, c) (j_cookies j) /\
  (flagged j k = true -> flagged (delete_cookies j ks) k = true) /\
  (forall w, lookup k (j_expirations j) = Some w -> lookup k (j_expirations (delete_cookies j ks)) = Some w).
Proof. exact (fun j ks => delete_cookies_sub ks j). Qed.
Print Assumptions C16_deletion_keeps_side_tables.

(* persistence: whatever cookie is present after save+load was present before with the same value, path and
   Secure flag, is still host-only if it was, and still has its absolute deadline *)
Theorem C16_save_load_preserves : forall j now k c, Inv j ->
  In (k, c) (j_cookies (save_load j now)) ->
  In (k, c) (j_cookies j) /\
  (flagged j k = true -> flagged (save_load j now) k = true) /\
  (forall w, lookup k (j_expirations j) = Some w -> lookup k (j_expirations (save_load j now)) = Some w).
Proof. exact (fun j now k c HI => proj1 (proj2 (save_load_Q j now HI)) k c). Qed.
Print Assumptions C16_save_load_preserves.

(* ---- Equality with the reference store ("the cookies attached are those an RFC store would attach") fails in
   the other direction, benignly: the jar returns one cookie per name.  Two cookies "a" on / and /foo both match
   /foo; the reference attaches both, the jar only the longer path.  (Not a leak; recorded here only.) *)
Theorem C16_refines_refuted_shadowing :
  forallb op_okb w_shadowing = true /\
  snd (run (empty_jar false, T0) w_shadowing) = [ [ (s_a, s_v2) ] ] /\
  snd (rfc_run false ([], T0) w_shadowing) = [ [ (s_a, s_v2); (s_a, s_v1) ] ].
Proof. exact shadowing_incomplete. Qed.
Print Assumptions C16_refines_refuted_shadowing.

(* ---- Non-vacuity: a history inside the proved fragment (host-only + Domain= + Secure + Max-Age + save/load)
   with non-empty answers: sub-domain gets only the Domain= cookie; the host gets both; http drops the Secure one;
   the look-alike host gets nothing; after the deadline the Max-Age cookie is gone. *)
Example C16_example_history :
  forallb op_okb w_example = true /\
  snd (run (empty_jar false, T0) w_example) =
    [ [ ([98], [118; 50]) ]; [ ([97], [118; 49]); ([98], [118; 50]) ]; [ ([97], [118; 49]) ]; []; [ ([98], [118; 50]) ] ].
Proof. vm_compute. auto. Qed.
Print Assumptions C16_example_history.

(* the former refutation witnesses: "a=v2; Expires=<epoch>" deletes the cookie; "Path=/foo//" is not sent to
   /foo/xy; "Max-Age=abc; Expires=<past>" is expired *)
Example C16_example_repaired :
  snd (run (empty_jar false, T0) w_epoch_zero) = [ [] ] /\
  snd (run (empty_jar false, T0) w_trailing_slashes) = [ [] ] /\
  snd (run (empty_jar false, T0) w_invalid_max_age) = [ [] ].
Proof. exact repaired_witnesses. Qed.
Print Assumptions C16_example_repaired.

Example C16_example_domain_match :
  is_domain_match [101; 46; 99] [115; 46; 101; 46; 99] = true /\      (* "e.c" vs "s.e.c" *)
  is_domain_match [101; 46; 99] [115; 101; 46; 99] = false /\          (* "e.c" vs "se.c": look-alike *)
  is_domain_match [51; 46; 52] [49; 46; 50; 46; 51; 46; 52] = false.   (* "3.4" vs "1.2.3.4": IP *)
Proof. vm_compute. auto. Qed.
Print Assumptions C16_example_domain_match.
