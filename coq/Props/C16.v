(* C16 — Cookies are sent only where RFC 6265 scoping allows.  Statements only. *)
From AV Require Import Lib.Base Generated.CookiesGen Model.Cookies.
Open Scope N_scope.

Example C16_example_placeholder : is_domain_match [99;111;109] [97;46;99;111;109] = true.
Proof. vm_compute. reflexivity. Qed.
Print Assumptions C16_example_placeholder.
