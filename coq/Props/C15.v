(* C15 — Static file serving stays inside its root and serves exact bytes.
   Only statements; each closed by `exact` of a lemma proved in Proofs/ (or vm_compute for examples). *)
From AV Require Import Lib.Base Generated.StaticGen Model.Static Model.StaticSpec
  Proofs.StaticRange Proofs.StaticResponse Proofs.StaticPaths Proofs.StaticConfine.
Open Scope Z_scope.

(* ------------------------------------------------------------------ range arithmetic *)

(* For EVERY file size and EVERY well-formed single range "bytes=<d1>-<d2>" (digit strings of any
   length up to CPython's int() limit) the decision of http_range + _prepare_open_file equals the
   RFC 9110 reading: 206 with exactly the requested slice and `bytes first-last/size`, or 416 with
   `bytes */size` when the range is unsatisfiable / invalid. *)
Theorem C15_range_exact : forall sz d1 d2,
  0 <= sz -> all_digits d1 -> all_digits d2 ->
  (lenN d1 <= INT_MAX_STR_DIGITS)%N -> (lenN d2 <= INT_MAX_STR_DIGITS)%N ->
  range_decision sz true (Some (range_header d1 d2)) =
  match spec_of_groups d1 d2 with
  | None => D416 (cr_unsat sz)
  | Some r =>
      match requested_slice sz r with
      | Some (st, n) => D206 st n (cr_sat st n sz)
      | None => D416 (cr_unsat sz)
      end
  end.
Proof. exact decision_exact. Qed.
Print Assumptions C15_range_exact.

(* Safety for ANY header text at all (malformed, huge, trailing LF, ...) and any size: a 206 always
   names a non-empty slice inside the file and its Content-Range is the one for that slice. *)
Theorem C15_range_206_inside : forall sz gate h st n cr,
  0 <= sz -> range_decision sz gate h = D206 st n cr ->
  0 <= st /\ 0 < n /\ st + n <= sz /\ cr = cr_sat st n sz.
Proof. exact decision_206_bounds. Qed.
Print Assumptions C15_range_206_inside.

Theorem C15_range_416_star : forall sz gate h cr,
  range_decision sz gate h = D416 cr -> cr = cr_unsat sz /\ gate = true /\ h <> None.
Proof. exact decision_416. Qed.
Print Assumptions C15_range_416_star.

Theorem C15_range_200_whole : forall sz gate h n,
  range_decision sz gate h = D200 n -> n = sz /\ (gate = false \/ h = None).
Proof. exact decision_200. Qed.
Print Assumptions C15_range_200_whole.

(* the header grammar: accepted iff "bytes=" digits "-" digits (optionally one trailing LF, the `$` quirk) *)
Theorem C15_range_grammar : forall h d1 d2,
  match_range h = Some (d1, d2) ->
  all_digits d1 /\ all_digits d2 /\ (h = range_header d1 d2 \/ h = range_header d1 d2 ++ [10%N]).
Proof. exact match_range_inv. Qed.
Print Assumptions C15_range_grammar.

Theorem C15_range_malformed_416 : forall sz h,
  match_range h = None -> range_decision sz true (Some h) = D416 (cr_unsat sz).
Proof. exact decision_malformed. Qed.
Print Assumptions C15_range_malformed_416.

(* regression of the repaired defect: a zero suffix length ("bytes=-0", "bytes=-000") is unsatisfiable *)
Theorem C15_suffix_zero_unsatisfiable : forall sz d,
  all_digits d -> d <> [] -> dec_value 0 d = 0 -> (lenN d <= INT_MAX_STR_DIGITS)%N ->
  range_decision sz true (Some (range_header [] d)) = D416 (cr_unsat sz).
Proof. exact suffix_zero_unsat. Qed.
Print Assumptions C15_suffix_zero_unsatisfiable.

(* the numbers printed into Content-Range read back as themselves (so `bytes a-b/size` is unambiguous) *)
Theorem C15_decimal_roundtrip : forall z, 0 <= z -> all_digits (dec_of_Z z) /\ dec_value 0 (dec_of_Z z) = z.
Proof. exact dec_of_Z_roundtrip. Qed.
Print Assumptions C15_decimal_roundtrip.

(* ------------------------------------------------------------------ exact bytes *)

(* the chunked copy loop writes exactly bytes [offset, offset+count) for every chunk size > 0,
   every content (also shorter than offset+count) — in non-empty chunks no larger than chunk_size *)
Theorem C15_copy_loop_exact : forall cs content offset count,
  0 < cs -> 0 <= offset -> 0 < count ->
  exists l, sendfile_fallback cs content offset count = Some l /\
            concat l = slice content offset count /\
            Forall (fun c => c <> [] /\ Z.of_nat (length c) <= cs) l.
Proof. exact sendfile_fallback_exact. Qed.
Print Assumptions C15_copy_loop_exact.

(* For ANY content, Range text, If-Range and conditional headers, chunk size > 0, GET or HEAD: the
   response is one of exactly five consistent shapes (status, Content-Length, Content-Range, body). *)
Theorem C15_response_consistent : forall is_head cs content mtime etagv ifm unm ifn ms ifr rng,
  0 < cs ->
  let r := file_response is_head cs content mtime etagv ifm unm ifn ms ifr rng in
  let sz := Z.of_N (lenN content) in
  (r_status r = 200%N /\ r_length r = Some sz /\ r_range r = None /\
     r_body r = Some (if is_head then [] else content))
  \/ (exists st n, r_status r = 206%N /\ 0 <= st /\ 0 < n /\ st + n <= sz /\ r_length r = Some n /\
        r_range r = Some (cr_sat st n sz) /\ r_body r = Some (if is_head then [] else slice content st n) /\
        rng <> None)
  \/ (r_status r = 416%N /\ r_length r = None /\ r_range r = Some (cr_unsat sz) /\ r_body r = Some [] /\ rng <> None)
  \/ (r_status r = 304%N /\ r_length r = None /\ r_range r = None /\ r_body r = Some [])
  \/ (r_status r = 412%N /\ r_length r = Some 0 /\ r_range r = None /\ r_body r = Some []).
Proof. exact file_response_consistent. Qed.
Print Assumptions C15_response_consistent.

(* ... and when the preconditions pass and the If-Range gate is open, a well-formed range gets exactly
   the RFC slice of the content *)
Theorem C15_response_range_exact : forall is_head cs content mtime etagv ifm unm ifn ms ifr d1 d2,
  0 < cs -> all_digits d1 -> all_digits d2 ->
  (lenN d1 <= INT_MAX_STR_DIGITS)%N -> (lenN d2 <= INT_MAX_STR_DIGITS)%N ->
  preconditions etagv mtime ifm unm ifn ms = PC_send ->
  match ifr with Some t => ifrange_test mtime t | None => true end = true ->
  let sz := Z.of_N (lenN content) in
  let r := file_response is_head cs content mtime etagv ifm unm ifn ms ifr (Some (range_header d1 d2)) in
  match spec_of_groups d1 d2 with
  | Some rs =>
      match requested_slice sz rs with
      | Some (st, n) => r_status r = 206%N /\ r_length r = Some n /\ r_range r = Some (cr_sat st n sz) /\
                        r_body r = Some (if is_head then [] else slice content st n)
      | None => r_status r = 416%N /\ r_range r = Some (cr_unsat sz) /\ r_body r = Some []
      end
  | None => r_status r = 416%N /\ r_range r = Some (cr_unsat sz) /\ r_body r = Some []
  end.
Proof. exact file_response_range_exact. Qed.
Print Assumptions C15_response_range_exact.

(* ------------------------------------------------------------------ confinement *)

(* FULL STATEMENT, proved for the repaired code (fixes 706b3e0 + 6ac5763).  Sandbox mode (symlink following
   NOT enabled): for ANY tree with symlinks (loops, dangling and self-referential links included), ANY filename
   text (dot segments, backslashes, repeated slashes, absolute forms, NULs, whatever the URL layer decodes to)
   and ANY Accept-Encoding, what is served -- the file itself or its pre-compressed .br/.gz sibling -- is a
   regular file stored physically below the configured root: p is below the root, no symbolic link lies on p
   (so, by C15_physical_open, opening p reads the node stored AT p), and that node is the file served.
   Hypotheses: f is a tree (entries sit in directories) and the configured root is a directory at its
   physical location -- what StaticResource.__init__ establishes with resolve(strict=True) + is_dir(). *)
Theorem C15_confined : forall f root show accept fn p enc c,
  wf_fs f -> Phys f root -> kstat f root = KOk root NDir ->
  handle f root false show accept fn = SFile p enc c ->
  path_prefix root p = true /\ Phys f p /\ lookup f p = Some (NFile c).
Proof. exact handle_confined. Qed.
Print Assumptions C15_confined.

(* the same through the route's own prefix matching, for ANY request path *)
Theorem C15_confined_route : forall f prefix root show accept path_safe p enc c,
  wf_fs f -> Phys f root -> kstat f root = KOk root NDir ->
  serve_path f prefix root false show accept path_safe = SFile p enc c ->
  path_prefix root p = true /\ Phys f p /\ lookup f p = Some (NFile c).
Proof. exact serve_path_confined. Qed.
Print Assumptions C15_confined_route.

(* sandbox mode: a listing is that of a physical directory below the root, with that directory's own entries *)
Theorem C15_listing_confined : forall f prefix root show accept path_safe d names,
  wf_fs f -> Phys f root ->
  serve_path f prefix root false show accept path_safe = SListing d names ->
  path_prefix root d = true /\ Phys f d /\ node_at f d = Some NDir /\ names = children f d.
Proof. exact serve_path_listing_physical. Qed.
Print Assumptions C15_listing_confined.

(* the loop of fix 6ac5763 is what makes the difference: it establishes Phys for any probe/parts *)
Theorem C15_component_check_physical : forall f parts probe,
  wf_fs f -> Phys f probe -> forallb normal_seg parts = true ->
  no_link_below f probe parts = true -> Phys f (probe ++ parts).
Proof. exact (fun f parts probe Hwf => no_link_phys f Hwf parts probe). Qed.
Print Assumptions C15_component_check_physical.

(* the two escapes that were found by this property and repaired are regression theorems now:
   (1) "a/../l" with a<->b a symlink loop and l a link leaving the root (706b3e0): resolve() still returns the
       link /r/l, the route answers 404 with and without show_index *)
Theorem C15_loop_escape_repaired :
  wf_fsb loop_fs = true /\
  kstat loop_fs [[114%N]] = KOk [[114%N]] NDir /\
  resolve loop_fs [[114%N]; [97%N]; [46%N; 46%N]; [108%N]] = RP_ok [[114%N]; [108%N]] /\
  is_link (lookup loop_fs [[114%N]; [108%N]]) = true /\
  handle loop_fs [[114%N]] false false [] loop_fn = S404 /\
  handle loop_fs [[114%N]] false true [] loop_fn = S404.
Proof. exact loop_escape_repaired. Qed.
Print Assumptions C15_loop_escape_repaired.

(* (2) "d/n" with d a link to an outside directory and n a link that leads realpath back to itself after a
       missing component (6ac5763): /r/d/n is a fixed point of resolve() and still has the link d on it, the
       sibling /r/d/n.gz lives outside; the route answers 404 with and without Accept-Encoding: gzip *)
Theorem C15_sibling_escape_repaired :
  wf_fsb sib_fs = true /\
  kstat sib_fs [[114%N]] = KOk [[114%N]] NDir /\
  resolve sib_fs [[114%N]; [100%N]; [110%N]] = RP_ok [[114%N]; [100%N]; [110%N]] /\
  is_link (lookup sib_fs [[114%N]; [100%N]]) = true /\
  klstat sib_fs [[114%N]; [100%N]; [110%N; 46%N; 103%N; 122%N]] = KOk [[111%N]; [110%N; 46%N; 103%N; 122%N]] (NFile [83%N]) /\
  handle sib_fs [[114%N]] false false gzip_str sib_fn = S404 /\
  handle sib_fs [[114%N]] false false [] sib_fn = S404.
Proof. exact sibling_escape_repaired. Qed.
Print Assumptions C15_sibling_escape_repaired.

(* without any assumption on the shape of the tree, under the hypothesis that realpath met no loop *)
Theorem C15_confined_noloop_partial : forall f root show accept fn p enc c,
  kstat f root = KOk root NDir ->
  no_loop_met f (root ++ snd (parse_posix fn)) ->
  handle f root false show accept fn = SFile p enc c ->
  path_prefix root p = true /\ Phys f p /\ lookup f p = Some (NFile c).
Proof. exact handle_confined_partial. Qed.
Print Assumptions C15_confined_noloop_partial.

(* holds unconditionally: the path handed to the file response is LEXICALLY below the root *)
Theorem C15_lexically_confined : forall f root show accept fn p enc c,
  kstat f root = KOk root NDir ->
  handle f root false show accept fn = SFile p enc c ->
  path_prefix root p = true.
Proof. exact handle_lexically_confined. Qed.
Print Assumptions C15_lexically_confined.

(* os.path.realpath: whenever it completes (for ANY file system, ANY input path, any fuel) the result is a
   physical path: no symbolic link anywhere on it ... *)
Theorem C15_realpath_physical : forall f fuel p q, joinreal fuel f [] [] (map Seg p) = RP_ok q -> Phys f q.
Proof. exact realpath_phys. Qed.
Print Assumptions C15_realpath_physical.

Theorem C15_resolve_physical_partial : forall f p q, no_loop_met f p -> resolve f p = RP_ok q -> Phys f q.
Proof. exact resolve_phys. Qed.
Print Assumptions C15_resolve_physical_partial.

(* ... but Path.resolve() as a whole does not have that property (a fact about CPython, which is why the
   handler must check the components itself): *)
Theorem C15_resolve_physical_refuted : exists f p q, resolve f p = RP_ok q /\ is_link (lookup f q) = true.
Proof.
  exists loop_fs, [[114%N]; [97%N]; [46%N; 46%N]; [108%N]], [[114%N]; [108%N]].
  destruct loop_escape_repaired as (_ & _ & A & B & _). auto.
Qed.
Print Assumptions C15_resolve_physical_refuted.

(* every segment of a path Path.resolve() returns is an ordinary name (not "", ".", "..", no NUL) *)
Theorem C15_resolve_normal : forall f p q, resolve f p = RP_ok q -> forallb normal_seg q = true.
Proof. exact resolve_normal. Qed.
Print Assumptions C15_resolve_normal.

(* the kernel's stat/lstat/open of a physical path ends at that very location: what is read is the node
   stored AT p, never something a link redirects to. *)
Theorem C15_physical_open : forall f w fuel links follow_last cur q n,
  phys_from f cur w -> kwalk fuel links f follow_last cur w = KOk q n -> q = cur ++ w /\ node_at f q = Some n.
Proof. exact kwalk_phys. Qed.
Print Assumptions C15_physical_open.

(* symlink following enabled: the request text itself still cannot walk out of the root (only links can) *)
Theorem C15_follow_lexically_confined : forall f root show accept fn p enc c,
  handle f root true show accept fn = SFile p enc c ->
  exists segs n, parse_posix fn = (false, segs) /\
    n = snd (parse_posix (py_normpath (path_str (root ++ segs)))) /\
    path_prefix root n = true /\ exists p0, resolve f n = RP_ok p0.
Proof. exact handle_follow_lexical. Qed.
Print Assumptions C15_follow_lexically_confined.

(* a directory listing only if show_index is set (any mode, any tree, any request path), and only for a
   path lexically below the root *)
Theorem C15_listing_only_if_enabled : forall f prefix root follow show accept path_safe d names,
  serve_path f prefix root follow show accept path_safe = SListing d names ->
  show = true /\ path_prefix root d = true.
Proof. exact serve_path_listing. Qed.
Print Assumptions C15_listing_only_if_enabled.

Theorem C15_absolute_filename_refused : forall f root follow show accept fn,
  is_abs fn = true -> handle f root follow show accept fn = S404.
Proof. exact handle_absolute. Qed.
Print Assumptions C15_absolute_filename_refused.

(* ------------------------------------------------------------------ non-vacuity *)
Open Scope N_scope.

(* "bytes=2-5" on a 10 byte file: 206, bytes 2-5/10, body 2345 *)
Example C15_example_range :
  let r := file_response false 3%Z [48;49;50;51;52;53;54;55;56;57] 100%Z [97] None None None None None
             (Some (range_header [50] [53])) in
  r_status r = 206 /\ r_length r = Some 4%Z /\
  r_range r = Some [98;121;116;101;115;32;50;45;53;47;49;48] /\ r_body r = Some [50;51;52;53].
Proof. vm_compute. repeat split; reflexivity. Qed.
Print Assumptions C15_example_range.

(* "bytes=-0" is 416 with bytes */10 (the repaired behaviour) *)
Example C15_example_suffix_zero :
  range_decision 10%Z true (Some (range_header [] [48])) = D416 [98;121;116;101;115;32;42;47;49;48].
Proof. vm_compute. reflexivity. Qed.
Print Assumptions C15_example_suffix_zero.

(* a tree  /r (root, dir)  /r/f (file "A")  /r/l -> ../o   /o (file "B"): f is served, l is refused in
   sandbox mode and served from outside when following is enabled; the hypotheses of C15_confined hold *)
Example C15_example_tree :
  kstat ex_fs [[114]] = KOk [[114]] NDir /\
  joinreal (rfuel ex_fs [[114]; [102]]) ex_fs [] [] (map Seg [[114]; [102]]) = RP_ok [[114]; [102]] /\
  handle ex_fs [[114]] false false [] [102] = SFile [[114]; [102]] None [65] /\
  handle ex_fs [[114]] false false [] [108] = S404 /\
  handle ex_fs [[114]] true false [] [108] = SFile [[111]] None [66] /\
  handle ex_fs [[114]] false false [] [46; 46; 47; 111] = S404 /\
  handle ex_fs [[114]] true false [] [46; 46; 47; 111] = S404 /\
  handle ex_fs [[114]] false true [] [] = SListing [[114]] [[102]; [108]] /\
  handle ex_fs [[114]] false false [] [] = S403.
Proof. vm_compute. repeat split; reflexivity. Qed.
Print Assumptions C15_example_tree.

(* the extra hypothesis of the _partial theorems holds for ordinary requests on this tree *)
Example C15_example_no_loop : no_loop_met ex_fs ([[114]] ++ snd (parse_posix [102])).
Proof. exact ex_no_loop. Qed.
Print Assumptions C15_example_no_loop.

(* the hypotheses of C15_confined hold for this tree and root *)
Example C15_example_hypotheses : wf_fs ex_fs /\ Phys ex_fs [[114]] /\ kstat ex_fs [[114]] = KOk [[114]] NDir.
Proof. exact ex_hyps. Qed.
Print Assumptions C15_example_hypotheses.
