(* C15 — Static file serving stays inside its root and serves exact bytes.
   Only statements; each closed by `exact` of a lemma proved in Proofs/ (or vm_compute for examples). *)
From AV Require Import Lib.Base Generated.StaticGen Model.Static Model.StaticSpec
  Proofs.StaticRange Proofs.StaticResponse Proofs.StaticConfine.
Open Scope Z_scope.

(* ------------------------------------------------------------------ range arithmetic *)

(* For EVERY file size and EVERY well-formed single range "bytes=<d1>-<d2>" (digit strings of any
   length up to CPython's int() limit) the decision of http_range + _prepare_open_file equals the
   RFC 9110 reading: 206 with exactly the requested slice and `bytes first-last/size`, or 416 with
   `bytes */size` when the range is unsatisfiable / invalid. *)
Theorem C15_range_exact : forall sz d1 d2,
  0 <= sz -> all_digits d1 -> all_digits d2 ->
  (lenN d1 <= INT_MAX_STR_DIGITS)%N -> (lenN d2 <= INT_MAX_STR_DIGITS)%N ->
  range_decision sz true (Some (range_header d1 d2)) =
  match spec_of_groups d1 d2 with
  | None => D416 (cr_unsat sz)
  | Some r =>
      match requested_slice sz r with
      | Some (st, n) => D206 st n (cr_sat st n sz)
      | None => D416 (cr_unsat sz)
      end
  end.
Proof. exact decision_exact. Qed.
Print Assumptions C15_range_exact.

(* Safety for ANY header text at all (malformed, huge, trailing LF, ...) and any size: a 206 always
   names a non-empty slice inside the file and its Content-Range is the one for that slice. *)
Theorem C15_range_206_inside : forall sz gate h st n cr,
  0 <= sz -> range_decision sz gate h = D206 st n cr ->
  0 <= st /\ 0 < n /\ st + n <= sz /\ cr = cr_sat st n sz.
Proof. exact decision_206_bounds. Qed.
Print Assumptions C15_range_206_inside.

Theorem C15_range_416_star : forall sz gate h cr,
  range_decision sz gate h = D416 cr -> cr = cr_unsat sz /\ gate = true /\ h <> None.
Proof. exact decision_416. Qed.
Print Assumptions C15_range_416_star.

Theorem C15_range_200_whole : forall sz gate h n,
  range_decision sz gate h = D200 n -> n = sz /\ (gate = false \/ h = None).
Proof. exact decision_200. Qed.
Print Assumptions C15_range_200_whole.

(* the header grammar: accepted iff "bytes=" digits "-" digits (optionally one trailing LF, the `$` quirk) *)
Theorem C15_range_grammar : forall h d1 d2,
  match_range h = Some (d1, d2) ->
  all_digits d1 /\ all_digits d2 /\ (h = range_header d1 d2 \/ h = range_header d1 d2 ++ [10%N]).
Proof. exact match_range_inv. Qed.
Print Assumptions C15_range_grammar.

Theorem C15_range_malformed_416 : forall sz h,
  match_range h = None -> range_decision sz true (Some h) = D416 (cr_unsat sz).
Proof. exact decision_malformed. Qed.
Print Assumptions C15_range_malformed_416.

(* regression of the repaired defect: a zero suffix length ("bytes=-0", "bytes=-000") is unsatisfiable *)
Theorem C15_suffix_zero_unsatisfiable : forall sz d,
  all_digits d -> d <> [] -> dec_value 0 d = 0 -> (lenN d <= INT_MAX_STR_DIGITS)%N ->
  range_decision sz true (Some (range_header [] d)) = D416 (cr_unsat sz).
Proof. exact suffix_zero_unsat. Qed.
Print Assumptions C15_suffix_zero_unsatisfiable.

(* the numbers printed into Content-Range read back as themselves (so `bytes a-b/size` is unambiguous) *)
Theorem C15_decimal_roundtrip : forall z, 0 <= z -> all_digits (dec_of_Z z) /\ dec_value 0 (dec_of_Z z) = z.
Proof. exact dec_of_Z_roundtrip. Qed.
Print Assumptions C15_decimal_roundtrip.

(* ------------------------------------------------------------------ exact bytes *)

(* the chunked copy loop writes exactly bytes [offset, offset+count) for every chunk size > 0,
   every content (also shorter than offset+count) — in non-empty chunks no larger than chunk_size *)
Theorem C15_copy_loop_exact : forall cs content offset count,
  0 < cs -> 0 <= offset -> 0 < count ->
  exists l, sendfile_fallback cs content offset count = Some l /\
            concat l = slice content offset count /\
            Forall (fun c => c <> [] /\ Z.of_nat (length c) <= cs) l.
Proof. exact sendfile_fallback_exact. Qed.
Print Assumptions C15_copy_loop_exact.

(* For ANY content, Range text, If-Range and conditional headers, chunk size > 0, GET or HEAD: the
   response is one of exactly five consistent shapes (status, Content-Length, Content-Range, body). *)
Theorem C15_response_consistent : forall is_head cs content mtime etagv ifm unm ifn ms ifr rng,
  0 < cs ->
  let r := file_response is_head cs content mtime etagv ifm unm ifn ms ifr rng in
  let sz := Z.of_N (lenN content) in
  (r_status r = 200%N /\ r_length r = Some sz /\ r_range r = None /\
     r_body r = Some (if is_head then [] else content))
  \/ (exists st n, r_status r = 206%N /\ 0 <= st /\ 0 < n /\ st + n <= sz /\ r_length r = Some n /\
        r_range r = Some (cr_sat st n sz) /\ r_body r = Some (if is_head then [] else slice content st n) /\
        rng <> None)
  \/ (r_status r = 416%N /\ r_length r = None /\ r_range r = Some (cr_unsat sz) /\ r_body r = Some [] /\ rng <> None)
  \/ (r_status r = 304%N /\ r_length r = None /\ r_range r = None /\ r_body r = Some [])
  \/ (r_status r = 412%N /\ r_length r = Some 0 /\ r_range r = None /\ r_body r = Some []).
Proof. exact file_response_consistent. Qed.
Print Assumptions C15_response_consistent.

(* ... and when the preconditions pass and the If-Range gate is open, a well-formed range gets exactly
   the RFC slice of the content *)
Theorem C15_response_range_exact : forall is_head cs content mtime etagv ifm unm ifn ms ifr d1 d2,
  0 < cs -> all_digits d1 -> all_digits d2 ->
  (lenN d1 <= INT_MAX_STR_DIGITS)%N -> (lenN d2 <= INT_MAX_STR_DIGITS)%N ->
  preconditions etagv mtime ifm unm ifn ms = PC_send ->
  match ifr with Some t => ifrange_test mtime t | None => true end = true ->
  let sz := Z.of_N (lenN content) in
  let r := file_response is_head cs content mtime etagv ifm unm ifn ms ifr (Some (range_header d1 d2)) in
  match spec_of_groups d1 d2 with
  | Some rs =>
      match requested_slice sz rs with
      | Some (st, n) => r_status r = 206%N /\ r_length r = Some n /\ r_range r = Some (cr_sat st n sz) /\
                        r_body r = Some (if is_head then [] else slice content st n)
      | None => r_status r = 416%N /\ r_range r = Some (cr_unsat sz) /\ r_body r = Some []
      end
  | None => r_status r = 416%N /\ r_range r = Some (cr_unsat sz) /\ r_body r = Some []
  end.
Proof. exact file_response_range_exact. Qed.
Print Assumptions C15_response_range_exact.

(* ------------------------------------------------------------------ confinement *)

(* FULL STATEMENT (sandbox mode, i.e. symlink following NOT enabled): for any tree with symlinks and any
   filename text, what is served is a regular file stored physically below the configured root:

     forall f root show accept fn p enc c,
       kstat f root = KOk root NDir ->
       handle f root false show accept fn = SFile p enc c ->
       path_prefix root p = true /\ Phys f p /\ lookup f p = Some (NFile c).

   History.  The unrepaired code was refuted by "a/../l" (a<->b a symlink loop, l a link leaving the root):
   Path.resolve() gives up at the loop and only normalises the rest lexically.  Fix 706b3e0 added
   `if file_path.resolve() != file_path: raise ValueError`; that witness is now answered 404
   (C15_loop_escape_repaired, corpus/C15/loop-escape-*.json must pass).

   The faithful model of the REPAIRED code still refutes the full statement (implementation reproduces it:
   open known finding C15-sibling-escape-after-loop, corpus/C15/sibling-escape-after-loop.json): a path can be
   a fixed point of resolve() and still contain a link, when the stat() that resolve() uses to detect the loop
   fails with ENOENT instead of ELOOP; the pre-compressed sibling is then lstat'ed THROUGH that link. *)
Theorem C15_confined_refuted :
  exists f root accept fn p enc c q,
    kstat f root = KOk root NDir /\
    handle f root false false accept fn = SFile p (Some enc) c /\
    klstat f p = KOk q (NFile c) /\          (* the bytes served are those stored at q ... *)
    path_prefix root q = false.              (* ... which is outside the root *)
Proof.
  exists sib_fs, [[114%N]], gzip_str, sib_fn, [[114%N]; [100%N]; [110%N; 46%N; 103%N; 122%N]], gzip_str, [83%N],
         [[111%N]; [110%N; 46%N; 103%N; 122%N]].
  destruct confined_refuted as (A & B & C & D & _). auto.
Qed.
Print Assumptions C15_confined_refuted.

(* the witness of the repaired defect: resolve() still returns the link /r/l, but its second resolve() differs
   and the route now answers 404, with and without show_index *)
Theorem C15_loop_escape_repaired :
  kstat loop_fs [[114%N]] = KOk [[114%N]] NDir /\
  resolve loop_fs [[114%N]; [97%N]; [46%N; 46%N]; [108%N]] = RP_ok [[114%N]; [108%N]] /\
  is_link (lookup loop_fs [[114%N]; [108%N]]) = true /\
  resolve loop_fs [[114%N]; [108%N]] = RP_ok [[111%N]] /\
  handle loop_fs [[114%N]] false false [] loop_fn = S404 /\
  handle loop_fs [[114%N]] false true [] loop_fn = S404.
Proof. exact loop_escape_repaired. Qed.
Print Assumptions C15_loop_escape_repaired.

(* What is proved in place of the full statement, for ANY tree, ANY filename text (dot segments, backslashes,
   repeated slashes, NULs, whatever the URL layer decodes to), ANY Accept-Encoding, also for the .br/.gz
   sibling.  (1) with the fixed-point check it is enough that the SECOND realpath run -- on the path the
   first resolve() returned -- did not give up at a loop, whatever happened in the first: *)
Theorem C15_confined_partial : forall f root show accept fn p enc c,
  kstat f root = KOk root NDir ->
  (forall p0, resolve f (root ++ snd (parse_posix fn)) = RP_ok p0 -> no_loop_met f p0) ->
  handle f root false show accept fn = SFile p enc c ->
  path_prefix root p = true /\ Phys f p /\ lookup f p = Some (NFile c).
Proof. exact handle_confined_fixedpoint. Qed.
Print Assumptions C15_confined_partial.

(* (2) the hypothesis of the unrepaired code (no loop met while resolving root/filename) also still suffices.
   Missing for the full statement: a check in _resolve_path_to_response that no component of file_path below
   the root is a symbolic link (then Phys holds by definition), or a proof that a kernel walk that succeeds
   never meets a link realpath has in progress (which would settle the non-sibling case only). *)
Theorem C15_confined_noloop_partial : forall f root show accept fn p enc c,
  kstat f root = KOk root NDir ->
  no_loop_met f (root ++ snd (parse_posix fn)) ->
  handle f root false show accept fn = SFile p enc c ->
  path_prefix root p = true /\ Phys f p /\ lookup f p = Some (NFile c).
Proof. exact handle_confined_partial. Qed.
Print Assumptions C15_confined_noloop_partial.

(* the same through the route's own prefix matching, for ANY request path *)
Theorem C15_confined_route_partial : forall f prefix root show accept path_safe p enc c,
  kstat f root = KOk root NDir ->
  (forall fn p0, static_resolve prefix path_safe = Some fn ->
     resolve f (root ++ snd (parse_posix fn)) = RP_ok p0 -> no_loop_met f p0) ->
  serve_path f prefix root false show accept path_safe = SFile p enc c ->
  path_prefix root p = true /\ Phys f p /\ lookup f p = Some (NFile c).
Proof. exact serve_path_confined_fixedpoint. Qed.
Print Assumptions C15_confined_route_partial.

(* holds unconditionally (loops included): the path handed to the file response is LEXICALLY below the root *)
Theorem C15_lexically_confined : forall f root show accept fn p enc c,
  kstat f root = KOk root NDir ->
  handle f root false show accept fn = SFile p enc c ->
  path_prefix root p = true.
Proof. exact handle_lexically_confined. Qed.
Print Assumptions C15_lexically_confined.

(* os.path.realpath: whenever it completes (for ANY file system, ANY input path, any fuel) the result is a
   physical path: no symbolic link anywhere on it ... *)
Theorem C15_realpath_physical : forall f fuel p q, joinreal fuel f [] [] (map Seg p) = RP_ok q -> Phys f q.
Proof. exact realpath_phys. Qed.
Print Assumptions C15_realpath_physical.

Theorem C15_resolve_physical_partial : forall f p q, no_loop_met f p -> resolve f p = RP_ok q -> Phys f q.
Proof. exact resolve_phys. Qed.
Print Assumptions C15_resolve_physical_partial.

(* ... but Path.resolve() as a whole does not have that property: *)
Theorem C15_resolve_physical_refuted : exists f p q, resolve f p = RP_ok q /\ is_link (lookup f q) = true.
Proof.
  exists loop_fs, [[114%N]; [97%N]; [46%N; 46%N]; [108%N]], [[114%N]; [108%N]].
  destruct loop_escape_repaired as (_ & A & B & _). auto.
Qed.
Print Assumptions C15_resolve_physical_refuted.

(* the kernel's stat/lstat/open of a physical path ends at that very location: what is read is the node
   stored AT p, never something a link redirects to. *)
Theorem C15_physical_open : forall f w fuel links follow_last cur q n,
  phys_from f cur w -> kwalk fuel links f follow_last cur w = KOk q n -> q = cur ++ w /\ node_at f q = Some n.
Proof. exact kwalk_phys. Qed.
Print Assumptions C15_physical_open.

(* symlink following enabled: the request text itself still cannot walk out of the root (only links can) *)
Theorem C15_follow_lexically_confined : forall f root show accept fn p enc c,
  handle f root true show accept fn = SFile p enc c ->
  exists segs n, parse_posix fn = (false, segs) /\
    n = snd (parse_posix (py_normpath (path_str (root ++ segs)))) /\
    path_prefix root n = true /\ exists p0, resolve f n = RP_ok p0.
Proof. exact handle_follow_lexical. Qed.
Print Assumptions C15_follow_lexically_confined.

(* a directory listing only if show_index is set (any mode, any tree, any request path), and only for a
   path lexically below the root *)
Theorem C15_listing_only_if_enabled : forall f prefix root follow show accept path_safe d names,
  serve_path f prefix root follow show accept path_safe = SListing d names ->
  show = true /\ path_prefix root d = true.
Proof. exact serve_path_listing. Qed.
Print Assumptions C15_listing_only_if_enabled.

(* sandbox mode, second realpath run without a loop: the listing is that of the physical directory d below the root *)
Theorem C15_listing_physical_partial : forall f root show accept fn d names,
  (forall p0, resolve f (root ++ snd (parse_posix fn)) = RP_ok p0 -> no_loop_met f p0) ->
  handle f root false show accept fn = SListing d names ->
  Phys f d /\ node_at f d = Some NDir /\ names = children f d.
Proof. exact handle_listing_physical. Qed.
Print Assumptions C15_listing_physical_partial.

Theorem C15_absolute_filename_refused : forall f root follow show accept fn,
  is_abs fn = true -> handle f root follow show accept fn = S404.
Proof. exact handle_absolute. Qed.
Print Assumptions C15_absolute_filename_refused.

(* ------------------------------------------------------------------ non-vacuity *)
Open Scope N_scope.

(* "bytes=2-5" on a 10 byte file: 206, bytes 2-5/10, body 2345 *)
Example C15_example_range :
  let r := file_response false 3%Z [48;49;50;51;52;53;54;55;56;57] 100%Z [97] None None None None None
             (Some (range_header [50] [53])) in
  r_status r = 206 /\ r_length r = Some 4%Z /\
  r_range r = Some [98;121;116;101;115;32;50;45;53;47;49;48] /\ r_body r = Some [50;51;52;53].
Proof. vm_compute. repeat split; reflexivity. Qed.
Print Assumptions C15_example_range.

(* "bytes=-0" is 416 with bytes */10 (the repaired behaviour) *)
Example C15_example_suffix_zero :
  range_decision 10%Z true (Some (range_header [] [48])) = D416 [98;121;116;101;115;32;42;47;49;48].
Proof. vm_compute. reflexivity. Qed.
Print Assumptions C15_example_suffix_zero.

(* a tree  /r (root, dir)  /r/f (file "A")  /r/l -> ../o   /o (file "B"): f is served, l is refused in
   sandbox mode and served from outside when following is enabled; the hypotheses of C15_confined hold *)
Example C15_example_tree :
  kstat ex_fs [[114]] = KOk [[114]] NDir /\
  joinreal (rfuel ex_fs [[114]; [102]]) ex_fs [] [] (map Seg [[114]; [102]]) = RP_ok [[114]; [102]] /\
  handle ex_fs [[114]] false false [] [102] = SFile [[114]; [102]] None [65] /\
  handle ex_fs [[114]] false false [] [108] = S404 /\
  handle ex_fs [[114]] true false [] [108] = SFile [[111]] None [66] /\
  handle ex_fs [[114]] false false [] [46; 46; 47; 111] = S404 /\
  handle ex_fs [[114]] true false [] [46; 46; 47; 111] = S404 /\
  handle ex_fs [[114]] false true [] [] = SListing [[114]] [[102]; [108]] /\
  handle ex_fs [[114]] false false [] [] = S403.
Proof. vm_compute. repeat split; reflexivity. Qed.
Print Assumptions C15_example_tree.

(* the extra hypothesis of the _partial theorems holds for ordinary requests on this tree *)
Example C15_example_no_loop : no_loop_met ex_fs ([[114]] ++ snd (parse_posix [102])).
Proof. exact ex_no_loop. Qed.
Print Assumptions C15_example_no_loop.

Example C15_example_no_loop_fixedpoint :
  forall p0, resolve ex_fs ([[114]] ++ snd (parse_posix [102])) = RP_ok p0 -> no_loop_met ex_fs p0.
Proof. exact ex_no_loop_fixedpoint. Qed.
Print Assumptions C15_example_no_loop_fixedpoint.
