(* C01 — Request framing is unambiguous: one wire message, one parsed request.
   Statements only.  `parse_request o (rl :: fls) = POk m` reads: the header block whose request line is
   rl and whose field lines are fls (split at CRLF, terminating empty line removed) is ACCEPTED as
   message m; every other result is a rejection (400) or a question to the yarl oracle.  All
   theorems hold for ALL byte strings.  The character classes (tchar, field_forbidden_ctl,
   target_forbidden, dec_digit) are regenerated from aiohttp/http_parser.py on every run. *)
From AV Require Import Lib.Base Lib.BytesX Generated.HttpGen Model.Http Proofs.HttpReject Proofs.HttpHead.
Open Scope N_scope.

(* The shape of every accepted head: token method, screened target, HTTP/d.d, well-formed fields,
   Host present on 1.1, framing derived by the single rule in `derive`. *)
Theorem C01_accepted_head : forall o rl fls m,
  parse_request o (rl :: fls) = POk m -> accepted_head o rl fls m.
Proof. exact parse_request_ok. Qed.
Print Assumptions C01_accepted_head.

(* Bare LF, bare CR, NUL or any other control byte / whitespace in the request line: rejected.
   (The only byte of the forbidden class an accepted request line contains is the separator SP.) *)
Theorem C01_reject_ctl_in_request_line : forall o rl fls m c,
  parse_request o (rl :: fls) = POk m -> In c rl -> target_forbidden c = true -> c = 32.
Proof. exact accepted_line_clean. Qed.
Print Assumptions C01_reject_ctl_in_request_line.

(* Control bytes in a field line (LF, CR, NUL, every byte of the generated forbidden class): rejected. *)
Theorem C01_reject_ctl_in_field : forall o rl fls m l c,
  parse_request o (rl :: fls) = POk m -> In l fls -> In c l -> field_forbidden_ctl c = false.
Proof. exact accepted_fields_clean. Qed.
Print Assumptions C01_reject_ctl_in_field.

(* A field line is name ":" value with a token name: whitespace before the colon or in the name,
   an empty name, a line without colon are all rejected. *)
Theorem C01_field_shape : forall line n v,
  parse_field line = POk (n, v) ->
  exists raw, line = n ++ 58 :: raw /\ v = strip_ows raw /\ n <> [] /\
              forallb tchar n = true /\ existsb field_forbidden_ctl v = false.
Proof. exact parse_field_ok. Qed.
Print Assumptions C01_field_shape.

(* obs-fold: a line starting with SP or HTAB is never a field *)
Theorem C01_reject_obs_fold : forall c rest r, is_ows c = true -> parse_field (c :: rest) <> POk r.
Proof. exact parse_field_obs_fold. Qed.
Print Assumptions C01_reject_obs_fold.

(* one bad line rejects the whole block *)
Theorem C01_bad_line_rejects_block : forall lines acc l hs,
  In l lines -> (forall r, parse_field l <> POk r) -> parse_fields lines acc <> POk hs.
Proof. exact parse_fields_bad_line. Qed.
Print Assumptions C01_bad_line_rejects_block.

(* Content-Length together with Transfer-Encoding: rejected *)
Theorem C01_reject_cl_and_te : forall o rl fls m,
  parse_request o (rl :: fls) = POk m ->
  has_header h_content_length (m_headers m) = true -> get_header h_transfer_encoding (m_headers m) = None.
Proof. exact accepted_not_cl_and_te. Qed.
Print Assumptions C01_reject_cl_and_te.

(* Transfer-Encoding must end in `chunked` and mention it once; then the message is chunked *)
Theorem C01_te_single_final_chunked : forall o rl fls m te,
  parse_request o (rl :: fls) = POk m -> get_header h_transfer_encoding (m_headers m) = Some te ->
  m_chunked m = true /\ is_tok t_chunked (last (comma_tokens te) []) = true /\
  (length (filter (is_tok t_chunked) (comma_tokens te)) < 2)%nat.
Proof. exact accepted_te_final_chunked. Qed.
Print Assumptions C01_te_single_final_chunked.

(* repeated Content-Length / Host / Transfer-Encoding / any singleton field: rejected *)
Theorem C01_reject_duplicate_singleton : forall o rl fls m pre k v post,
  parse_request o (rl :: fls) = POk m -> m_headers m = pre ++ (k, v) :: post ->
  is_singleton k = true -> has_header k pre = false.
Proof. exact accepted_no_dup_singletons. Qed.
Print Assumptions C01_reject_duplicate_singleton.

(* Content-Length is 1*DIGIT (no sign, no hex, no list, not empty); no Sec-WebSocket-Key1 *)
Theorem C01_content_length_decimal : forall lim o s ls r,
  start_message lim o s ls = POk r ->
  exists m, parse_request o (removelast ls) = POk m /\
    match get_header h_content_length (m_headers m) with
    | Some v => v <> [] /\ forallb dec_digit v = true
    | None => True
    end /\ has_header h_sec_websocket_key1 (m_headers m) = false.
Proof. exact start_message_cl. Qed.
Print Assumptions C01_content_length_decimal.

(* non-vacuity: a concrete head is accepted; the classic smuggling heads are rejected *)
Example C01_example_accept :
  exists m, parse_request [] [[71;69;84;32;47;97;32;72;84;84;80;47;49;46;49]; [72;111;115;116;58;32;120]] = POk m
            /\ m_target m = [47; 97] /\ m_headers m = [([72;111;115;116], [120])].
Proof. eexists. split; [vm_compute; reflexivity|split; reflexivity]. Qed.
Print Assumptions C01_example_accept.

Example C01_example_reject_lf_in_target :
  parse_request [] [[71;69;84;32;47;97;10;98;32;72;84;84;80;47;49;46;49]; [72;111;115;116;58;32;120]] = PErr EInvalidUrl.
Proof. vm_compute. reflexivity. Qed.
Print Assumptions C01_example_reject_lf_in_target.
