(* C01 — Request framing is unambiguous: one wire message, one parsed request.
   Statements only.  `parse_request o (rl :: fls) = POk m` reads: the header block whose request line is
   rl and whose field lines are fls (split at CRLF, terminating empty line removed) is ACCEPTED as
   message m; every other result is a rejection (400) or a question to the yarl oracle.  All
   theorems hold for ALL byte strings.  The character classes (tchar, field_forbidden_ctl,
   target_forbidden, dec_digit) are regenerated from aiohttp/http_parser.py on every run. *)
From AV Require Import Lib.Base Lib.BytesX Generated.HttpGen Model.Http Proofs.HttpReject Proofs.HttpHead.
Open Scope N_scope.

(* The shape of every accepted head: token method, screened target, HTTP/d.d, well-formed fields,
   Host present on 1.1, framing derived by the single rule in `derive`. *)
Theorem C01_accepted_head : forall o rl fls m,
  parse_request o (rl :: fls) = POk m -> accepted_head o rl fls m.
Proof. exact parse_request_ok. Qed.
Print Assumptions C01_accepted_head.

(* Bare LF, bare CR, NUL or any other control byte / whitespace in the request line: rejected.
   (The only byte of the forbidden class an accepted request line contains is the separator SP.) *)
Theorem C01_reject_ctl_in_request_line : forall o rl fls m c,
  parse_request o (rl :: fls) = POk m -> In c rl -> target_forbidden c = true -> c = 32.
Proof. exact accepted_line_clean. Qed.
Print Assumptions C01_reject_ctl_in_request_line.

(* Control bytes in a field line (LF, CR, NUL, every byte of the generated forbidden class): rejected. *)
Theorem C01_reject_ctl_in_field : forall o rl fls m l c,
  parse_request o (rl :: fls) = POk m -> In l fls -> In c l -> field_forbidden_ctl c = false.
Proof. exact accepted_fields_clean. Qed.
Print Assumptions C01_reject_ctl_in_field.

(* A field line is name ":" value with a token name: whitespace before the colon or in the name,
   an empty name, a line without colon are all rejected. *)
Theorem C01_field_shape : forall line n v,
  parse_field line = POk (n, v) ->
  exists raw, line = n ++ 58 :: raw /\ v = strip_ows raw /\ n <> [] /\
              forallb tchar n = true /\ existsb field_forbidden_ctl v = false.
Proof. exact parse_field_ok. Qed.
Print Assumptions C01_field_shape.

(* obs-fold: a line starting with SP or HTAB is never a field *)
Theorem C01_reject_obs_fold : forall c rest r, is_ows c = true -> parse_field (c :: rest) <> POk r.
Proof. exact parse_field_obs_fold. Qed.
Print Assumptions C01_reject_obs_fold.

(* one bad line rejects the whole block *)
Theorem C01_bad_line_rejects_block : forall lines acc l hs,
  In l lines -> (forall r, parse_field l <> POk r) -> parse_fields lines acc <> POk hs.
Proof. exact parse_fields_bad_line. Qed.
Print Assumptions C01_bad_line_rejects_block.

(* Content-Length together with Transfer-Encoding: rejected *)
Theorem C01_reject_cl_and_te : forall o rl fls m,
  parse_request o (rl :: fls) = POk m ->
  has_header h_content_length (m_headers m) = true -> get_header h_transfer_encoding (m_headers m) = None.
Proof. exact accepted_not_cl_and_te. Qed.
Print Assumptions C01_reject_cl_and_te.

(* Transfer-Encoding must end in `chunked` and mention it once; then the message is chunked *)
Theorem C01_te_single_final_chunked : forall o rl fls m te,
  parse_request o (rl :: fls) = POk m -> get_header h_transfer_encoding (m_headers m) = Some te ->
  m_chunked m = true /\ is_tok t_chunked (last (comma_tokens te) []) = true /\
  (length (filter (is_tok t_chunked) (comma_tokens te)) < 2)%nat.
Proof. exact accepted_te_final_chunked. Qed.
Print Assumptions C01_te_single_final_chunked.

(* repeated Content-Length / Host / Transfer-Encoding / any singleton field: rejected *)
Theorem C01_reject_duplicate_singleton : forall o rl fls m pre k v post,
  parse_request o (rl :: fls) = POk m -> m_headers m = pre ++ (k, v) :: post ->
  is_singleton k = true -> has_header k pre = false.
Proof. exact accepted_no_dup_singletons. Qed.
Print Assumptions C01_reject_duplicate_singleton.

(* Content-Length is 1*DIGIT (no sign, no hex, no list, not empty); no Sec-WebSocket-Key1 *)
Theorem C01_content_length_decimal : forall lim o s ls r,
  start_message lim o s ls = POk r ->
  exists m, parse_request o (removelast ls) = POk m /\
    match get_header h_content_length (m_headers m) with
    | Some v => v <> [] /\ forallb dec_digit v = true
    | None => True
    end /\ has_header h_sec_websocket_key1 (m_headers m) = false.
Proof. exact start_message_cl. Qed.
Print Assumptions C01_content_length_decimal.

(* non-vacuity: a concrete head is accepted; the classic smuggling heads are rejected *)
Example C01_example_accept :
  exists m, parse_request [] [[71;69;84;32;47;97;32;72;84;84;80;47;49;46;49]; [72;111;115;116;58;32;120]] = POk m
            /\ m_target m = [47; 97] /\ m_headers m = [([72;111;115;116], [120])].
Proof. eexists. split; [vm_compute; reflexivity|split; reflexivity]. Qed.
Print Assumptions C01_example_accept.

Example C01_example_reject_lf_in_target :
  parse_request [] [[71;69;84;32;47;97;10;98;32;72;84;84;80;47;49;46;49]; [72;111;115;116;58;32;120]] = PErr EInvalidUrl.
Proof. vm_compute. reflexivity. Qed.
Print Assumptions C01_example_reject_lf_in_target.

(* ================================================================================================
   The incremental parser refines the strict whole-stream reading of RFC 9112 request framing
   (Model/HttpSpec.v: spec, take_block, dechunk, spans).  Proofs: Proofs/HttpSpecRefine*.v, built on
   the C03 loop machinery.  All theorems are for ALL limits, oracles and byte streams; no "limits
   not hit" assumption (the strict reading checks the same limits).
   Vocabulary (Proofs/HttpSpecRefinePart.v, HttpSpecRefine.v):
     crlfs k            k CRLF pairs
     weave ks spans     crlfs k1 ++ span1 ++ crlfs k2 ++ span2 ++ ...   (the explicit reconstruction)
     msg_match sm r     the delivered record r is the spec message sm: same head (method, target,
                        version, headers, close/compression/upgrade/chunked flags), same body bytes,
                        same chunk ends, end-of-stream set, no exception
     delivered ms a     the delivered records, oldest first, match ms one by one
     delivered_upto ms a  the same, plus possibly one newer message whose body is still in progress
     early e            e is BadHttpMessage, LineTooLong or TransferEncodingError
   ================================================================================================ *)
From AV Require Import Model.HttpSpec Proofs.HttpSeg Proofs.HttpSegEx Proofs.HttpSpecRefinePart
  Proofs.HttpSpecRefineBase Proofs.HttpSpecRefine Proofs.HttpSpecRefineEx.

(* Every byte of the stream belongs to exactly one place: the stream IS the leading / separating
   CRLF pairs and the message spans woven in order, followed by what the verdict leaves over
   (nothing but CRLFs when accepted; the bytes handed to the new protocol when upgraded; the
   incomplete message; the rejected remainder).  Spans are non-empty, so they are disjoint. *)
Theorem C01_spec_partition : forall lim o s,
  match spec lim o s with
  | SAccept ms _ => exists ks k, length ks = length ms /\ s = weave ks (map s_span ms) ++ crlfs k
  | SUpgraded ms rest => exists ks, length ks = length ms /\ s = weave ks (map s_span ms) ++ rest
  | SIncomplete ms rest => exists ks k, length ks = length ms /\ s = weave ks (map s_span ms) ++ crlfs k ++ rest
  | SReject ms _ => exists ks rest, length ks = length ms /\ s = weave ks (map s_span ms) ++ rest
  | SAsk _ _ => True
  end /\
  match spec lim o s with
  | SAccept ms _ | SUpgraded ms _ | SIncomplete ms _ | SReject ms _ => Forall (fun sm => s_span sm <> []) ms
  | SAsk _ _ => True
  end.
Proof. exact spec_partition. Qed.
Print Assumptions C01_spec_partition.

Example C01_spec_partition_example :
  match spec limq [] st_two with
  | SAccept ms _ => st_two = weave [1%nat; 2%nat] (map s_span ms) ++ crlfs 1 /\
                    map (@length N) (map s_span ms) = [106%nat; 28%nat]
  | _ => False
  end.
Proof. exact ex_partition. Qed.
Print Assumptions C01_spec_partition_example.

(* One read of the whole stream against the strict reading (max_queue = 0: the message queue limit
   of the server protocol is not part of framing).
   - accepted: normal return, parser idle, exactly the spec's messages delivered;
   - upgraded: the spec's messages delivered and the rest returned unconsumed - or, for CONNECT,
     fed to the tunnel payload of the last message;
   - incomplete: normal return, or an EARLY rejection (the parser checks each line as it arrives:
     bare LF in a partial line, partial or complete line over its limit, more lines than
     max_headers / trailers, a line after a message that closes - C01_refines_spec_incomplete_example
     shows each); the spec's messages are delivered, plus possibly the head of the one in progress;
   - rejected: an exception; its class is the spec's, except that the spec may say LineTooLong where
     the parser already raised BadHttpMessage for the line count (C01_refines_spec_class_example);
   - oracle question: the same question. *)
Theorem C01_refines_spec : forall lim o s, max_queue lim = 0 ->
  let '(st, a, r) := feed lim o init s [] in
  match spec lim o s with
  | SAccept ms _ => r = ROk [] /\ idle st /\ delivered ms a
  | SUpgraded ms rest =>
    (r = ROk rest /\ upgraded st = true /\ payload st = None /\ delivered ms a) \/
    (r = ROk [] /\ exists p cur old pre last,
        payload st = Some p /\ pk p = PUntilEof /\ a = cur :: old /\ ms = pre ++ [last] /\
        delivered pre old /\ r_msg cur = s_msg last /\ r_data cur = rest /\
        r_eof cur = false /\ r_exc cur = None)
  | SIncomplete ms _ => (r = ROk [] \/ exists e, r = RErr e /\ early e) /\ delivered_upto ms a
  | SReject ms e =>
    exists e', r = RErr e' /\ (e' = e \/ (e = ELineTooLong /\ e' = EBadMessage)) /\ delivered_upto ms a
  | SAsk c t => r = RAsk c t
  end.
Proof. exact (fun lim o s Hq => refines_spec lim o Hq s). Qed.
Print Assumptions C01_refines_spec.

(* the class is equal whenever the strict reading does not say LineTooLong *)
Theorem C01_refines_spec_reject_class : forall lim o s ms e, max_queue lim = 0 ->
  spec lim o s = SReject ms e -> e <> ELineTooLong ->
  exists st a, feed lim o init s [] = (st, a, RErr e) /\ delivered_upto ms a.
Proof. exact refines_spec_reject_class. Qed.
Print Assumptions C01_refines_spec_reject_class.

Example C01_refines_spec_example :
  sdigest (spec limq [] st_two) =
    (0, [([80; 79; 83; 84], [47; 97], body26, [26], 106%nat); ([71; 69; 84], [47; 98], [], [], 28%nat)], [], None) /\
  digest (feed limq [] init st_two []) =
    (ROk [], [([71; 69; 84], [47; 98], [], [], true, None); ([80; 79; 83; 84], [47; 97], body26, [26], true, None)]).
Proof. exact ex_refines. Qed.
Print Assumptions C01_refines_spec_example.

Example C01_refines_spec_class_example :
  sdigest (spec lim_cls [] st_cls) = (3, [], [], Some ELineTooLong) /\
  digest (feed lim_cls [] init st_cls []) = (RErr EBadMessage, []).
Proof. exact ex_class_differs. Qed.
Print Assumptions C01_refines_spec_class_example.

Example C01_refines_spec_incomplete_example :
  inc_kind [71; 69; 84; 32; 47; 32; 72; 84; 84; 80; 47; 49; 46; 48; 13; 10; 102; 111; 111; 10] = (2, RErr EBadMessage).
Proof. exact (proj1 ex_incomplete). Qed.
Print Assumptions C01_refines_spec_incomplete_example.

Example C01_refines_spec_upgraded_example :
  sdigest (spec limq o_connect st_connect) =
    (1, [([67; 79; 78; 78; 69; 67; 84], [104; 58; 49], [], [], 33%nat)], [116; 117; 110; 110; 101; 108], None) /\
  digest (feed limq o_connect init st_connect []) =
    (ROk [], [([67; 79; 78; 78; 69; 67; 84], [104; 58; 49], [116; 117; 110; 110; 101; 108], [], false, None)]) /\
  sdigest (spec limq [] st_ws) = (1, [([71; 69; 84], [47; 119], [], [], 69%nat)], [102; 114; 97; 109; 101; 115], None) /\
  digest (feed limq [] init st_ws []) = (ROk [102; 114; 97; 109; 101; 115], [([71; 69; 84], [47; 119], [], [], true, None)]).
Proof. exact ex_upgraded. Qed.
Print Assumptions C01_refines_spec_upgraded_example.

(* Any segmentation whose reads all return normally delivers the messages of the strict reading of
   the concatenated stream (C03_seg_accept + C01_refines_spec); in particular the strict reading
   neither rejects that stream nor leaves it undecided. *)
Theorem C01_refines_spec_any_segmentation : forall lim o segs st a lo, max_queue lim = 0 ->
  run_segs lim o init segs [] [] = (st, a, ROk lo) ->
  match spec lim o (concat segs) with
  | SAccept ms _ => lo = [] /\ idle st /\ delivered ms a
  | SUpgraded ms rest =>
    (lo = rest /\ upgraded st = true /\ payload st = None /\ delivered ms a) \/
    (lo = [] /\ exists p cur old pre last,
        payload st = Some p /\ pk p = PUntilEof /\ a = cur :: old /\ ms = pre ++ [last] /\
        delivered pre old /\ r_msg cur = s_msg last /\ r_data cur = rest /\
        r_eof cur = false /\ r_exc cur = None)
  | SIncomplete ms _ => lo = [] /\ delivered_upto ms a
  | SReject _ _ | SAsk _ _ => False
  end.
Proof. exact any_segmentation_spec. Qed.
Print Assumptions C01_refines_spec_any_segmentation.

Example C01_refines_spec_any_segmentation_example :
  concat st_two_segs = st_two /\
  digest (run_segs limq [] init st_two_segs [] []) =
    (ROk [], [([71; 69; 84], [47; 98], [], [], true, None); ([80; 79; 83; 84], [47; 97], body26, [26], true, None)]).
Proof. exact ex_refines_segs. Qed.
Print Assumptions C01_refines_spec_any_segmentation_example.
