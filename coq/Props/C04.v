(* C04 — Outbound messages: field contents cannot inject structure; framing is truthful.
   Only statements; each closed by `exact` of a lemma proved in Proofs/. *)
From AV Require Import Lib.Base Lib.Utf8 Generated.WriterGen Model.Writer Proofs.WriterHeaders.
Open Scope N_scope.

(* For ALL code-point strings: what is emitted is the supplied start line, CRLF, the supplied
   field lines joined by CRLF, CRLF CRLF; and neither the start line nor any field line
   contains CR or LF after encoding, so no supplied value adds a line or a message. *)
Theorem C04_no_injection : forall sl hs out,
  serialize_headers sl hs = Some out ->
  exists esl elines,
    utf8_encode sl = Some esl /\
    Forall2 (fun kv el => utf8_encode (header_line kv) = Some el) hs elines /\
    out = esl ++ CRLF ++ join CRLF elines ++ CRLF ++ CRLF /\
    no_crlf esl /\ Forall no_crlf elines.
Proof. exact no_injection. Qed.
Print Assumptions C04_no_injection.

(* A line reader splitting at CRLF sees exactly one start line and one line per header. *)
Theorem C04_lines_exact : forall sl hs out,
  hs <> [] ->
  serialize_headers sl hs = Some out ->
  exists esl elines,
    utf8_encode sl = Some esl /\
    Forall2 (fun kv el => utf8_encode (header_line kv) = Some el) hs elines /\
    split_crlf out = esl :: elines ++ [[]; []].
Proof. exact lines_exact. Qed.
Print Assumptions C04_lines_exact.

Theorem C04_reason_no_crlf : forall r, reason_ok r = true -> no_crlf r.
Proof. exact reason_ok_no_crlf. Qed.
Print Assumptions C04_reason_no_crlf.

Theorem C04_method_is_token : forall m, method_ok m = true -> safe_header m = true /\ ~ In 32 m.
Proof. exact method_ok_safe. Qed.
Print Assumptions C04_method_is_token.

(* non-vacuity: a concrete message with a non-ASCII value passes and yields three lines *)
Example C04_example :
  serialize_headers [72; 84; 84; 80] [([65], [233; 9; 66]); ([66], [])] =
  Some [72; 84; 84; 80; 13; 10; 65; 58; 32; 195; 169; 9; 66; 13; 10; 66; 58; 32; 13; 10; 13; 10].
Proof. vm_compute. reflexivity. Qed.
Print Assumptions C04_example.

(* ====================================================================================
   Body framing of StreamWriter (Model/Writer.v wstep/wrun), tied to the request parser's
   chunked decoder (Model/Http.v feed_payload).  Lemmas: Proofs/WriterBody.v. *)
From AV Require Import Lib.BytesX Generated.HttpGen Model.Http Proofs.WriterBody.

(* Chunk-size numerals: f"{n:x}" is read back by the parser as n; it is a non-empty string of
   HEXDIGITS and contains no CR, LF or ';' (so it cannot end the size line early nor start a
   chunk extension). *)
Theorem C04_hex_numerals : forall n,
  parse_hex (to_hex n) = n /\ forallb hex_digit (to_hex n) = true /\ to_hex n <> [] /\
  (forall c, In c (to_hex n) -> c <> 13 /\ c <> 10 /\ c <> 59).
Proof. exact hex_numerals. Qed.
Print Assumptions C04_hex_numerals.

Example C04_hex_numerals_example :
  to_hex 0 = [48] /\ to_hex 255 = [102; 102] /\ to_hex 65537 = [49; 48; 48; 48; 49] /\
  parse_hex (to_hex 4096) = 4096.
Proof. vm_compute. repeat split; reflexivity. Qed.
Print Assumptions C04_hex_numerals_example.

(* Chunked framing is truthful.  A writer put in chunked mode with a (non-empty) buffered head H and no
   declared length, then given ANY sequence of write(d) / send_headers() calls and one terminator
   (write_eof(d) or set_eof()), emits H followed by a body which
     - is exactly one "size CRLF data CRLF" group per NON-EMPTY write, then "0 CRLF CRLF"
       (an empty write emits nothing, in particular no premature last-chunk), and
     - the request parser's chunked decoder, started in its initial state, accepts completely
       (PRDone, nothing left over), delivering exactly the concatenation of the written data, with one
       chunk end at the cumulative offset of every non-empty write, and end of stream,
   provided the parser's line limit admits each size line and at least one trailer line is allowed. *)
Theorem C04_chunked_decodes : forall H ops t lim mt a,
  H <> [] -> forallb body_op ops = true -> term_op t = true ->
  let ds := map op_data (ops ++ [t]) in
  (forall d, In d ds -> lenN (to_hex (lenN d)) <= max_line lim) -> 1 <= max_line lim -> 1 <= mt ->
  exists sf body,
    wrun winit (WEnableChunking :: WHeaders H :: ops ++ [t]) = (sf, H ++ body) /\
    w_eof sf = true /\
    body = concat (map enc1 ds) ++ last_chunk /\
    feed_payload lim (mkP (PChunked CSize) [] [] mt) body a =
      PRDone [] (upd_cur (fun m => mkR (r_msg m) (r_body m) (r_data m ++ concat ds)
                                       (r_splits m ++ offsets (lenN (r_data m)) ds) true (r_exc m)) a).
Proof. exact chunked_decodes. Qed.
Print Assumptions C04_chunked_decodes.

(* hypotheses satisfiable; empty write in the middle, send_headers between writes, a two-digit size *)
Example C04_chunked_decodes_example :
  let H := [72; 13; 10; 13; 10] in
  let ops := [WWrite [1; 2; 3]; WSendHeaders; WWrite []; WWrite (repeat 7 17)] in
  let t := WEof [9] in
  let lim := mkLimits 8190 8190 128 0 in
  let m0 := mkR (mkMsg [80; 79; 83; 84] [47] 1 1 [] false None false true) true [] [] false None in
  let body := [51; 13; 10; 1; 2; 3; 13; 10; 49; 49; 13; 10] ++ repeat 7 17 ++
              [13; 10; 49; 13; 10; 9; 13; 10; 48; 13; 10; 13; 10] in
  forallb body_op ops = true /\ term_op t = true /\
  forallb (fun d => lenN (to_hex (lenN d)) <=? max_line lim) (map op_data (ops ++ [t])) = true /\
  snd (wrun winit (WEnableChunking :: WHeaders H :: ops ++ [t])) = H ++ body /\
  feed_payload lim (mkP (PChunked CSize) [] [] 1) body [m0] =
    PRDone [] [mkR (r_msg m0) true ([1; 2; 3] ++ repeat 7 17 ++ [9]) [3; 20; 21] true None].
Proof. vm_compute. repeat split; reflexivity. Qed.
Print Assumptions C04_chunked_decodes_example.

(* Declared length is truthful for write(): with `length = n` set before the head (not chunked), after any
   sequence of write(d) / send_headers() calls and a terminator, the output is the head, then the first n
   bytes of what was handed to write() (never more), then the terminator's own chunk.  write_eof(chunk)
   is NOT truncated by the code (quirk, modelled as it is): the terminator's data is appended whole.  If
   exactly n bytes were written and the terminator carries no data, exactly those n bytes follow the head. *)
Theorem C04_length_truthful : forall H n ops t,
  H <> [] -> forallb body_op ops = true -> term_op t = true ->
  let written := concat (map op_data ops) in
  exists sf,
    wrun winit (WSetLength (Some n) :: WHeaders H :: ops ++ [t]) =
      (sf, H ++ firstn (N.to_nat n) written ++ op_data t) /\
    w_eof sf = true /\ w_length sf = Some (n - lenN written) /\
    (lenN written = n -> op_data t = [] ->
     wrun winit (WSetLength (Some n) :: WHeaders H :: ops ++ [t]) = (sf, H ++ written) /\
     w_length sf = Some 0).
Proof. exact length_truthful. Qed.
Print Assumptions C04_length_truthful.

(* and before any terminator: either the head is still buffered and nothing was emitted, or the head is
   followed by at most n bytes, the first n handed to write() *)
Theorem C04_length_never_exceeded : forall H n ops,
  H <> [] -> forallb body_op ops = true ->
  let written := concat (map op_data ops) in
  exists sf,
    wrun winit (WSetLength (Some n) :: WHeaders H :: ops) =
      (sf, (if w_hwritten sf then H else []) ++ firstn (N.to_nat n) written) /\
    lenN (firstn (N.to_nat n) written) <= n.
Proof. exact length_never_exceeded. Qed.
Print Assumptions C04_length_never_exceeded.

Example C04_length_truthful_example :
  let H := [72; 13; 10; 13; 10] in
  let ops := [WWrite [1; 2]; WSendHeaders; WWrite []; WWrite [3; 4; 5; 6]; WWrite [7]] in
  forallb body_op ops = true /\
  (* over-long writes are cut at the declared 5 bytes *)
  snd (wrun winit (WSetLength (Some 5) :: WHeaders H :: ops ++ [WSetEof])) = H ++ [1; 2; 3; 4; 5] /\
  (* exactly the declared 7 bytes *)
  wrun winit (WSetLength (Some 7) :: WHeaders H :: ops ++ [WEof []]) =
    (mkW (Some 0) false None true true, H ++ [1; 2; 3; 4; 5; 6; 7]) /\
  (* quirk: the chunk given to write_eof is not cut *)
  snd (wrun winit (WSetLength (Some 5) :: WHeaders H :: ops ++ [WEof [8; 9]])) = H ++ [1; 2; 3; 4; 5; 8; 9].
Proof. vm_compute. repeat split; reflexivity. Qed.
Print Assumptions C04_length_truthful_example.

(* Nothing before the head, head exactly once, in EVERY mode (any declared length l, chunked or not):
   the output of a writer whose (non-empty) head H is buffered equals H followed by what a writer
   whose head is already out emits for the same calls; that remainder does not mention H.  Before a
   terminator the head may still be buffered (nothing emitted at all) - then the remainder is empty too:
   no body byte ever precedes the head. *)
Theorem C04_head_first_once : forall l c H ops, H <> [] -> forallb body_op ops = true ->
  (forall t, term_op t = true ->
     wrun (mkW l c (Some H) false false) (ops ++ [t]) =
     (fst (wrun (mkW l c None true false) (ops ++ [t])),
      H ++ snd (wrun (mkW l c None true false) (ops ++ [t])))) /\
  (exists sf, wrun (mkW l c (Some H) false false) ops =
              (sf, (if w_hwritten sf then H else []) ++ snd (wrun (mkW l c None true false) ops)) /\
              (w_hwritten sf = false -> snd (wrun (mkW l c None true false) ops) = [])).
Proof. exact head_first_once. Qed.
Print Assumptions C04_head_first_once.

(* the state quantified over above is the one reached by configuring a fresh writer *)
Theorem C04_setup_state : forall (l : option N) (c : bool) (H : bytes),
  wrun winit (WSetLength l :: (if c then [WEnableChunking] else []) ++ [WHeaders H]) =
  (mkW l c (Some H) false false, []).
Proof. exact setup_state. Qed.
Print Assumptions C04_setup_state.

Example C04_head_first_once_example :
  let H := [72; 13; 10; 13; 10] in
  (* chunked, declared length 4: the head once, in front *)
  snd (wrun (mkW (Some 4) true (Some H) false false) [WWrite []; WWrite [1; 2; 3]; WSendHeaders; WWrite [4; 5]; WSetEof])
    = H ++ [51; 13; 10; 1; 2; 3; 13; 10; 49; 13; 10; 4; 13; 10; 48; 13; 10; 13; 10] /\
  (* declared length 0 and a non-empty write: nothing is emitted and the head stays buffered ... *)
  wrun (mkW (Some 0) false (Some H) false false) [WWrite [1]] = (mkW (Some 0) false (Some H) false false, []) /\
  (* ... until the terminator *)
  snd (wrun (mkW (Some 0) false (Some H) false false) [WWrite [1]; WSetEof]) = H.
Proof. vm_compute. repeat split; reflexivity. Qed.
Print Assumptions C04_head_first_once_example.

(* Quirk, stated as it is: set_eof() on a chunked writer whose head was never buffered nor written emits
   nothing at all (no last-chunk), yet marks the writer finished. *)
Theorem C04_set_eof_without_head_quirk : forall l,
  wstep (mkW l true None false false) WSetEof = (mkW l true None false true, []).
Proof. exact set_eof_without_head_quirk. Qed.
Print Assumptions C04_set_eof_without_head_quirk.
