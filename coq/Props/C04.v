(* C04 — Outbound messages: field contents cannot inject structure; framing is truthful.
   Only statements; each closed by `exact` of a lemma proved in Proofs/. *)
From AV Require Import Lib.Base Lib.Utf8 Generated.WriterGen Model.Writer Proofs.WriterHeaders.
Open Scope N_scope.

(* For ALL code-point strings: what is emitted is the supplied start line, CRLF, the supplied
   field lines joined by CRLF, CRLF CRLF; and neither the start line nor any field line
   contains CR or LF after encoding, so no supplied value adds a line or a message. *)
Theorem C04_no_injection : forall sl hs out,
  serialize_headers sl hs = Some out ->
  exists esl elines,
    utf8_encode sl = Some esl /\
    Forall2 (fun kv el => utf8_encode (header_line kv) = Some el) hs elines /\
    out = esl ++ CRLF ++ join CRLF elines ++ CRLF ++ CRLF /\
    no_crlf esl /\ Forall no_crlf elines.
Proof. exact no_injection. Qed.
Print Assumptions C04_no_injection.

(* A line reader splitting at CRLF sees exactly one start line and one line per header. *)
Theorem C04_lines_exact : forall sl hs out,
  hs <> [] ->
  serialize_headers sl hs = Some out ->
  exists esl elines,
    utf8_encode sl = Some esl /\
    Forall2 (fun kv el => utf8_encode (header_line kv) = Some el) hs elines /\
    split_crlf out = esl :: elines ++ [[]; []].
Proof. exact lines_exact. Qed.
Print Assumptions C04_lines_exact.

Theorem C04_reason_no_crlf : forall r, reason_ok r = true -> no_crlf r.
Proof. exact reason_ok_no_crlf. Qed.
Print Assumptions C04_reason_no_crlf.

Theorem C04_method_is_token : forall m, method_ok m = true -> safe_header m = true /\ ~ In 32 m.
Proof. exact method_ok_safe. Qed.
Print Assumptions C04_method_is_token.

(* non-vacuity: a concrete message with a non-ASCII value passes and yields three lines *)
Example C04_example :
  serialize_headers [72; 84; 84; 80] [([65], [233; 9; 66]); ([66], [])] =
  Some [72; 84; 84; 80; 13; 10; 65; 58; 32; 195; 169; 9; 66; 13; 10; 66; 58; 32; 13; 10; 13; 10].
Proof. vm_compute. reflexivity. Qed.
Print Assumptions C04_example.
