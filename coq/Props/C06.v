(* C06 — Client connection reuse never mixes responses.
   Only statements; each closed by `exact` of a lemma proved in Proofs/ClientConn*.v (or by vm_compute
   for witnesses).  Model/ClientConn.v is an LTS over the atomic stretches of the client code
   (connect, set_response_params, head read, body read, release/close, one token of a data_received
   call, connection_lost); `run cf init tr` is the state after the event list `tr`, for EVERY event
   list (any number of connections, exchanges, reads, any interleaving the atomicity of data_received
   allows).  s_log lists what callers were given, each item with the ghost tag of the exchange that
   held the connection when those bytes arrived (TIdle: nobody).  `faithful` is the code as it is,
   `repaired` a variant whose _get also refuses a pooled connection with leftovers.  The decision
   functions (should_close, _release, _get, connection_key ...) come from Generated/ClientConnGen.v. *)
From AV Require Import Lib.Base Generated.ClientConnGen Model.ClientConn
  Proofs.ClientConnBase Proofs.ClientConnStruct Proofs.ClientConnTagsDef Proofs.ClientConnTagsB
  Proofs.ClientConnReuse Proofs.ClientConnWitness.
Open Scope N_scope.

(* ---- no mixing ------------------------------------------------------------------------------ *)

(* Full statement `forall tr s, run faithful init tr = Some s -> no_mix s`: REFUTED by the faithful model.
   W1 — a complete response that arrives while the connection idles in the pool is parsed by the old
   parser into the protocol's queue; BaseConnector._get checks only is_connected() and age; the next
   request on that connection is answered with it (and every later response shifts by one).  Replayed
   on the implementation: corpus/C06/idle_unsolicited.json (known finding C06-stale-response-from-pool). *)
Theorem C06_no_mix_refuted_idle : exists s,
  run faithful init tr_idle_unsolicited = Some s /\
  exists d, In d (s_log s) /\ d_tag d <> TFlight (d_e d).
Proof. exact w_idle_unsolicited. Qed.
Print Assumptions C06_no_mix_refuted_idle.

(* W2 — same defect, other timing: the surplus response follows the end of the body in the same read.
   The caller already holds the response, so the end-of-body callback releases the connection to the
   pool in the middle of that data_received call; the rest of the read is queued on a pooled
   connection.  Replayed: corpus/C06/same_read_surplus.json (same known finding). *)
Theorem C06_no_mix_refuted_same_read : exists s,
  run faithful init tr_same_read_surplus = Some s /\
  exists d, In d (s_log s) /\ d_tag d <> TFlight (d_e d).
Proof. exact w_same_read_surplus. Qed.
Print Assumptions C06_no_mix_refuted_same_read.

(* What holds instead, for ALL traces: if no token was ever handled on a connection that no exchange
   was holding (s_idle_parsed = false: the peer sends nothing while the connection idles in the pool and
   nothing after the end of a response in the read that completes it), then everything every caller
   was given — heads and body bytes — arrived while that caller's own exchange held the connection.
   Surplus that is parsed *before* the release (same read as the head, earlier reads), early bytes on a
   fresh connection, truncated bodies, peer close at any point, garbage, cancellations and upgrades are
   all inside the quantifier.  Missing for the full statement: a check of protocol.should_close (and
   of the parser's line buffer) in BaseConnector._get — see C06_repaired_refuses_stale. *)
Theorem C06_no_mix_partial : forall cf tr s,
  run cf init tr = Some s -> s_idle_parsed s = false ->
  forall d, In d (s_log s) -> d_tag d = TFlight (d_e d).
Proof. exact no_mix_quiet. Qed.
Print Assumptions C06_no_mix_partial.

(* non-vacuity: a session with three requests, two of them sharing one connection and a third one to
   another port, satisfies the hypothesis and delivers five items *)
Example C06_no_mix_partial_example : exists s,
  run faithful init tr_good = Some s /\
  s_idle_parsed s = false /\ s_tail_surplus s = false /\ s_nconn s = 2 /\
  length (s_log s) = 5%nat /\ forallb well_taggedb (s_log s) = true /\
  c_phase (s_conn s 0) = PIdle /\ c_phase (s_conn s 1) = PClosed.
Proof. exact w_good. Qed.
Print Assumptions C06_no_mix_partial_example.

(* the repaired _get closes the stale connection of W1 and opens a new one *)
Example C06_repaired_refuses_stale : exists s,
  run repaired init (tr_exchange1 ++ [ESegBegin 0; ETok (KHead 2 0 false false); ESegEnd; EConnect 2 rqA]) = Some s /\
  s_nconn s = 2 /\ c_phase (s_conn s 0) = PClosed.
Proof. exact w_idle_unsolicited_repaired. Qed.
Print Assumptions C06_repaired_refuses_stale.

(* ---- which connections are reused ----------------------------------------------------------- *)

(* Full, for ALL traces: a connection handed to a request by reuse was created for a request with the
   same seven key properties — host, port, TLS scheme, ssl setting, proxy, proxy-headers hash,
   server_hostname (key_of_req is ClientRequest.connection_key as translated from the source). *)
Theorem C06_same_key : forall cf tr s e r s',
  run cf init tr = Some s -> step cf s (EConnect e r) = Some s' ->
  x_conn (s_x s' e) < s_nconn s ->
  c_rq (s_conn s (x_conn (s_x s' e))) = r.
Proof. exact same_key. Qed.
Print Assumptions C06_same_key.

Example C06_same_key_example : exists s s',
  run faithful init tr_exchange1 = Some s /\ step faithful s (EConnect 2 rqA) = Some s' /\
  x_conn (s_x s' 2) = 0 /\ s_nconn s = 1 /\
  (exists s'', step faithful s (EConnect 2 rqB) = Some s'' /\ x_conn (s_x s'' 2) = 1).
Proof.
  eexists. eexists. split; [vm_compute; reflexivity|]. split; [vm_compute; reflexivity|].
  split; [vm_compute; reflexivity|]. split; [vm_compute; reflexivity|].
  eexists. split; vm_compute; reflexivity.
Qed.
Print Assumptions C06_same_key_example.

(* Full, for ALL traces: a reused connection was sitting in the pool — put there by _release, hence not
   closed by our side: every close()/cancel/timeout/failed read and every release with should_close set
   ends in PClosed, which is never pooled — and is still connected (not closed by the peer, no parse
   error closed its transport). *)
Theorem C06_reuse_only_idle_connected : forall cf tr s e r s',
  run cf init tr = Some s -> step cf s (EConnect e r) = Some s' ->
  x_conn (s_x s' e) < s_nconn s ->
  In (x_conn (s_x s' e)) (s_pool s) /\
  c_phase (s_conn s (x_conn (s_x s' e))) = PIdle /\ c_conn (s_conn s (x_conn (s_x s' e))) = true.
Proof. exact reuse_only_idle_connected. Qed.
Print Assumptions C06_reuse_only_idle_connected.

(* Full, for EVERY state: _release pools a connection only if it was not told to close, the connector
   does not force-close, and the protocol reports: no close announced, last payload complete, not
   upgraded, no exception, response queue empty, raw tail empty (the should_close disjunction as
   translated from the source — dropping a disjunct there breaks this proof). *)
Theorem C06_release_pools_only_clean : forall cf s c arg e,
  c_phase (s_conn s c) = PFlight e ->
  c_phase (s_conn (release_conn cf s c arg) c) = PIdle ->
  arg = false /\ cfg_force cf = false /\
  c_sc (s_conn s c) = false /\ pay_open s (s_conn s c) = false /\ c_upg (s_conn s c) = false /\
  c_exc (s_conn s c) = 0 /\ c_buf (s_conn s c) = [] /\ c_htail (s_conn s c) = [].
Proof. exact release_pools_only_clean. Qed.
Print Assumptions C06_release_pools_only_clean.

(* Partial, for ALL traces: under the same quietness hypothesis as C06_no_mix_partial every pooled
   connection stays clean — empty response queue, empty raw tail, parser at a message boundary — so a
   later request cannot be answered from leftovers. *)
Theorem C06_pooled_clean_partial : forall cf tr s c,
  run cf init tr = Some s -> s_idle_parsed s = false -> In c (s_pool s) ->
  c_buf (s_conn s c) = [] /\ c_htail (s_conn s c) = [] /\ c_pst (s_conn s c) = PSHead.
Proof. exact quiet_pool_clean. Qed.
Print Assumptions C06_pooled_clean_partial.

(* The property's own clause "a connection that received bytes beyond the end of a response is not
   reused" (ghost c_dirty, defined without reference to the implementation's flags): REFUTED even in a
   quiet run.  W3 — an incomplete line after a complete response stays in the parser's line buffer,
   which should_close does not look at; the connection is pooled and handed out again (the bytes are
   dropped with the old parser, not delivered).  Replayed: corpus/C06/partial_surplus_reused.json
   (known finding C06-partial-surplus-reused).  A general `dirty => never reused` theorem for quiet
   runs without parser leftovers is not proved (it needs an invariant tying c_prog to the queue). *)
Theorem C06_not_reused_if_dirty_refuted : exists s,
  run faithful init tr_partial_surplus = Some s /\
  c_phase (s_conn s 0) = PFlight 2 /\ c_dirty (s_conn s 0) = true /\ s_idle_parsed s = false.
Proof. exact w_partial_surplus. Qed.
Print Assumptions C06_not_reused_if_dirty_refuted.
