(* C06 — Client connection reuse never mixes responses.
   Only statements; each closed by `exact` of a lemma proved in Proofs/ClientConn*.v (or by vm_compute
   for witnesses).  Model/ClientConn.v is an LTS over the atomic stretches of the client code
   (connect, set_response_params, head read, body read, release/close, one token of a data_received
   call, connection_lost); `run cf init tr` is the state after the event list `tr`, for EVERY event
   list (any number of connections, exchanges, reads, any interleaving the atomicity of data_received
   allows).  s_log lists what callers were given, each item with the ghost tag of the exchange that
   held the connection when those bytes arrived (TIdle: nobody).  `faithful` is the code as it is
   (`repaired` additionally checks the parser's state in _get; no longer needed).  The decision
   functions (should_close, _release, _get, connection_key ...) come from Generated/ClientConnGen.v. *)
From AV Require Import Lib.Base Generated.ClientConnGen Model.ClientConn
  Proofs.ClientConnBase Proofs.ClientConnStruct Proofs.ClientConnTagsDef Proofs.ClientConnTagsB
  Proofs.ClientConnReuse Proofs.ClientConnHeads Proofs.ClientConnBody Proofs.ClientConnWitness.
Open Scope N_scope.

(* ---- no mixing ------------------------------------------------------------------------------ *)

(* History: until /repo d13503d the full statement was REFUTED by two witnesses (a response parsed while its
   connection sat in the pool was delivered to the next request).  With BaseConnector._get asking
   ResponseHandler.is_reusable() the same traces now end differently; they stay here as regression examples.
   W1 - an unsolicited response arrives while the connection idles in the pool: the connection is refused and
   closed by _get, the request runs on a fresh one and every delivery is well tagged (although the quietness
   quietness hypothesis of C06_pooled_clean_partial is violated).  corpus/C06/fixed-idle_unsolicited.json. *)
Example C06_idle_unsolicited_fixed : exists s,
  run faithful init tr_idle_unsolicited = Some s /\
  s_idle_parsed s = true /\ s_nconn s = 2 /\ c_phase (s_conn s 0) = PClosed /\
  length (s_log s) = 3%nat /\ forallb well_taggedb (s_log s) = true.
Proof. exact w_idle_unsolicited. Qed.
Print Assumptions C06_idle_unsolicited_fixed.

(* W2 - the surplus response follows the end of the body in the same read (the connection is released to the
   pool in the middle of that data_received call).  corpus/C06/fixed-same_read_surplus.json. *)
Example C06_same_read_surplus_fixed : exists s,
  run faithful init tr_same_read_surplus = Some s /\
  s_idle_parsed s = true /\ s_nconn s = 2 /\ c_phase (s_conn s 0) = PClosed /\
  length (s_log s) = 2%nat /\ forallb well_taggedb (s_log s) = true.
Proof. exact w_same_read_surplus. Qed.
Print Assumptions C06_same_read_surplus_fixed.

(* FULL, for ALL traces and every peer behaviour (new with d13503d; refuted before it): everything every caller is
   given - response heads and body bytes - arrived while that caller's own exchange held the connection.  Bytes
   that arrive while the connection is pooled, after the end of a response in the same read (the connection is
   released in the middle of that data_received call), before the first request on a fresh connection, surplus
   heads, incomplete lines, garbage, truncated bodies, peer close at any point, cancellations, early releases and
   upgrades are all inside the quantifier; no hypothesis on the peer or on timing. *)
Theorem C06_no_mix : forall cf tr s,
  run cf init tr = Some s -> forall d, In d (s_log s) -> d_tag d = TFlight (d_e d).
Proof. exact no_mix_all. Qed.
Print Assumptions C06_no_mix.

(* the same for heads only, by a much smaller invariant (kept as an independent cross-check) *)
Theorem C06_no_stale_head : forall cf tr s,
  run cf init tr = Some s ->
  forall d, In d (s_log s) -> d_head d = true -> d_tag d = TFlight (d_e d).
Proof. exact no_stale_head. Qed.
Print Assumptions C06_no_stale_head.

(* non-vacuity: a session with three requests, two of them sharing one connection and a third one to
   another port, delivers five items *)
Example C06_no_mix_example : exists s,
  run faithful init tr_good = Some s /\
  s_idle_parsed s = false /\ s_tail_surplus s = false /\ s_nconn s = 2 /\
  length (s_log s) = 5%nat /\ forallb well_taggedb (s_log s) = true /\
  c_phase (s_conn s 0) = PIdle /\ c_phase (s_conn s 1) = PClosed.
Proof. exact w_good. Qed.
Print Assumptions C06_no_mix_example.

(* ---- which connections are reused ----------------------------------------------------------- *)

(* Full, for ALL traces: a connection handed to a request by reuse was created for a request with the
   same seven key properties — host, port, TLS scheme, ssl setting, proxy, proxy-headers hash,
   server_hostname (key_of_req is ClientRequest.connection_key as translated from the source). *)
Theorem C06_same_key : forall cf tr s e r s',
  run cf init tr = Some s -> step cf s (EConnect e r) = Some s' ->
  x_conn (s_x s' e) < s_nconn s ->
  c_rq (s_conn s (x_conn (s_x s' e))) = r.
Proof. exact same_key. Qed.
Print Assumptions C06_same_key.

Example C06_same_key_example : exists s s',
  run faithful init tr_exchange1 = Some s /\ step faithful s (EConnect 2 rqA) = Some s' /\
  x_conn (s_x s' 2) = 0 /\ s_nconn s = 1 /\
  (exists s'', step faithful s (EConnect 2 rqB) = Some s'' /\ x_conn (s_x s'' 2) = 1).
Proof.
  eexists. eexists. split; [vm_compute; reflexivity|]. split; [vm_compute; reflexivity|].
  split; [vm_compute; reflexivity|]. split; [vm_compute; reflexivity|].
  eexists. split; vm_compute; reflexivity.
Qed.
Print Assumptions C06_same_key_example.

(* Full, for ALL traces: a reused connection was sitting in the pool — put there by _release, hence not
   closed by our side: every close()/cancel/timeout/failed read and every release with should_close set
   ends in PClosed, which is never pooled — and is still connected (not closed by the peer, no parse
   error closed its transport). *)
Theorem C06_reuse_only_idle_connected : forall cf tr s e r s',
  run cf init tr = Some s -> step cf s (EConnect e r) = Some s' ->
  x_conn (s_x s' e) < s_nconn s ->
  In (x_conn (s_x s' e)) (s_pool s) /\
  c_phase (s_conn s (x_conn (s_x s' e))) = PIdle /\ c_conn (s_conn s (x_conn (s_x s' e))) = true.
Proof. exact reuse_only_idle_connected. Qed.
Print Assumptions C06_reuse_only_idle_connected.

(* Full, for EVERY state: _release pools a connection only if it was not told to close, the connector
   does not force-close, and the protocol reports: no close announced, last payload complete, not
   upgraded, no exception, response queue empty, raw tail empty (the should_close disjunction as
   translated from the source — dropping a disjunct there breaks this proof). *)
Theorem C06_release_pools_only_clean : forall cf s c arg e,
  c_phase (s_conn s c) = PFlight e ->
  c_phase (s_conn (release_conn cf s c arg) c) = PIdle ->
  arg = false /\ cfg_force cf = false /\
  c_sc (s_conn s c) = false /\ pay_open s (s_conn s c) = false /\ c_upg (s_conn s c) = false /\
  c_exc (s_conn s c) = 0 /\ c_buf (s_conn s c) = [] /\ c_htail (s_conn s c) = [].
Proof. exact release_pools_only_clean. Qed.
Print Assumptions C06_release_pools_only_clean.

(* Conditional by nature (named _partial for that reason): a peer that talks while the connection is pooled does
   dirty it - what the property needs is that such a connection is not handed out, which is C06_reuse_only_clean.
   Under the quietness hypothesis (s_idle_parsed = false: no token was ever handled on a connection that no
   exchange held) every pooled connection stays clean — empty response queue, empty raw tail, parser at a message boundary — so a
   later request cannot be answered from leftovers. *)
Theorem C06_pooled_clean_partial : forall cf tr s c,
  run cf init tr = Some s -> s_idle_parsed s = false -> In c (s_pool s) ->
  c_buf (s_conn s c) = [] /\ c_htail (s_conn s c) = [] /\ c_pst (s_conn s c) = PSHead.
Proof. exact quiet_pool_clean. Qed.
Print Assumptions C06_pooled_clean_partial.

(* Full, for ALL traces (new with d13503d + 2b34708): at the moment a pooled connection is handed out again
   the protocol's should_close is false: no close announced, last payload complete, not upgraded, no exception,
   response queue empty, raw tail empty, no incomplete line / head block in the parser's buffer - whatever the
   peer sent while the connection was pooled or after the end of the last response. *)
Theorem C06_reuse_only_clean : forall cf tr s e r s',
  run cf init tr = Some s -> step cf s (EConnect e r) = Some s' ->
  x_conn (s_x s' e) < s_nconn s ->
  let cn := s_conn s (x_conn (s_x s' e)) in
  c_sc cn = false /\ pay_open s cn = false /\ c_upg cn = false /\ c_exc cn = 0 /\
  c_buf cn = [] /\ c_htail cn = [] /\ (c_parser cn && c_ptail cn) = false.
Proof. exact reuse_only_clean. Qed.
Print Assumptions C06_reuse_only_clean.

(* History: until 2b34708 "bytes beyond the end of a response => not reused" was REFUTED (W3: an incomplete
   line after a complete response stayed in the parser's line buffer, invisible to should_close).  Now the
   connection is closed at release (W3) or refused by _get when the bytes arrive while it is pooled (W4).
   corpus/C06/fixed-partial_surplus_reused.json.  The ghost-level statement "dirty by the property's own
   list => never reused" is still not proved in general; its implementation-level form is C06_reuse_only_clean. *)
Example C06_partial_surplus_fixed : exists s,
  run faithful init tr_partial_surplus = Some s /\
  s_nconn s = 2 /\ c_phase (s_conn s 0) = PClosed /\ c_dirty (s_conn s 0) = true /\ s_idle_parsed s = false.
Proof. exact w_partial_surplus. Qed.
Print Assumptions C06_partial_surplus_fixed.

Example C06_partial_idle_fixed : exists s,
  run faithful init tr_partial_idle = Some s /\ s_nconn s = 2 /\ c_phase (s_conn s 0) = PClosed.
Proof. exact w_partial_idle. Qed.
Print Assumptions C06_partial_idle_fixed.
