(* C06 — Client connection reuse never mixes responses.
   Only statements; each closed by `exact` of a lemma proved in Proofs/ClientConn*.v (or by vm_compute
   for witnesses).  Model/ClientConn.v is an LTS over the atomic stretches of the client code
   (connect, set_response_params, head read, body read, release/close, one token of a data_received
   call, connection_lost); `run cf init tr` is the state after the event list `tr`; s_log lists what
   callers were given together with the ghost tag of the exchange that owned the connection when
   those bytes arrived. *)
From AV Require Import Lib.Base Generated.ClientConnGen Model.ClientConn Proofs.ClientConnWitness.
Open Scope N_scope.

(* Full statement `forall tr s, run faithful init tr = Some s -> no_mix s`: REFUTED by the faithful model.
   W1 — a complete response that arrives while the connection idles in the pool is parsed by the old
   parser into the protocol's queue; _get checks only is_connected() and age; the next request on
   that connection is answered with it.  Replayed on the implementation:
   corpus/C06/idle_unsolicited.json (known finding C06-stale-response-from-pool). *)
Theorem C06_no_mix_refuted_idle : exists s,
  run faithful init tr_idle_unsolicited = Some s /\
  exists d, In d (s_log s) /\ d_tag d <> TFlight (d_e d).
Proof. exact w_idle_unsolicited. Qed.
Print Assumptions C06_no_mix_refuted_idle.
