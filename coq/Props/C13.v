(* C13 — WebSocket sessions close cleanly in every interleaving.
   Only statements; each closed by `exact` of a lemma proved in Proofs/WsSession*.v.

   `reach c s`: s is reachable from the initial session state of configuration c (side, autoclose, autoping,
   heartbeat, close timeout, receive timeout) by any sequence of events: application calls (receive, close,
   send/ping/pong) from up to four tasks, peer frames (text, ping, pong, close, malformed) delivered now or as a
   queued I/O callback, connection loss, task cancellation, clock advances (due timers are queued in deadline
   order) and the event loop running its next ready callback (FIFO) — Model/WsSession.v.
   `finished c s`: the session is closed and no task is still inside close().
   `peer_closes s`: the codes of the close frames the peer's protocol handed to the reader (ghost). *)
From Coq Require Import List NArith Bool Arith.
Import ListNotations.
From AV Require Import Generated.WsSessionGen Model.WsSession Proofs.WsSessionWire Proofs.WsSessionTransport
  Proofs.WsSessionWitness Proofs.WsSessionProgress.
Open Scope N_scope.

(* ---- at most one close frame: both sides, all interleavings of the model ----------------------------- *)
Theorem C13_one_close_frame : forall c s, reach c s -> (count_close (sent s) <= 1)%nat.
Proof. exact one_close_frame. Qed.
Print Assumptions C13_one_close_frame.

(* ---- no data frame after the close frame --------------------------------------------------------------
   PARTIAL.  The model has no write-side flow control: `protocol._drain_helper()` never suspends, so
   WebSocketWriter.close() sets `_closing` and writes the close frame in one step; under that assumption the
   statement holds in every reachable state of both sides.  What is missing for the full statement: a model in
   which send_frame can be suspended in its drain after the write (a pause/resume event and a suspension point in
   every sender), with Inv_wire re-proved over it.  The ingredient that makes the argument go through there is
   proved below for ANY state (C13_data_refused_once_writer_closing + C13_writer_close_sets_flag_first): since fix
   4859fa3 the flag is set before the close frame is written, so at every point where close() can be suspended the
   writer already refuses data frames.  (Before the fix the flag was set in a `finally` after the drain and the
   implementation wrote `C1000, T` under back-pressure: corpus/C13/server_data_after_close_under_backpressure.json,
   now a passing regression case of the implementation-only back-pressure suite.) *)
Theorem C13_no_data_after_close_partial : forall c s, reach c s ->
  forall l1 code l2, sent s = l1 ++ FClose code :: l2 -> ~ In FText l2.
Proof. exact (fun c s H => ok_sent_spec _ (no_data_after_close c s H)). Qed.
Print Assumptions C13_no_data_after_close_partial.

Theorem C13_data_refused_once_writer_closing : forall s, w_closing s = true -> send_frame s FText = (s, true).
Proof. exact data_refused_when_closing. Qed.
Print Assumptions C13_data_refused_once_writer_closing.

Theorem C13_writer_close_sets_flag_first : forall s code,
  writer_close s code = send_frame (set_w_closing s true) (FClose code).
Proof. exact writer_close_flag_first. Qed.
Print Assumptions C13_writer_close_sets_flag_first.

(* ---- the transport is closed once the session is closed: FULL, both sides, all interleavings --------------
   (Refuted before fix 6837d66: the server's close() cancelled at `await self._close_wait` left the transport open;
   that history is now corpus/C13/fixed_server_cancelled_close_at_close_wait.json and the example below.) *)
Theorem C13_closed_implies_transport_closed : forall c s,
  reach c s -> finished c s -> tr_closing s = true.
Proof. exact transport_closed_full. Qed.
Print Assumptions C13_closed_implies_transport_closed.

Example C13_example_server_cancelled_close :
  exists s, reach cfgS s /\ finished cfgS s /\ ready s = [] /\ tr_closing s = true /\
            close_code s = Some ws_close_abnormal /\ t_pc (tasks s 1) = PDone XCancelled.
Proof. exact witness_server_cancelled_close. Qed.
Print Assumptions C13_example_server_cancelled_close.

(* ---- the reported close code ------------------------------------------------------------------------
   Statement: in a finished session close_code is 1006 or a code the peer sent in a close frame.
   Status: NOT PROVED as a theorem over all interleavings.  The four refutations of the earlier tree are gone
   (fixes ee50231, 2731c52, 0ea8ce0): their histories are now regression corpus cases (corpus/C13/fixed_*.json)
   and the examples below show the model ending them with the peer's code / 1006; the implementation oracle
   checks the statement on every generated history and finds no violation.  What is missing for the theorem: an
   invariant that a receive() woken without a message (EofStream with the queue not at EOF) implies that another
   task has closed the session — the provisional `self._close_code = OK` of receive()'s EofStream handler is
   harmless only because of that, and it relates the queue contents to the program counters of all tasks. *)
Example C13_example_server_close_vs_receive_waits :
  exists s, reach cfgS s /\ finished cfgS s /\ tr_closing s = true /\ sent s = [FClose 1001] /\
            peer_closes s = [4001] /\ close_code s = Some 4001 /\ t_pc (tasks s 0) = PDone (RMsg MClosing) /\
            t_pc (tasks s 1) = PDone (RBool true).
Proof. exact witness_server_close_vs_receive_waits. Qed.
Print Assumptions C13_example_server_close_vs_receive_waits.

Example C13_example_server_close_vs_receive_timeout :
  exists s, reach cfgS s /\ finished cfgS s /\ tr_closing s = true /\ peer_closes s = [] /\
            close_code s = Some ws_close_abnormal.
Proof. exact witness_server_close_vs_receive_timeout. Qed.
Print Assumptions C13_example_server_close_vs_receive_timeout.

Example C13_example_server_close_racing_eof :
  exists s, reach cfgS s /\ finished cfgS s /\ lost s = true /\ peer_closes s = [] /\ sent s = [] /\
            close_code s = Some ws_close_abnormal.
Proof. exact witness_server_close_racing_eof. Qed.
Print Assumptions C13_example_server_close_racing_eof.

Example C13_example_client_protocol_error :
  exists s, reach cfgC s /\ finished cfgC s /\ tr_closing s = true /\ sent s = [FClose ws_close_protocol_error] /\
            peer_closes s = [] /\ close_code s = Some ws_close_abnormal.
Proof. exact witness_client_protocol_error. Qed.
Print Assumptions C13_example_client_protocol_error.

Example C13_example_client_two_closes_keep_peer_code :
  exists s, reach cfgC s /\ finished cfgC s /\ tr_closing s = true /\ sent s = [FClose 1001] /\
            peer_closes s = [3000] /\ close_code s = Some 3000.
Proof. exact witness_client_two_closes_keep_peer_code. Qed.
Print Assumptions C13_example_client_two_closes_keep_peer_code.

Example C13_example_client_receive_takes_peer_close :
  exists s, reach cfgC s /\ finished cfgC s /\ tr_closing s = true /\ peer_closes s = [3000] /\ close_code s = Some 3000 /\
            t_pc (tasks s 0) = PDone (RMsg (MClose 3000)).
Proof. exact witness_client_receive_takes_peer_close. Qed.
Print Assumptions C13_example_client_receive_takes_peer_close.

(* ---- close() returns within the close timeout (bounded progress under timer fairness) -----------------
   (1) Invariant, both sides, all interleavings: while close() waits for the peer's close frame its timeout is
       armed with a deadline at most one close timeout ahead of the current time — or it has already fired and the
       wake-up is pending. *)
Theorem C13_close_timer_armed : forall c s t k,
  reach c s -> t_pc (tasks s t) = PCloseRead k ->
  (exists d, t_tmo (tasks s t) = Some d /\ d <= now s + c_close_tmo c) \/
  (t_expired (tasks s t) = true /\ t_fut (tasks s t) <> None).
Proof. exact close_timer_armed. Qed.
Print Assumptions C13_close_timer_armed.

(* (2) when the clock reaches the deadline the timer callback is in the ready queue (for any state) *)
Theorem C13_close_timer_queued_at_deadline : forall s t d dt,
  (t < ntasks)%nat -> t_tmo (tasks s t) = Some d -> d <= now s + dt ->
  In (RTimer (TTask t)) (ready (advance s dt)).
Proof. exact deadline_queues_timer. Qed.
Print Assumptions C13_close_timer_queued_at_deadline.

(* (3) running it marks the task expired and queues its wake-up *)
Theorem C13_close_timer_fires : forall c s t d,
  t_tmo (tasks s t) = Some d -> d <= now s -> t_fut (tasks s t) = None ->
  let s' := run_timer c s (TTask t) in
  t_expired (tasks s' t) = true /\ t_fut (tasks s' t) = Some FCancelled /\ t_pc (tasks s' t) = t_pc (tasks s t) /\
  In (RWake t) (ready s').
Proof. exact timer_fires_queues_wake. Qed.
Print Assumptions C13_close_timer_fires.

(* (4) and that wake-up (after expiry or cancellation) ends close() in one step: it returns or raises *)
Theorem C13_close_returns_after_expiry : forall c s t k fr,
  t_pc (tasks s t) = PCloseRead k -> t_fut (tasks s t) = Some fr ->
  (t_expired (tasks s t) = true \/ t_cancel (tasks s t) = true) ->
  exists r, t_pc (tasks (run_wake c s t) t) = PDone r.
Proof. exact expired_wake_ends_close. Qed.
Print Assumptions C13_close_returns_after_expiry.

(* (5) a wake-up by a message that is not the peer's close frame ends close() or re-suspends it under the SAME
   deadline, so the whole wait is bounded by one close timeout — on the server and (since fix 7b896a4, one
   `async_timeout.timeout(ws_close)` around the whole read loop) on the client. *)
Theorem C13_close_deadline_kept_server : forall c s t k d,
  c_side c = Server ->
  t_pc (tasks s t) = PCloseRead k -> t_fut (tasks s t) = Some FOk -> t_tmo (tasks s t) = Some d ->
  t_expired (tasks s t) = false -> t_cancel (tasks s t) = false ->
  let s' := run_wake c s t in
  (exists r, t_pc (tasks s' t) = PDone r) \/ (t_pc (tasks s' t) = PCloseRead k /\ t_tmo (tasks s' t) = Some d).
Proof. exact (fun c s t k d _ => wake_keeps_deadline c s t k d). Qed.
Print Assumptions C13_close_deadline_kept_server.

Theorem C13_close_deadline_kept_client : forall c s t k d,
  c_side c = Client ->
  t_pc (tasks s t) = PCloseRead k -> t_fut (tasks s t) = Some FOk -> t_tmo (tasks s t) = Some d ->
  t_expired (tasks s t) = false -> t_cancel (tasks s t) = false ->
  let s' := run_wake c s t in
  (exists r, t_pc (tasks s' t) = PDone r) \/ (t_pc (tasks s' t) = PCloseRead k /\ t_tmo (tasks s' t) = Some d).
Proof. exact (fun c s t k d _ => wake_keeps_deadline c s t k d). Qed.
Print Assumptions C13_close_deadline_kept_client.

(* the former counterexample history (corpus/C13/client_close_timeout_restarts.json): close() at time 0 with timeout
   9, a text frame at time 8; by time 16 close() has returned with 1006 on both sides *)
Example C13_close_deadline_kept_client_example :
  exists s, reach cfgC s /\ now s = now (init cfgC) + 16 /\ c_close_tmo cfgC = 9 /\
            t_pc (tasks s 0) = PDone (RBool true) /\ close_code s = Some ws_close_abnormal /\ tr_closing s = true.
Proof. exact witness_client_deadline_kept. Qed.
Print Assumptions C13_close_deadline_kept_client_example.

Example C13_close_deadline_kept_server_example :
  exists s, reach cfgS s /\ now s = now (init cfgS) + 16 /\
            t_pc (tasks s 0) = PDone (RBool true) /\ close_code s = Some ws_close_abnormal /\ tr_closing s = true.
Proof. exact witness_server_deadline_kept. Qed.
Print Assumptions C13_close_deadline_kept_server_example.

Example C13_example_blocked_close :
  exists s, reach cfgS s /\ t_pc (tasks s 0) = PCloseRead KTop /\ t_fut (tasks s 0) = None /\
            t_tmo (tasks s 0) = Some (now s + 9) /\ t_expired (tasks s 0) = false /\ t_cancel (tasks s 0) = false.
Proof. exact witness_blocked_close. Qed.
Print Assumptions C13_example_blocked_close.

(* ---- receive() never blocks forever: every terminating event wakes a blocked receive() -------------------
   `woken s' r`: the future task r is suspended on is completed and its wake-up is in the ready queue.
   PARTIAL: each statement assumes that the blocked receive() is the reader queue's registered waiter
   (q_waiter s = Some r).  Missing: the invariant "a blocked receive() whose future is pending is registered".
   It is not a theorem of the faithful model in full generality: WebSocketDataQueue.read() executes
   `self._waiter = None` when it is cancelled, whoever is registered, so with three tasks (a cancelled receive()
   woken late while a close() of another task is registered) a registration can be wiped; that waiter is then
   woken only by its own timeout (bounded by (1)-(4) for close()). *)
Theorem C13_receive_wakes_on_peer_frame_partial : forall c s p r,
  q_waiter s = Some r -> t_fut (tasks s r) = None ->
  tr_closing s = false -> lost s = false -> proto_close s = false -> rd_exc s = false ->
  woken (deliver c s p) r.
Proof. exact peer_frame_wakes. Qed.
Print Assumptions C13_receive_wakes_on_peer_frame_partial.

Theorem C13_receive_wakes_on_connection_loss_partial : forall c s r,
  q_waiter s = Some r -> t_fut (tasks s r) = None -> lost s = false -> (c_side c = Client -> proto_close s = false) ->
  woken (conn_lost c s) r.
Proof. exact connection_loss_wakes. Qed.
Print Assumptions C13_receive_wakes_on_connection_loss_partial.

Theorem C13_receive_wakes_on_close_call_partial : forall c s t k code r,
  q_waiter s = Some r -> t_fut (tasks s r) = None -> r <> t -> waiting s = true ->
  match c_side c with
  | Server => closed s = false /\ tr_closing s = false /\ close_wait s = None
  | Client => closing s = false
  end ->
  woken (close_entry c s t k code) r.
Proof. exact close_call_wakes. Qed.
Print Assumptions C13_receive_wakes_on_close_call_partial.

Theorem C13_receive_wakes_on_pong_timeout_partial : forall c s r,
  q_waiter s = Some r -> t_fut (tasks s r) = None -> closed s = false -> waiting s = true -> closing s = false ->
  woken (ping_pong_exc c s) r.
Proof. exact pong_timeout_wakes. Qed.
Print Assumptions C13_receive_wakes_on_pong_timeout_partial.

(* no registration needed for these two: cancellation, and the wake-up of a cancelled / timed-out receive() *)
Theorem C13_receive_wakes_on_cancel : forall s r,
  t_pc (tasks s r) = PRecvWait -> t_fut (tasks s r) = None -> woken (cancel_task s r) r.
Proof. exact cancel_wakes. Qed.
Print Assumptions C13_receive_wakes_on_cancel.

Theorem C13_receive_ends_after_cancel_or_timeout : forall c s r fr,
  t_pc (tasks s r) = PRecvWait -> t_fut (tasks s r) = Some fr ->
  (t_cancel (tasks s r) = true \/ t_expired (tasks s r) = true) ->
  t_pc (tasks (run_wake c s r) r) = PDone (if is_timeout (tasks s r) then XTimeout else XCancelled).
Proof. exact cancelled_wake_ends_receive. Qed.
Print Assumptions C13_receive_ends_after_cancel_or_timeout.

Example C13_example_blocked_receive :
  exists s, reach cfgS s /\ t_pc (tasks s 0) = PRecvWait /\ t_fut (tasks s 0) = None /\ q_waiter s = Some 0%nat /\
            waiting s = true /\ closed s = false /\ closing s = false /\ tr_closing s = false /\ lost s = false /\
            proto_close s = false /\ rd_exc s = false /\ close_wait s = None.
Proof. exact witness_blocked_receive. Qed.
Print Assumptions C13_example_blocked_receive.

(* ---- non-vacuity: clean closing handshakes are reachable finished states ----------------------------- *)
Example C13_example_clean_server :
  exists s, reach cfgS s /\ finished cfgS s /\ tr_closing s = true /\ cw_leak s = false /\
            sent s = [FClose ws_close_ok] /\ close_code s = Some 4001 /\ t_pc (tasks s 0) = PDone (RMsg (MClose 4001)).
Proof. exact witness_clean_server. Qed.
Print Assumptions C13_example_clean_server.

Example C13_example_clean_client :
  exists s, reach cfgC s /\ finished cfgC s /\ tr_closing s = true /\ cw_leak s = false /\
            sent s = [FClose 1000] /\ close_code s = Some 4002 /\ t_pc (tasks s 1) = PDone (RBool true).
Proof. exact witness_clean_client. Qed.
Print Assumptions C13_example_clean_client.

(* the reachable state behind the remark above: a close() blocked in reader.read() whose registration was wiped *)
Example C13_example_registration_wiped :
  exists s, reach cfgC s /\ t_pc (tasks s 2) = PCloseRead KTop /\ t_fut (tasks s 2) = None /\ q_waiter s = None /\ ready s = [].
Proof. exact witness_registration_wiped. Qed.
Print Assumptions C13_example_registration_wiped.
