(* C13 — WebSocket sessions close cleanly in every interleaving.
   Only statements; each closed by `exact` of a lemma proved in Proofs/WsSession*.v.
   `reach c s`: s is reachable from the initial session state by any sequence of events
   (application calls from up to four tasks, peer frames, connection loss, task cancellation, clock
   advances, and the event loop running its next ready callback) — Model/WsSession.v. *)
From Coq Require Import List NArith Bool Arith.
Import ListNotations.
From AV Require Import Generated.WsSessionGen Model.WsSession Proofs.WsSessionWire.
Open Scope N_scope.

(* At most one close frame is ever written, on both sides, in every interleaving. *)
Theorem C13_one_close_frame : forall c s, reach c s -> (count_close (sent s) <= 1)%nat.
Proof. exact one_close_frame. Qed.
Print Assumptions C13_one_close_frame.

(* No data frame follows the close frame. *)
Theorem C13_no_data_after_close : forall c s, reach c s ->
  forall l1 code l2, sent s = l1 ++ FClose code :: l2 -> ~ In FText l2.
Proof. exact (fun c s H => ok_sent_spec _ (no_data_after_close c s H)). Qed.
Print Assumptions C13_no_data_after_close.
