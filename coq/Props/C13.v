(* C13 — WebSocket sessions close cleanly in every interleaving.
   Only statements; each closed by `exact` of a lemma proved in Proofs/WsSession*.v.

   `reach c s`: s is reachable from the initial session state of configuration c (side, autoclose, autoping,
   heartbeat, close timeout, receive timeout) by any sequence of events: application calls (receive, close,
   send/ping/pong) from up to four tasks, peer frames (text, ping, pong, close, malformed) delivered now or as a
   queued I/O callback, connection loss, task cancellation, clock advances (due timers are queued in deadline
   order) and the event loop running its next ready callback (FIFO) — Model/WsSession.v.
   `finished c s`: the session is closed and no task is still inside close().
   `peer_closes s`: the codes of the close frames the peer's protocol handed to the reader (ghost). *)
From Coq Require Import List NArith Bool Arith.
Import ListNotations.
From AV Require Import Generated.WsSessionGen Model.WsSession Proofs.WsSessionWire Proofs.WsSessionTransport
  Proofs.WsSessionWitness.
Open Scope N_scope.

(* ---- at most one close frame, no data frame after it: full, both sides, all interleavings ---------- *)
Theorem C13_one_close_frame : forall c s, reach c s -> (count_close (sent s) <= 1)%nat.
Proof. exact one_close_frame. Qed.
Print Assumptions C13_one_close_frame.

Theorem C13_no_data_after_close : forall c s, reach c s ->
  forall l1 code l2, sent s = l1 ++ FClose code :: l2 -> ~ In FText l2.
Proof. exact (fun c s H => ok_sent_spec _ (no_data_after_close c s H)). Qed.
Print Assumptions C13_no_data_after_close.

(* ---- the transport is closed once the session is closed --------------------------------------------
   Full statement: forall c s, reach c s -> finished c s -> tr_closing s = true.
   Refuted by the faithful server model (replayed on the code: corpus/C13/server_cancelled_close_at_close_wait.json):
   close() cancelled at `await self._close_wait` leaves _closed = True with the transport open. *)
Theorem C13_closed_implies_transport_closed_refuted :
  ~ (forall c s, reach c s -> finished c s -> tr_closing s = true).
Proof. exact transport_closed_refuted. Qed.
Print Assumptions C13_closed_implies_transport_closed_refuted.

(* Proved in its place, for every reachable state of both sides: unless that cancellation happened (ghost flag
   cw_leak, set only on that server path), closed + no close() in progress implies transport closed.
   Missing for the full statement: the server's `await self._close_wait` would have to sit inside the try. *)
Theorem C13_closed_implies_transport_closed_partial : forall c s,
  reach c s -> finished c s -> cw_leak s = false -> tr_closing s = true.
Proof. exact transport_closed_partial. Qed.
Print Assumptions C13_closed_implies_transport_closed_partial.

(* ---- the reported close code ------------------------------------------------------------------------
   Full statement: in a finished session close_code is 1006 or a code the peer sent in a close frame.
   Refuted on the server (close() racing a blocked receive(): 1000 with no peer close frame;
   corpus/C13/server_close_while_receive_blocked.json, server_close_racing_eof.json) and on the client
   (malformed frame: the protocol-error code we sent is reported; corpus/C13/client_protocol_error_code.json). *)
Theorem C13_close_code_refuted :
  ~ (forall c s, reach c s -> finished c s ->
       close_code s = Some ws_close_abnormal \/ exists x, close_code s = Some x /\ In x (peer_closes s)).
Proof. exact close_code_refuted. Qed.
Print Assumptions C13_close_code_refuted.

Theorem C13_close_code_refuted_client :
  ~ (forall s, reach cfgC s -> finished cfgC s ->
       close_code s = Some ws_close_abnormal \/ exists x, close_code s = Some x /\ In x (peer_closes s)).
Proof. exact close_code_refuted_client. Qed.
Print Assumptions C13_close_code_refuted_client.

(* the two server witnesses, spelled out *)
Example C13_witness_server_close_vs_receive :
  exists s, reach cfgS s /\ finished cfgS s /\ tr_closing s = true /\ peer_closes s = [] /\ close_code s = Some ws_close_ok.
Proof. exact witness_server_code_1000. Qed.
Print Assumptions C13_witness_server_close_vs_receive.

Example C13_witness_server_close_racing_eof :
  exists s, reach cfgS s /\ finished cfgS s /\ lost s = true /\ peer_closes s = [] /\ sent s = [] /\
            close_code s = Some ws_close_ok.
Proof. exact witness_server_eof_code_1000. Qed.
Print Assumptions C13_witness_server_close_racing_eof.

(* ---- close() returns within the close timeout ---------------------------------------------------------
   Client: the deadline is re-armed for every message read while waiting for the peer's close frame
   (corpus/C13/client_close_timeout_restarts.json): close() called at time 0 with timeout 9 is still blocked at
   time 16, its deadline now 17.  The server keeps one deadline. *)
Example C13_close_deadline_extended_client :
  exists s, reach cfgC s /\ now s = now (init cfgC) + 16 /\ c_close_tmo cfgC = 9 /\
            t_pc (tasks s 0) = PCloseRead KTop /\ t_tmo (tasks s 0) = Some (now (init cfgC) + 17) /\ ready s = [].
Proof. exact witness_client_deadline_extended. Qed.
Print Assumptions C13_close_deadline_extended_client.

Example C13_close_deadline_kept_server :
  exists s, reach cfgS s /\ now s = now (init cfgS) + 16 /\
            t_pc (tasks s 0) = PDone (RBool true) /\ close_code s = Some ws_close_abnormal /\ tr_closing s = true.
Proof. exact witness_server_deadline_kept. Qed.
Print Assumptions C13_close_deadline_kept_server.

(* ---- non-vacuity: clean closing handshakes are reachable finished states ----------------------------- *)
Example C13_example_clean_server :
  exists s, reach cfgS s /\ finished cfgS s /\ tr_closing s = true /\ cw_leak s = false /\
            sent s = [FClose ws_close_ok] /\ close_code s = Some 4001 /\ t_pc (tasks s 0) = PDone (RMsg (MClose 4001)).
Proof. exact witness_clean_server. Qed.
Print Assumptions C13_example_clean_server.

Example C13_example_clean_client :
  exists s, reach cfgC s /\ finished cfgC s /\ tr_closing s = true /\ cw_leak s = false /\
            sent s = [FClose 1000] /\ close_code s = Some 4002 /\ t_pc (tasks s 1) = PDone (RBool true).
Proof. exact witness_clean_client. Qed.
Print Assumptions C13_example_clean_client.
