(* C03 — HTTP request parsing does not depend on how the byte stream is cut into reads.
   Only statements about Model/Http.v (feed = HttpRequestParser.feed_data, run_segs = a sequence of
   feed_data calls); each is closed by `exact` of a lemma proved in Proofs/HttpSeg*.v.

   Vocabulary (defined in Proofs/HttpSeg.v, Proofs/HttpSegChunk.v):
     wf s            invariant of the parser state between two feed_data calls (C03_wf_spelled)
     tail_ok lim s   the partial chunk-size / trailer line buffered in s - not counting a CR that ends
                     it - is not longer than max_line_size / max_field_size (the re-check the next
                     call makes first)
     prepend lo r    ROk l |-> ROk (lo ++ l); exceptions and oracle questions unchanged
     obs (s, a, r)   (Some s if r is a normal return else None, a, r): after an exception the
                     parser object is discarded, only messages and the exception are observable
     consumed ...    the reads a segmented run consumes (up to and including the first failing one)
     line_end_ok lim s b   tail_ok lim s, or the bytes b that follow contain the end (CRLF) of the
                     partial line buffered in s
     boundaries_ok   line_end_ok holds in every state at a read boundary that is followed by a read
                     (b = the rest of the consumed reads)
     noticed_earlier lim split one   the segmented run `split` ended with LineTooLong raised by the
                     re-check of an over-long buffered partial chunk-size / trailer line whose end
                     has not arrived, while the one-read run `one` of the same bytes, with the same
                     messages, raised TransferEncodingError (bare LF in that line) or returned
                     normally still buffering the over-long line (a state that fails tail_ok)

   Summary.  ACCEPT direction: proved in full, for all limits, oracles, states and streams
   (C03_split_accept, C03_seg_accept, C03_seg_indep_accept): a segmentation whose reads all return
   normally yields exactly the one-read result: same final state, same messages, fields, body
   bytes, chunk boundaries, eof/exception marks, same unconsumed bytes.  Consequently one-read
   rejection implies rejection of every segmentation (C03_seg_oneshot_reject).
   A line of exactly the configured limit is treated alike wherever the read boundaries fall, also
   between its CR and LF (C03_cr_boundary_fixed: the former witnesses of finding
   C03-cr-boundary-line-limit, repaired).
   REJECT direction (a rejected segmentation is rejected in one read): a rejection may be NOTICED
   EARLIER by a segmented run - C03_reject_direction_refuted_bare_lf (a bare LF in a partial line)
   and C03_tail_recheck_noticed_earlier (an over-long partial chunk-size line) - and in both cases
   no continuation of the one-read run is ever accepted (C03_bare_lf_doomed; the over-long buffered
   line fails the re-check of the next call).  In full (no hypothesis on the states
   at the read boundaries): C03_split and C03_seg_consumed_obs - the segmented run is observably
   equal (same exception, same messages) to one read of the bytes consumed so far, or it noticed
   the rejection of an over-long chunk line earlier (noticed_earlier).  With equality:
   C03_seg_consumed_obs_partial (under boundaries_ok) and C03_seg_reject_partial (if moreover the
   failing read fails on a complete line: equal to one read of the whole stream). *)
From AV Require Import Lib.Base Lib.BytesX Generated.HttpGen Model.Http
  Proofs.HttpSegBase Proofs.HttpSegChunk Proofs.HttpSeg Proofs.HttpSegDoom Proofs.HttpSegRej Proofs.HttpSegFull
  Proofs.HttpSegEx.
Open Scope N_scope.

(* ------------------------------------------------------------------ 1. invariant *)
Theorem C03_wf_init : wf init.
Proof. exact wf_init. Qed.
Print Assumptions C03_wf_init.

Theorem C03_wf_feed : forall lim o s d a s1 a1 lo1,
  wf s -> feed lim o s d a = (s1, a1, ROk lo1) -> wf s1.
Proof. exact feed_wf. Qed.
Print Assumptions C03_wf_feed.

Theorem C03_wf_run_segs : forall lim o segs s acc lo s' acc' lo',
  wf s -> run_segs lim o s segs acc lo = (s', acc', ROk lo') -> wf s'.
Proof. exact run_segs_wf. Qed.
Print Assumptions C03_wf_run_segs.

(* what the invariant says *)
Theorem C03_wf_spelled : forall s, wf s ->
  (payload s <> None \/ upgraded s = true -> tail s = []) /\
  forall p, payload s = Some p ->
    match pk p with
    | PLength rem => 0 < rem /\ ctail p = [] /\ tlines p = []
    | PUntilEof => ctail p = [] /\ tlines p = []
    | PChunked (CData rem) => 0 < rem /\ ctail p = []
    | PChunked CDataEnd => ctail p = [] \/ ctail p = [13]
    | PChunked _ => find_crlf (ctail p) = None /\ has_byte 10 (ctail p) = false
    end.
Proof. exact wf_spelled. Qed.
Print Assumptions C03_wf_spelled.

(* ------------------------------------------------------------------ 2. fuel *)
(* the fuel feed supplies is sufficient: any larger amount gives the same run *)
Theorem C03_feed_fuel_sufficient : forall lim o s d a f,
  wf s -> (2 * length (tail s ++ d) + 2 <= f)%nat ->
  feed_loop f lim o (clr s) (tail s ++ d) a = feed lim o s d a.
Proof. exact feed_fuel. Qed.
Print Assumptions C03_feed_fuel_sufficient.

Theorem C03_feed_loop_fuel_independent : forall lim o s buf evs f f',
  tail s = [] -> pwf s ->
  (2 * length buf + 2 <= f)%nat -> (2 * length buf + 2 <= f')%nat ->
  feed_loop f lim o s buf evs = feed_loop f' lim o s buf evs.
Proof. exact feed_loop_fuel. Qed.
Print Assumptions C03_feed_loop_fuel_independent.

Theorem C03_chunked_loop_fuel_independent : forall lim p c tl chunk evs f f',
  match c with CData rem => 0 < rem | _ => True end ->
  (2 * length chunk + 2 <= f)%nat -> (2 * length chunk + 2 <= f')%nat ->
  chunked_loop f lim p c tl chunk evs = chunked_loop f' lim p c tl chunk evs.
Proof. exact chunked_loop_fuel. Qed.
Print Assumptions C03_chunked_loop_fuel_independent.

(* the out-of-fuel branch is never taken: the result equals that of the same loop with an
   ARBITRARY out-of-fuel answer d' (loop / step_f / step_c: Proofs/HttpSegBase.v, HttpSeg*.v) *)
Theorem C03_feed_loop_never_out_of_fuel : forall lim o s buf evs f (d' : fcfg -> fres),
  tail s = [] -> pwf s -> (2 * length buf + 2 <= f)%nat ->
  feed_loop f lim o s buf evs = loop (step_f lim o) d' f (s, evs) buf.
Proof. exact feed_loop_never_out_of_fuel. Qed.
Print Assumptions C03_feed_loop_never_out_of_fuel.

Theorem C03_chunked_loop_never_out_of_fuel : forall lim p c tl chunk evs f (d' : cst -> pres),
  match c with CData rem => 0 < rem | _ => True end ->
  (2 * length chunk + 2 <= f)%nat ->
  chunked_loop f lim p c tl chunk evs = loop (step_c lim (max_trailers p)) d' f (c, tl, evs) chunk.
Proof. exact chunked_loop_never_out_of_fuel. Qed.
Print Assumptions C03_chunked_loop_never_out_of_fuel.

(* ------------------------------------------------------------------ 3. two reads *)
(* accept direction, full strength: if both reads return normally, one read of a ++ b returns
   normally with the same state, the same accumulated messages and the concatenated unconsumed bytes *)
Theorem C03_split_accept : forall lim o s a b acc s1 acc1 lo1 s2 acc2 lo2,
  wf s ->
  feed lim o s a acc = (s1, acc1, ROk lo1) ->
  feed lim o s1 b acc1 = (s2, acc2, ROk lo2) ->
  feed lim o s (a ++ b) acc = (s2, acc2, ROk (lo1 ++ lo2)).
Proof. exact feed_split_accept. Qed.
Print Assumptions C03_split_accept.

(* including the second read's exceptions and oracle questions, with NO hypothesis on the state
   between the reads: either one read of a ++ b is observably equal to the two reads, or the second
   read raised LineTooLong on the over-long partial chunk-size / trailer line buffered by the first
   (the length re-check the payload parser makes when a call starts) although the end of that line
   has not arrived: then one read of a ++ b raises TransferEncodingError (a bare LF in that line) or
   returns normally with the same messages, still buffering the over-long line, so that whatever
   follows is rejected as well - the rejection was only noticed earlier. *)
Theorem C03_split : forall lim o s a b acc s1 acc1 lo1,
  wf s ->
  feed lim o s a acc = (s1, acc1, ROk lo1) ->
  obs (feed lim o s (a ++ b) acc) =
  obs (let '(s2, acc2, r) := feed lim o s1 b acc1 in (s2, acc2, prepend lo1 r)) \/
  (tail_ok lim s1 = false /\
   (exists s2, feed lim o s1 b acc1 = (s2, ev_err ELineTooLong acc1, RErr ELineTooLong)) /\
   (exists p', payload s1 = Some p' /\ find_crlf (ctail p' ++ b) = None) /\
   ((exists s3, feed lim o s (a ++ b) acc = (s3, ev_err ETransferEncoding acc1, RErr ETransferEncoding)) \/
    (exists s3, feed lim o s (a ++ b) acc = (s3, acc1, ROk []) /\ tail_ok lim s3 = false /\ wf s3))).
Proof. exact feed_split_full. Qed.
Print Assumptions C03_split.

(* with equality, when the buffered partial line passes the re-check or its end is in b *)
Theorem C03_split_partial : forall lim o s a b acc s1 acc1 lo1,
  wf s ->
  feed lim o s a acc = (s1, acc1, ROk lo1) ->
  line_end_ok lim s1 b = true ->
  obs (feed lim o s (a ++ b) acc) =
  obs (let '(s2, acc2, r) := feed lim o s1 b acc1 in (s2, acc2, prepend lo1 r)).
Proof. exact feed_split_weak. Qed.
Print Assumptions C03_split_partial.

(* max_line_size = 20: the first read ends inside a chunk-size line that is already 25 bytes long;
   the next read ("ee", still no end of line) raises LineTooLong on the buffered part; one read of
   the same bytes returns normally, still waiting for the end of the line, in a state that fails
   tail_ok: whatever follows is rejected by the re-check of the next call *)
Example C03_tail_recheck_noticed_earlier :
  first_then lim_c wd_1 wd_2 =
    (ROk [], false,
     Some (PChunked CSize, [49; 59; 101; 101; 101; 101; 101; 101; 101; 101; 101; 101; 101; 101; 101; 101; 101; 101; 101; 101; 101; 101; 101; 101; 101]),
     (RErr ELineTooLong, [([80; 79; 83; 84], [47], [], [], false, Some ELineTooLong)])) /\
  (let '(s, a, r) := feed lim_c [] init (wd_1 ++ wd_2) [] in (r, tail_ok lim_c s, digest (s, a, r))) =
    (ROk [], false, (ROk [], [([80; 79; 83; 84], [47], [], [], false, None)])).
Proof. exact ex_tail_recheck_early. Qed.
Print Assumptions C03_tail_recheck_noticed_earlier.

(* non-vacuity: pipelined chunked POST with trailers + GET, cut inside the chunk-size line "1a;x=y":
   the first read returns normally leaving "1a;" buffered, tail_ok holds, the second read returns
   normally and both messages are delivered *)
Example C03_split_example :
  first_then lim0 ex_a ex_b = (ROk [], true, Some (PChunked CSize, [49; 97; 59]), ex_digest).
Proof. exact ex_first_read. Qed.
Print Assumptions C03_split_example.

(* ------------------------------------------------------------------ 4. any segmentation *)
Theorem C03_seg_accept : forall lim o segs s acc lo s' acc' lo',
  wf s -> segs <> [] ->
  run_segs lim o s segs acc lo = (s', acc', ROk lo') ->
  run_segs lim o s [concat segs] acc lo = (s', acc', ROk lo').
Proof. exact seg_accept. Qed.
Print Assumptions C03_seg_accept.

Theorem C03_seg_indep_accept : forall lim o segs1 segs2 s acc lo s1 acc1 lo1 s2 acc2 lo2,
  wf s -> segs1 <> [] -> segs2 <> [] -> concat segs1 = concat segs2 ->
  run_segs lim o s segs1 acc lo = (s1, acc1, ROk lo1) ->
  run_segs lim o s segs2 acc lo = (s2, acc2, ROk lo2) ->
  (s1, acc1, lo1) = (s2, acc2, lo2).
Proof. exact seg_indep_accept. Qed.
Print Assumptions C03_seg_indep_accept.

(* one-read rejection (exception or unanswered oracle question) => every segmentation is rejected *)
Theorem C03_seg_oneshot_reject : forall lim o segs s acc lo s1 acc1 r1,
  wf s -> segs <> [] ->
  run_segs lim o s [concat segs] acc lo = (s1, acc1, r1) -> (forall l, r1 <> ROk l) ->
  forall s2 acc2 r2, run_segs lim o s segs acc lo = (s2, acc2, r2) -> forall l, r2 <> ROk l.
Proof. exact seg_oneshot_reject. Qed.
Print Assumptions C03_seg_oneshot_reject.

Example C03_seg_example :
  ex_a ++ ex_b = concat ex_segs /\
  digest (run_segs lim0 [] init [ex_a; ex_b] [] []) = ex_digest /\
  digest (run_segs lim0 [] init ex_segs [] []) = ex_digest /\
  digest (run_segs lim0 [] init [concat ex_segs] [] []) = ex_digest.
Proof. exact (conj ex_concat (conj ex_two_reads (conj ex_five_reads ex_one_read))). Qed.
Print Assumptions C03_seg_example.

(* ------------------------------------------------------------------ 5./6. reject direction *)
(* The segmented run - normal or rejected - against one read of the bytes it consumed, for every
   segmentation: observably equal (same exception class, same messages with the same body bytes and
   marks), or the rejection of an over-long chunk line was noticed earlier. *)
Theorem C03_seg_consumed_obs : forall lim o segs s acc lo,
  wf s -> segs <> [] ->
  obs (run_segs lim o s segs acc lo) =
  obs (run_segs lim o s [concat (consumed lim o s segs acc)] acc lo) \/
  noticed_earlier lim (run_segs lim o s segs acc lo)
                      (run_segs lim o s [concat (consumed lim o s segs acc)] acc lo).
Proof. exact seg_consumed_full. Qed.
Print Assumptions C03_seg_consumed_obs.

(* with equality under boundaries_ok.  Neither statement extends to the bytes after the failing
   read: see C03_reject_direction_refuted_bare_lf and C03_seg_reject_partial. *)
Theorem C03_seg_consumed_obs_partial : forall lim o segs s acc lo,
  wf s -> segs <> [] -> boundaries_ok lim o s segs acc = true ->
  obs (run_segs lim o s segs acc lo) =
  obs (run_segs lim o s [concat (consumed lim o s segs acc)] acc lo).
Proof. exact seg_consumed_obs. Qed.
Print Assumptions C03_seg_consumed_obs_partial.

Example C03_seg_consumed_example :
  boundaries_ok lim0 [] init [ex_a; ex_bad_b; ex_b] [] = true /\
  consumed lim0 [] init [ex_a; ex_bad_b; ex_b] [] = [ex_a; ex_bad_b] /\
  digest (run_segs lim0 [] init [ex_a; ex_bad_b; ex_b] [] []) =
    (RErr ETransferEncoding,
     [([80; 79; 83; 84], [47; 97],
       [97; 98; 99; 100; 101; 102; 103; 104; 105; 106; 107; 108; 109; 110; 111; 112; 113; 114; 115; 116; 117; 118; 119; 120; 121; 122],
       [26], false, Some ETransferEncoding)]) /\
  digest (run_segs lim0 [] init [ex_a ++ ex_bad_b] [] []) =
    (RErr ETransferEncoding,
     [([80; 79; 83; 84], [47; 97],
       [97; 98; 99; 100; 101; 102; 103; 104; 105; 106; 107; 108; 109; 110; 111; 112; 113; 114; 115; 116; 117; 118; 119; 120; 121; 122],
       [26], false, Some ETransferEncoding)]) /\
  digest (run_segs lim0 [] init [concat [ex_a; ex_bad_b; ex_b]] [] []) =
    (RErr ETransferEncoding,
     [([80; 79; 83; 84], [47; 97],
       [97; 98; 99; 100; 101; 102; 103; 104; 105; 106; 107; 108; 109; 110; 111; 112; 113; 114; 115; 116; 117; 118; 119; 120; 121; 122],
       [26], false, Some ETransferEncoding)]).
Proof. exact ex_rejected. Qed.
Print Assumptions C03_seg_consumed_example.

(* Reject direction under explicit hypotheses.
     feed_complete lim o s x acc : when the read x stops (returns or raises), the parser is NOT
       looking at a partial line: the unconsumed bytes (header level) / the unconsumed chunk
       buffer (chunk-size line, trailer line) contain a CRLF, or the stop is the LineTooLong
       re-check of a buffered chunk line, or the CRLF expected after chunk data.
     fail_complete ... segs : that holds for the read of the segmented run that does not return.
   An exception raised on a complete line is raised identically (same class, same messages, same
   parser state) however many bytes follow in the same read: *)
Theorem C03_feed_reject_stable_partial : forall lim o s x acc s1 acc1 r,
  wf s -> feed lim o s x acc = (s1, acc1, r) -> (forall l, r <> ROk l) ->
  feed_complete lim o s x acc = true ->
  forall y, feed lim o s (x ++ y) acc = (s1, acc1, r).
Proof. exact feed_fail_app. Qed.
Print Assumptions C03_feed_reject_stable_partial.

(* hence a rejected segmentation is rejected identically by one read of the WHOLE stream (bytes
   after the failing read included), if the failure is on a complete line and the buffered chunk
   lines at the read boundaries pass the length re-check.  Both hypotheses are needed:
   witness (b) (bare LF) violates the first, (d) (C03_tail_recheck_noticed_earlier) the second
   (C03_seg_reject_hyps_needed). *)
Theorem C03_seg_reject_partial : forall lim o segs s acc lo s1 acc1 r1,
  wf s -> segs <> [] ->
  boundaries_ok lim o s segs acc = true ->
  fail_complete lim o s segs acc = true ->
  run_segs lim o s segs acc lo = (s1, acc1, r1) -> (forall l, r1 <> ROk l) ->
  obs (run_segs lim o s [concat segs] acc lo) = obs (s1, acc1, r1).
Proof. exact seg_reject. Qed.
Print Assumptions C03_seg_reject_partial.

Example C03_seg_reject_example :
  boundaries_ok lim0 [] init [ex_a; ex_bad_b; ex_b] [] = true /\
  fail_complete lim0 [] init [ex_a; ex_bad_b; ex_b] [] = true.
Proof. exact ex_rejected_hyps. Qed.
Print Assumptions C03_seg_reject_example.

Example C03_seg_reject_hyps_needed :
  fail_complete lim0 [] init [wb_1; wb_2] [] = false /\
  boundaries_ok lim0 [] init [wb_1; wb_2] [] = true /\
  boundaries_ok lim_c [] init [wd_1; wd_2] [] = false /\
  fail_complete lim_c [] init [wd_1; wd_2] [] = true.
Proof. exact ex_hyps_exclude. Qed.
Print Assumptions C03_seg_reject_hyps_needed.

(* Repaired finding C03-cr-boundary-line-limit.  (a) max_field_size = 10, header line "a:34567890"
   (exactly 10 bytes) with the read boundary between its CR and LF; (c) max_line_size = 20,
   chunk-size line "1;eeeeeeeeeeeeeeeeee" (exactly 20 bytes) cut between its CR and LF (the state
   between the reads buffers the 21 bytes including the CR and passes tail_ok): accepted, with the
   same messages, split or in one read. *)
Example C03_cr_boundary_fixed :
  (digest (run_segs lim_a [] init [wa_1; wa_2] [] []) = (ROk [], [([71; 69; 84], [47], [], [], true, None)]) /\
   digest (run_segs lim_a [] init [concat [wa_1; wa_2]] [] []) = (ROk [], [([71; 69; 84], [47], [], [], true, None)])) /\
  (first_then lim_c wc_1 wc_2 =
     (ROk [], true,
      Some (PChunked CSize, [49; 59; 101; 101; 101; 101; 101; 101; 101; 101; 101; 101; 101; 101; 101; 101; 101; 101; 101; 101; 13]),
      (ROk [], [([80; 79; 83; 84], [47], [120], [1], true, None)])) /\
   digest (feed lim_c [] init (wc_1 ++ wc_2) []) = (ROk [], [([80; 79; 83; 84], [47], [120], [1], true, None)]) /\
   digest (run_segs lim_c [] init [wc_1; wc_2] [] []) = (ROk [], [([80; 79; 83; 84], [47], [120], [1], true, None)])).
Proof. exact (conj ex_cr_boundary_fixed ex_chunk_cr_boundary_fixed). Qed.
Print Assumptions C03_cr_boundary_fixed.

(* (b) a bare LF inside an incomplete header block: BadHttpMessage as soon as a read ends after it;
   one read of the same bytes returns normally (block still incomplete); once the block is
   completed the one-read run is rejected too (InvalidHeader): rejection is only noticed earlier *)
Theorem C03_reject_direction_refuted_bare_lf :
  exists lim segs e e',
    digest (run_segs lim [] init segs [] []) = (RErr e, []) /\
    digest (run_segs lim [] init [concat segs] [] []) = (ROk [], []) /\
    digest (run_segs lim [] init [concat segs ++ [13; 10]] [] []) = (RErr e', []).
Proof.
  exact (ex_intro _ lim0 (ex_intro _ [wb_1; wb_2] (ex_intro _ EBadMessage (ex_intro _ EInvalidHeader refute_bare_lf)))).
Qed.
Print Assumptions C03_reject_direction_refuted_bare_lf.

(* Why (b) is only "rejection noticed earlier": once a collected header line contains a bare LF
   (poisoned s := existsb (has_byte 10) (lines s)), no continuation of the stream, however
   segmented, ever delivers a message: every run raises / asks, or returns normally with the
   message list unchanged and the block still poisoned.  For ALL limits, oracles and streams. *)
Theorem C03_bare_lf_doomed : forall lim o segs s acc lo,
  poisoned s = true -> payload s = None ->
  let '(s', acc', r) := run_segs lim o s segs acc lo in
  match r with ROk _ => acc' = acc /\ poisoned s' = true /\ payload s' = None | _ => True end.
Proof. exact doomed_run_segs. Qed.
Print Assumptions C03_bare_lf_doomed.

(* the validators behind it: a request head with a bare LF in any line is never accepted *)
Theorem C03_bare_lf_head_rejected : forall o ls m,
  existsb (has_byte 10) ls = true -> parse_request o ls <> POk m.
Proof. exact parse_request_lf. Qed.
Print Assumptions C03_bare_lf_head_rejected.

(* the one-read run of witness (b) ends in such a state *)
Example C03_bare_lf_doomed_example :
  (let '(s, a, r) := feed lim0 [] init (wb_1 ++ wb_2) [] in (r, poisoned s, payload s, a)) =
  (ROk [], true, None, []).
Proof. exact ex_bare_lf_poisoned. Qed.
Print Assumptions C03_bare_lf_doomed_example.

(* ====================================================================================================
   RESPONSE parser (HttpResponseParser, lax mode: SEP = LF, rstrip(CR), obs-fold, lax chunk sizes,
   optional CR skipping).  Model: Model/HttpResp.v (rfeed = HttpResponseParser.feed_data, rrun_segs = a
   sequence of feed_data calls, rfeed_eof); proofs: Proofs/HttpResp*.v.

   Vocabulary (Proofs/HttpRespSeg.v, HttpRespChunk.v):
     rwf s             invariant of the parser state between two feed_data calls (C03_resp_wf_spelled)
     rtail_ok lim s    the buffered partial chunk-size / trailer line passes the length re-check of the next call
     rrecheck_ok lim s y  rtail_ok lim s, or y (the bytes that follow) contains LF: the buffered line is
                       completed, and since a complete line is measured exactly like a partial one (its last
                       CR not counted: repair of C03-cr-boundary-line-limit) one read raises the same
                       LineTooLong.  Excluded: only an over-long line that is still incomplete after y, which
                       the split run rejects while one read is still waiting for its end: "rejection noticed
                       earlier", which the property allows (every completion is rejected too).
     rboundaries_ok    rrecheck_ok at every read boundary followed by a read, y = the bytes consumed after it
     robs, rprepend    as obs / prepend above

   Summary.  The three places where this parser used to look at the read boundary were found with this
   model and repaired in the code (CR after the last-chunk line: eb945bb; CR/LF boundary at a line limit;
   CR CR LF after chunk data); the model follows the repaired code.  ACCEPT direction: proved in FULL, for
   all configurations, states and streams, with no hypothesis on the read boundaries
   (C03_resp_split_accept, C03_resp_seg_accept, C03_resp_seg_indep_accept): a segmentation whose reads
   all return normally yields exactly the one-read result - same final state, messages, fields, body
   bytes, chunk ends, eof / exception marks, unconsumed bytes; hence one-read rejection implies
   rejection of every segmentation (C03_resp_seg_oneshot_reject).  Runs that END IN AN EXCEPTION: the
   segmented run is observably the one-read run of the bytes it consumed (C03_resp_seg_consumed_obs_partial)
   under rboundaries_ok, whose only excluded case is the allowed "rejection noticed earlier" above.
   The former refutation witnesses are kept as positive examples (C03_resp_double_cr_fixed,
   C03_resp_cr_after_last_chunk_fixed, C03_resp_cr_boundary_limit_fixed). *)
From AV Require Import Lib.Utf8Decode Generated.HttpRespGen Model.HttpResp
  Proofs.HttpRespBase Proofs.HttpRespChunk Proofs.HttpRespSeg Proofs.HttpRespLimits Proofs.HttpRespEx.

(* ------------------------------------------------------------------ R1. invariant *)
Theorem C03_resp_wf_init : rwf rinit.
Proof. exact rwf_init. Qed.
Print Assumptions C03_resp_wf_init.

Theorem C03_resp_wf_feed : forall cfg s d a s1 a1 lo1,
  rwf s -> rfeed cfg s d a = (s1, a1, OOk lo1) -> rwf s1.
Proof. exact rfeed_wf. Qed.
Print Assumptions C03_resp_wf_feed.

Theorem C03_resp_wf_run_segs : forall cfg segs s acc lo s' acc' lo',
  rwf s -> rrun_segs cfg s segs acc lo = (s', acc', OOk lo') -> rwf s'.
Proof. exact rrun_segs_wf. Qed.
Print Assumptions C03_resp_wf_run_segs.

Theorem C03_resp_wf_spelled : forall s, rwf s ->
  (rpayload s <> None \/ rupgraded s = true -> rtail s = []) /\
  forall p, rpayload s = Some p ->
    match rpk p with
    | RLength rem => 0 < rem /\ rctail p = [] /\ rtlines p = []
    | RUntilEof => rctail p = [] /\ rtlines p = []
    | RChunked (RData rem) => 0 < rem /\ rctail p = []
    | RChunked RDataEnd => rctail p = [] \/ rctail p = [13]
    | RChunked _ => has_byte 10 (rctail p) = false
    end.
Proof. exact rwf_spelled. Qed.
Print Assumptions C03_resp_wf_spelled.

(* ------------------------------------------------------------------ R2. fuel *)
Theorem C03_resp_feed_fuel_sufficient : forall cfg s d a f,
  rwf s -> (2 * length (rtail s ++ d) + 2 <= f)%nat ->
  rfeed_loop f cfg (rclr s) (rtail s ++ d) a = rfeed cfg s d a.
Proof. exact rfeed_fuel. Qed.
Print Assumptions C03_resp_feed_fuel_sufficient.

Theorem C03_resp_feed_loop_fuel_independent : forall cfg s buf evs f f',
  rtail s = [] -> rpwf s ->
  (2 * length buf + 2 <= f)%nat -> (2 * length buf + 2 <= f')%nat ->
  rfeed_loop f cfg s buf evs = rfeed_loop f' cfg s buf evs.
Proof. exact rfeed_loop_fuel. Qed.
Print Assumptions C03_resp_feed_loop_fuel_independent.

Theorem C03_resp_chunked_loop_fuel_independent : forall lim mt c tl chunk evs f f',
  match c with RData rem => 0 < rem | _ => True end ->
  (2 * length chunk + 2 <= f)%nat -> (2 * length chunk + 2 <= f')%nat ->
  rchunked_loop f lim mt c tl chunk evs = rchunked_loop f' lim mt c tl chunk evs.
Proof. exact rchunked_loop_fuel. Qed.
Print Assumptions C03_resp_chunked_loop_fuel_independent.

(* the out-of-fuel branches are never taken: same result with an ARBITRARY out-of-fuel answer d' *)
Theorem C03_resp_feed_loop_never_out_of_fuel : forall cfg s buf evs f (d' : rfcfg -> rfres),
  rtail s = [] -> rpwf s -> (2 * length buf + 2 <= f)%nat ->
  rfeed_loop f cfg s buf evs = loop (rstep_f cfg) d' f (s, evs) buf.
Proof. exact rfeed_loop_never_out_of_fuel. Qed.
Print Assumptions C03_resp_feed_loop_never_out_of_fuel.

Theorem C03_resp_chunked_loop_never_out_of_fuel : forall lim mt c tl chunk evs f (d' : rcst -> rpres),
  match c with RData rem => 0 < rem | _ => True end ->
  (2 * length chunk + 2 <= f)%nat ->
  rchunked_loop f lim mt c tl chunk evs = loop (rstep_c lim mt) d' f (c, tl, evs) chunk.
Proof. exact rchunked_loop_never_out_of_fuel. Qed.
Print Assumptions C03_resp_chunked_loop_never_out_of_fuel.

(* ------------------------------------------------------------------ R3. two reads *)
(* accept direction, full strength (the statement proved for the request parser, C03_split_accept): if
   both reads return normally, one read of a ++ b returns normally with the same state, the same
   accumulated messages and the concatenated unconsumed bytes *)
Theorem C03_resp_split_accept : forall cfg s a b acc s1 acc1 lo1 s2 acc2 lo2,
  rwf s ->
  rfeed cfg s a acc = (s1, acc1, OOk lo1) ->
  rfeed cfg s1 b acc1 = (s2, acc2, OOk lo2) ->
  rfeed cfg s (a ++ b) acc = (s2, acc2, OOk (lo1 ++ lo2)).
Proof. exact rfeed_split_accept. Qed.
Print Assumptions C03_resp_split_accept.

(* including the second read's exceptions: needs the re-check of the buffered chunk line to pass, or the
   line to be completed by b (rrecheck_ok; the excluded case is rejection noticed earlier) *)
Theorem C03_resp_split_partial : forall cfg s a b acc s1 acc1 lo1,
  rwf s ->
  rfeed cfg s a acc = (s1, acc1, OOk lo1) ->
  rrecheck_ok (c_lim cfg) s1 b = true ->
  robs (rfeed cfg s (a ++ b) acc) =
  robs (let '(s2, acc2, r) := rfeed cfg s1 b acc1 in (s2, acc2, rprepend lo1 r)).
Proof. exact rfeed_split. Qed.
Print Assumptions C03_resp_split_partial.

(* former finding C03-lax-double-cr (fixed): "... 3 CRLF abc CR" | "CR LF 0 CRLF CRLF" - the CR that ends the
   first read stays buffered, and the split run raises the same TransferEncodingError as one read *)
Example C03_resp_double_cr_fixed :
  pkind_of (fst (fst (rfeed rcfg0 rinit w_a []))) = Some (RChunked RDataEnd, [13], []) /\
  rboundaries_ok rcfg0 rinit [w_a; w_b] [] = true /\
  rdigest (rrun_segs rcfg0 rinit [w_a; w_b] [] []) = (OErr ETransferEncoding, [(200, [97; 98; 99], [3], false, Some ETransferEncoding)]) /\
  rdigest (rrun_segs rcfg0 rinit [concat [w_a; w_b]] [] []) = (OErr ETransferEncoding, [(200, [97; 98; 99], [3], false, Some ETransferEncoding)]).
Proof. exact ex_double_cr_fixed. Qed.
Print Assumptions C03_resp_double_cr_fixed.

(* ------------------------------------------------------------------ R4. any segmentation *)
Theorem C03_resp_seg_accept : forall cfg segs s acc lo s' acc' lo',
  rwf s -> segs <> [] ->
  rrun_segs cfg s segs acc lo = (s', acc', OOk lo') ->
  rrun_segs cfg s [concat segs] acc lo = (s', acc', OOk lo').
Proof. exact rseg_accept. Qed.
Print Assumptions C03_resp_seg_accept.

Theorem C03_resp_seg_indep_accept : forall cfg segs1 segs2 s acc lo s1 acc1 lo1 s2 acc2 lo2,
  rwf s -> segs1 <> [] -> segs2 <> [] -> concat segs1 = concat segs2 ->
  rrun_segs cfg s segs1 acc lo = (s1, acc1, OOk lo1) ->
  rrun_segs cfg s segs2 acc lo = (s2, acc2, OOk lo2) ->
  (s1, acc1, lo1) = (s2, acc2, lo2).
Proof. exact rseg_indep_accept. Qed.
Print Assumptions C03_resp_seg_indep_accept.

(* one-read rejection => every segmentation is rejected *)
Theorem C03_resp_seg_oneshot_reject : forall cfg segs s acc lo s1 acc1 e,
  rwf s -> segs <> [] ->
  rrun_segs cfg s [concat segs] acc lo = (s1, acc1, OErr e) ->
  forall s2 acc2 r2, rrun_segs cfg s segs acc lo = (s2, acc2, r2) -> forall l, r2 <> OOk l.
Proof. exact rseg_oneshot_reject. Qed.
Print Assumptions C03_resp_seg_oneshot_reject.

(* non-vacuity at the formerly special boundaries: "... 3 CRLF abc CR" | "LF 0 CRLF" | "CRLF" - the first
   read ends between the CR and the LF after chunk data (the CR stays buffered), the second right after
   the last-chunk line; three reads = one read, states included *)
Example C03_resp_seg_example_cr_kept :
  pkind_of (fst (fst (rfeed rcfg0 rinit y_a []))) = Some (RChunked RDataEnd, [13], []) /\
  rdigest (rrun_segs rcfg0 rinit [y_a; y_b; y_c] [] []) = (OOk [], [(200, [97; 98; 99], [3], true, None)]) /\
  rrun_segs rcfg0 rinit [concat [y_a; y_b; y_c]] [] [] = rrun_segs rcfg0 rinit [y_a; y_b; y_c] [] [].
Proof. exact ex_cr_kept_reads. Qed.
Print Assumptions C03_resp_seg_example_cr_kept.

(* non-vacuity: LF-only head with a folded field, lax chunk-size line " 1a ;x=y" cut inside, 26 data
   bytes, a pipelined 204: three reads = one read (states included) *)
Example C03_resp_seg_example :
  rboundaries_ok rcfg0 rinit [x_a; x_b; x_c] [] = true /\
  pkind_of (fst (fst (rfeed rcfg0 rinit x_a []))) = Some (RChunked RSize, [32; 49; 97], []) /\
  rdigest (rrun_segs rcfg0 rinit [x_a; x_b; x_c] [] []) =
    (OOk [], [(200, [97; 98; 99; 100; 101; 102; 103; 104; 105; 106; 107; 108; 109; 110; 111; 112; 113; 114; 115; 116; 117; 118; 119; 120; 121; 122], [26], true, None);
              (204, [], [], true, None)]) /\
  rrun_segs rcfg0 rinit [concat [x_a; x_b; x_c]] [] [] = rrun_segs rcfg0 rinit [x_a; x_b; x_c] [] [] /\
  map (fun m => rm_headers (rr_msg m)) (snd (fst (rrun_segs rcfg0 rinit [x_a; x_b; x_c] [] []))) =
    [[]; [([88; 45; 70], [97; 32; 98]); ([84; 114; 97; 110; 115; 102; 101; 114; 45; 69; 110; 99; 111; 100; 105; 110; 103], [99; 104; 117; 110; 107; 101; 100])]].
Proof. exact ex_clean_three_reads. Qed.
Print Assumptions C03_resp_seg_example.

(* ------------------------------------------------------------------ R5. reject direction *)
(* The segmented run - normal or rejected - is observably the one-read run of the bytes it consumed
   (same exception class, same messages with the same body bytes and marks), provided that at every
   read boundary the buffered chunk line passes the length re-check or is completed by the consumed
   bytes after it (rboundaries_ok = rrecheck_ok at each boundary; excluded: rejection noticed earlier). *)
Theorem C03_resp_seg_consumed_obs_partial : forall cfg segs s acc lo,
  rwf s -> segs <> [] -> rboundaries_ok cfg s segs acc = true ->
  robs (rrun_segs cfg s segs acc lo) =
  robs (rrun_segs cfg s [concat (rconsumed cfg s segs acc)] acc lo).
Proof. exact rseg_consumed_obs. Qed.
Print Assumptions C03_resp_seg_consumed_obs_partial.

Example C03_resp_seg_consumed_example :
  rboundaries_ok rcfg0 rinit [y_a; y_bad; y_c] [] = true /\
  rconsumed rcfg0 rinit [y_a; y_bad; y_c] [] = [y_a; y_bad] /\
  rdigest (rrun_segs rcfg0 rinit [y_a; y_bad; y_c] [] []) =
    (OErr ETransferEncoding, [(200, [97; 98; 99], [3], false, Some ETransferEncoding)]) /\
  rdigest (rrun_segs rcfg0 rinit [y_a ++ y_bad] [] []) =
    (OErr ETransferEncoding, [(200, [97; 98; 99], [3], false, Some ETransferEncoding)]).
Proof. exact ex_rejected_consumed. Qed.
Print Assumptions C03_resp_seg_consumed_example.

(* former finding C03-lax-cr-after-last-chunk (fixed: /repo eb945bb): "0 CRLF" | "CR X: y CRLF CRLF" is
   rejected identically (InvalidHeader, same message marks) in one read and when split *)
Example C03_resp_cr_after_last_chunk_fixed :
  rboundaries_ok rcfg0 rinit [w_c; w_d2] [] = true /\
  rdigest (rrun_segs rcfg0 rinit [w_c; w_d2] [] []) = (OErr EInvalidHeader, [(200, [97; 98; 99], [3], false, Some EInvalidHeader)]) /\
  rdigest (rrun_segs rcfg0 rinit [concat [w_c; w_d2]] [] []) = (OErr EInvalidHeader, [(200, [97; 98; 99], [3], false, Some EInvalidHeader)]).
Proof. exact ex_cr_after_last_chunk_fixed. Qed.
Print Assumptions C03_resp_cr_after_last_chunk_fixed.

(* former finding C03-cr-boundary-line-limit (fixed): max_field_size = 10, field line "a:34567890" (10 bytes)
   cut between its CR and LF: the buffered 11 bytes are measured without the CR; split = one read *)
Example C03_resp_cr_boundary_limit_fixed :
  rboundaries_ok rcfg10 rinit [w_e; w_f] [] = true /\
  lenN (rtail (fst (fst (rfeed rcfg10 rinit w_e [])))) = 11 /\
  rdigest (rrun_segs rcfg10 rinit [w_e; w_f] [] []) = (OOk [], [(200, [], [], false, None)]) /\
  rrun_segs rcfg10 rinit [concat [w_e; w_f]] [] [] = rrun_segs rcfg10 rinit [w_e; w_f] [] [].
Proof. exact ex_cr_boundary_limit_fixed. Qed.
Print Assumptions C03_resp_cr_boundary_limit_fixed.

(* an over-long trailer line (33 bytes, max_field_size 30) buffered by the first read and completed by the
   second: rtail_ok fails, rrecheck_ok / rboundaries_ok hold, split and one read raise the same LineTooLong *)
Example C03_resp_recheck_monotone :
  rtail_ok (c_lim rcfg30) (fst (fst (rfeed rcfg30 rinit z_a []))) = false /\
  rboundaries_ok rcfg30 rinit [z_a; z_b] [] = true /\
  rdigest (rrun_segs rcfg30 rinit [z_a; z_b] [] []) = (OErr ELineTooLong, [(200, [], [], false, Some ELineTooLong)]) /\
  rdigest (rrun_segs rcfg30 rinit [z_a ++ z_b] [] []) = (OErr ELineTooLong, [(200, [], [], false, Some ELineTooLong)]).
Proof. exact ex_recheck_monotone. Qed.
Print Assumptions C03_resp_recheck_monotone.

(* ------------------------------------------------------------------ R6. text-level quirks of the model *)
(* "Transfer-Encoding: chun<KELVIN SIGN>ed" frames the body as chunked (lower() without isascii()) *)
Example C03_resp_kelvin_chunked :
  rdigest (rfeed rcfg0 rinit x_kelvin []) = (OOk [], [(200, [120], [1], true, None)]) /\
  map (fun m => rm_chunked (rr_msg m)) (snd (fst (rfeed rcfg0 rinit x_kelvin []))) = [true].
Proof. exact ex_kelvin_chunked. Qed.
Print Assumptions C03_resp_kelvin_chunked.

(* "HTTP/1.1<NBSP>200<U+2028>OK then ": str.split() separates on Unicode white space *)
Example C03_resp_unicode_status_line :
  map (fun m => (rm_code (rr_msg m), rm_reason (rr_msg m))) (snd (fst (rfeed rcfg0 rinit x_status []))) =
    [(200, [79; 75; 32; 116; 104; 101; 110])].
Proof. exact ex_unicode_status_line. Qed.
Print Assumptions C03_resp_unicode_status_line.
