(* Byte-string helpers shared by the HTTP models: searching, splitting, stripping, ASCII case,
   decimal / hexadecimal numerals.  Definitions and their basic lemmas. *)
From AV Require Import Lib.Base.
Open Scope N_scope.

(* ---- searching for CRLF: (line before the first CRLF, rest after it) ---- *)
Fixpoint find_crlf_aux (acc : bytes) (s : bytes) : option (bytes * bytes) :=
  match s with
  | [] => None
  | c :: s' =>
    match s' with
    | d :: s'' => if (c =? 13) && (d =? 10) then Some (rev acc, s'')
                  else find_crlf_aux (c :: acc) s'
    | [] => None
    end
  end.
Definition find_crlf (s : bytes) : option (bytes * bytes) := find_crlf_aux [] s.

(* split at the first occurrence of a byte *)
Fixpoint split_first_aux (sep : N) (acc : bytes) (s : bytes) : option (bytes * bytes) :=
  match s with
  | [] => None
  | c :: s' => if c =? sep then Some (rev acc, s') else split_first_aux sep (c :: acc) s'
  end.
Definition split_first (sep : N) (s : bytes) : option (bytes * bytes) := split_first_aux sep [] s.

(* split at every occurrence of a byte (Python bytes.split(sep)) *)
Fixpoint split_all_aux (sep : N) (acc : bytes) (s : bytes) : list bytes :=
  match s with
  | [] => [rev acc]
  | c :: s' => if c =? sep then rev acc :: split_all_aux sep [] s' else split_all_aux sep (c :: acc) s'
  end.
Definition split_all (sep : N) (s : bytes) : list bytes := split_all_aux sep [] s.

(* optional whitespace: SP / HTAB *)
Definition is_ows (c : N) : bool := (c =? 32) || (c =? 9).
Fixpoint lstrip_ows (s : bytes) : bytes :=
  match s with
  | c :: s' => if is_ows c then lstrip_ows s' else s
  | [] => []
  end.
Definition rstrip_ows (s : bytes) : bytes := rev (lstrip_ows (rev s)).
Definition strip_ows (s : bytes) : bytes := rstrip_ows (lstrip_ows s).

(* ASCII case *)
Definition lower (c : N) : N := if (65 <=? c) && (c <=? 90) then c + 32 else c.
Definition upper (c : N) : N := if (97 <=? c) && (c <=? 122) then c - 32 else c.
Definition is_ascii (s : bytes) : bool := forallb (fun c => c <? 128) s.
Definition ieqb (a b : bytes) : bool := list_eqb (map lower a) (map lower b).

Fixpoint mem_bytes (x : bytes) (l : list bytes) : bool :=
  match l with [] => false | y :: l' => list_eqb x y || mem_bytes x l' end.

(* numerals *)
Definition dec_val (c : N) : N := c - 48.
Definition parse_dec (s : bytes) : N := fold_left (fun a c => 10 * a + dec_val c) s 0.
Definition hex_val (c : N) : N :=
  if (48 <=? c) && (c <=? 57) then c - 48
  else if (65 <=? c) && (c <=? 70) then c - 55
  else c - 87.
Definition parse_hex (s : bytes) : N := fold_left (fun a c => 16 * a + hex_val c) s 0.

Definition hexdigit (d : N) : N := if d <? 10 then 48 + d else 87 + d.
Fixpoint to_hex_aux (fuel : nat) (n : N) (acc : bytes) : bytes :=
  match fuel with
  | O => acc
  | S f => let acc' := hexdigit (n mod 16) :: acc in
           if n / 16 =? 0 then acc' else to_hex_aux f (n / 16) acc'
  end.
(* Python f"{n:x}" *)
Definition to_hex (n : N) : bytes := to_hex_aux (S (N.to_nat (N.log2 n))) n [].

Fixpoint has_byte (x : N) (s : bytes) : bool :=
  match s with [] => false | c :: s' => (c =? x) || has_byte x s' end.

Fixpoint takeN (n : N) (s : bytes) : bytes * bytes :=
  (* (first n bytes, rest); structural on s *)
  match s with
  | [] => ([], [])
  | c :: s' => if n =? 0 then ([], s) else let '(a, b) := takeN (n - 1) s' in (c :: a, b)
  end.
