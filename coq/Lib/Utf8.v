(* UTF-8 encoder with Python's strict semantics: str.encode("utf-8") raises on surrogates. *)
From AV Require Import Lib.Base.
From Coq Require Import ZifyBool ZifyN.
Ltac Zify.zify_post_hook ::= Z.to_euclidean_division_equations.
Open Scope N_scope.

Definition utf8_char (c : N) : option bytes :=
  if c <? 128 then Some [c]
  else if c <? 2048 then Some [192 + c / 64; 128 + c mod 64]
  else if c <? 65536 then
    if (55296 <=? c) && (c <=? 57343) then None
    else Some [224 + c / 4096; 128 + (c / 64) mod 64; 128 + c mod 64]
  else if c <? 1114112 then
    Some [240 + c / 262144; 128 + (c / 4096) mod 64; 128 + (c / 64) mod 64; 128 + c mod 64]
  else None.

Fixpoint utf8_encode (s : str) : option bytes :=
  match s with
  | [] => Some []
  | c :: s' =>
    match utf8_char c, utf8_encode s' with
    | Some b, Some bs => Some (b ++ bs)
    | _, _ => None
    end
  end.

Lemma Some_inj {A} (x y : A) : Some x = Some y -> x = y.
Proof. congruence. Qed.

(* every byte produced for a code point is either that (ASCII) code point itself or >= 128 *)
Lemma utf8_char_bytes c b x :
  utf8_char c = Some b -> In x b -> (x = c /\ c < 128) \/ (128 <= x /\ x < 256).
Proof.
  unfold utf8_char. intros H Hin.
  destruct (c <? 128) eqn:E1.
  { apply Some_inj in H. subst b. cbn [In] in Hin. destruct Hin as [<-|[]]. left. lia. }
  destruct (c <? 2048) eqn:E2.
  { apply Some_inj in H. subst b. cbn [In] in Hin. right. destruct Hin as [<-|[<-|[]]]; lia. }
  destruct (c <? 65536) eqn:E3.
  { destruct ((55296 <=? c) && (c <=? 57343)) eqn:E4; [discriminate|].
    apply Some_inj in H. subst b. cbn [In] in Hin. right.
    destruct Hin as [<-|[<-|[<-|[]]]]; lia. }
  destruct (c <? 1114112) eqn:E5; [|discriminate].
  apply Some_inj in H. subst b. cbn [In] in Hin. right.
  destruct Hin as [<-|[<-|[<-|[<-|[]]]]]; lia.
Qed.

Lemma utf8_encode_app a b :
  utf8_encode (a ++ b) =
  match utf8_encode a, utf8_encode b with
  | Some x, Some y => Some (x ++ y)
  | _, _ => None
  end.
Proof.
  induction a as [|c a IH]; cbn [utf8_encode app].
  - destruct (utf8_encode b); reflexivity.
  - rewrite IH. destruct (utf8_char c) as [bc|]; [|reflexivity].
    destruct (utf8_encode a) as [x|]; [|reflexivity].
    destruct (utf8_encode b) as [y|]; [|reflexivity].
    now rewrite app_assoc.
Qed.

Lemma utf8_encode_bytes s b x :
  utf8_encode s = Some b -> In x b -> (In x s /\ x < 128) \/ (128 <= x /\ x < 256).
Proof.
  revert b. induction s as [|c s IH]; cbn [utf8_encode]; intros b H Hin.
  - apply Some_inj in H. subst. destruct Hin.
  - destruct (utf8_char c) as [bc|] eqn:Ec; [|discriminate].
    destruct (utf8_encode s) as [bs|] eqn:Es; [|discriminate].
    apply Some_inj in H. subst b. apply in_app_or in Hin as [Hin|Hin].
    + destruct (utf8_char_bytes _ _ _ Ec Hin) as [[-> Hlt]|Hge]; [left|right; exact Hge].
      split; [left; reflexivity|exact Hlt].
    + destruct (IH _ eq_refl Hin) as [[Hi Hlt]|Hge]; [left|right; exact Hge].
      split; [right; exact Hi|exact Hlt].
Qed.

(* ASCII strings encode to themselves *)
Lemma utf8_encode_ascii s : forallb (fun c => c <? 128) s = true -> utf8_encode s = Some s.
Proof.
  induction s as [|c s IH]; cbn [forallb utf8_encode]; [reflexivity|].
  intro H. apply andb_true_iff in H as [Hc Hs]. rewrite (IH Hs).
  unfold utf8_char. rewrite Hc. reflexivity.
Qed.
