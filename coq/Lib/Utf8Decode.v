(* CPython text primitives the lax (response) parser applies to DECODED text:
     bytes.decode("utf-8", "surrogateescape")   -> decode_se
     str.isspace() / the separator set of str.split() and str.strip() without argument -> py_isspace
     str.split(maxsplit=1), str.strip()         -> split1, strip_sp
     the part of str.lower() that can produce an ASCII letter -> lowerU
   Definitions and a few basic lemmas.  harness/httpresp.py compares decode_se, py_isspace and
   lowerU with CPython exhaustively (every code point; every 1..4 byte sequence class). *)
From AV Require Import Lib.Base Lib.Utf8 Lib.Utf8Valid.
From Coq Require Import ZifyBool ZifyN.
Ltac Zify.zify_post_hook ::= Z.to_euclidean_division_equations.
Open Scope N_scope.

(* surrogateescape: an undecodable byte b (always >= 0x80) becomes U+DC00 + b.  CPython hands the
   error handler the maximal invalid prefix (1..3 bytes) and resumes after it; every byte of that
   prefix after the first is a continuation byte, which is itself an invalid start byte, so escaping
   one byte and resuming at the next gives the same text. *)
Definition esc (b : N) : N := 56320 + b.

Fixpoint decode_se (s : bytes) : str :=
  match s with
  | [] => []
  | b0 :: r =>
    if b0 <? 128 then b0 :: decode_se r
    else if in_rng 194 223 b0 then
      match r with
      | b1 :: r1 => if cont b1 then ((b0 - 192) * 64 + (b1 - 128)) :: decode_se r1 else esc b0 :: decode_se r
      | _ => esc b0 :: decode_se r
      end
    else if in_rng 224 239 b0 then
      match r with
      | b1 :: b2 :: r2 =>
        if (if b0 =? 224 then in_rng 160 191 b1 else if b0 =? 237 then in_rng 128 159 b1 else cont b1) && cont b2
        then ((b0 - 224) * 4096 + (b1 - 128) * 64 + (b2 - 128)) :: decode_se r2
        else esc b0 :: decode_se r
      | _ => esc b0 :: decode_se r
      end
    else if in_rng 240 244 b0 then
      match r with
      | b1 :: b2 :: b3 :: r3 =>
        if (if b0 =? 240 then in_rng 144 191 b1 else if b0 =? 244 then in_rng 128 143 b1 else cont b1)
           && cont b2 && cont b3
        then ((b0 - 240) * 262144 + (b1 - 128) * 4096 + (b2 - 128) * 64 + (b3 - 128)) :: decode_se r3
        else esc b0 :: decode_se r
      | _ => esc b0 :: decode_se r
      end
    else esc b0 :: decode_se r
  end.

(* Py_UNICODE_ISSPACE: bidirectional type WS/B/S or category Zs *)
Definition py_isspace (c : N) : bool :=
  ((9 <=? c) && (c <=? 13)) || ((28 <=? c) && (c <=? 32)) || (c =? 133) || (c =? 160) || (c =? 5760)
  || ((8192 <=? c) && (c <=? 8202)) || (c =? 8232) || (c =? 8233) || (c =? 8239) || (c =? 8287) || (c =? 12288).

(* stripping by a character class, in linear time (List.rev is quadratic, these run on 8 KiB lines) *)
Fixpoint lstrip_by (p : N -> bool) (s : list N) : list N :=
  match s with
  | c :: s' => if p c then lstrip_by p s' else s
  | [] => []
  end.
Fixpoint rstrip_by (p : N -> bool) (s : list N) : list N :=
  match s with
  | [] => []
  | c :: s' => match rstrip_by p s' with
               | [] => if p c then [] else [c]
               | r => c :: r
               end
  end.
Definition strip_by (p : N -> bool) (s : list N) : list N := rstrip_by p (lstrip_by p s).

Definition lstrip_sp (s : str) : str := lstrip_by py_isspace s.
Definition strip_sp (s : str) : str := strip_by py_isspace s.

(* maximal prefix without whitespace, and the rest *)
Fixpoint span_word (s : str) : str * str :=
  match s with
  | c :: s' => if py_isspace c then ([], s) else let '(w, r) := span_word s' in (c :: w, r)
  | [] => ([], [])
  end.

(* str.split(maxsplit=1): None = [] ; Some (w, None) = [w] ; Some (w, Some r) = [w, r]
   (r keeps its trailing whitespace, has no leading whitespace and is not empty) *)
Definition split1 (s : str) : option (str * option str) :=
  match lstrip_sp s with
  | [] => None
  | s1 => let '(w, r) := span_word s1 in
          match lstrip_sp r with
          | [] => Some (w, None)
          | r' => Some (w, Some r')
          end
  end.

(* str.lower() restricted to what matters for a comparison with an ASCII lower-case word: the only
   non-ASCII code point whose lower-case form contains an ASCII letter of "chunked" is U+212A
   KELVIN SIGN -> "k" (U+0130 gives "i" + U+0307; "i" does not occur in the words compared) *)
Definition lowerU (c : N) : N :=
  if (65 <=? c) && (c <=? 90) then c + 32 else if c =? 8490 then 107 else c.

(* ---- basic facts ---- *)
Lemma decode_se_ascii s : forallb (fun c => c <? 128) s = true -> decode_se s = s.
Proof.
  induction s as [|c s IH]; cbn [forallb decode_se]; [reflexivity|].
  intro H. apply andb_true_iff in H as [Hc Hs]. rewrite Hc, (IH Hs). reflexivity.
Qed.

Lemma lstrip_by_head p s c r : lstrip_by p s = c :: r -> p c = false.
Proof.
  induction s as [|d s IH]; cbn [lstrip_by]; [discriminate|].
  destruct (p d) eqn:E; [exact IH|]. intro H. inversion H; subst. exact E.
Qed.

Lemma lstrip_by_len p s : (length (lstrip_by p s) <= length s)%nat.
Proof. induction s as [|c s IH]; cbn [lstrip_by length]; [lia|]. destruct (p c); cbn [length]; lia. Qed.

Lemma rstrip_by_len p s : (length (rstrip_by p s) <= length s)%nat.
Proof.
  induction s as [|c s IH]; cbn [rstrip_by length]; [lia|].
  destruct (rstrip_by p s) as [|r0 r]; [destruct (p c); cbn [length]; lia|cbn [length] in *; lia].
Qed.

Lemma strip_by_len p s : (length (strip_by p s) <= length s)%nat.
Proof. unfold strip_by. pose proof (rstrip_by_len p (lstrip_by p s)). pose proof (lstrip_by_len p s). lia. Qed.

Lemma span_word_app s w r : span_word s = (w, r) -> s = w ++ r.
Proof.
  revert w r. induction s as [|c s IH]; cbn [span_word]; intros w r H.
  - inversion H; reflexivity.
  - destruct (py_isspace c); [inversion H; reflexivity|].
    destruct (span_word s) as [w' r'] eqn:E. inversion H; subst. cbn [app]. f_equal. now apply IH.
Qed.

Lemma span_word_nospace s w r : span_word s = (w, r) -> forallb (fun c => negb (py_isspace c)) w = true.
Proof.
  revert w r. induction s as [|c s IH]; cbn [span_word]; intros w r H.
  - inversion H; reflexivity.
  - destruct (py_isspace c) eqn:Ec; [inversion H; reflexivity|].
    destruct (span_word s) as [w' r'] eqn:E. inversion H; subst. cbn [forallb]. rewrite Ec. cbn. now apply (IH w' r).
Qed.
