(* Common definitions: bytes are lists of N (each < 256 where a theorem needs it). *)
From Coq Require Export NArith ZArith List Bool Lia.
Export ListNotations.
Open Scope N_scope.

Definition byte := N.
Definition bytes := list N.
Definition str := list N.   (* Unicode code points *)

Definition CR : N := 13.
Definition LF : N := 10.
Definition SP : N := 32.
Definition HT : N := 9.
Definition COLON : N := 58.
Definition CRLF : bytes := [13; 10].

Fixpoint list_eqb (a b : list N) : bool :=
  match a, b with
  | [], [] => true
  | x :: a', y :: b' => (x =? y) && list_eqb a' b'
  | _, _ => false
  end.

Fixpoint memN (x : N) (l : list N) : bool :=
  match l with [] => false | y :: l' => (x =? y) || memN x l' end.

Fixpoint starts_with (p s : list N) : bool :=
  match p, s with
  | [], _ => true
  | x :: p', y :: s' => (x =? y) && starts_with p' s'
  | _ :: _, [] => false
  end.

Definition lenN {A} (l : list A) : N := N.of_nat (length l).

(* forces positive/N/Z/nat into every extraction so ocaml/common/conv.ml always links *)
Definition keep (p : positive) (n : N) (z : Z) (k : nat) : nat :=
  match z with Z0 => k | _ => S (N.to_nat n + Pos.to_nat p) end.

Lemma list_eqb_eq a b : list_eqb a b = true <-> a = b.
Proof.
  revert b; induction a as [|x a IH]; destruct b as [|y b]; simpl; split; intro H;
    try reflexivity; try discriminate.
  - apply andb_true_iff in H as [H1 H2]. apply N.eqb_eq in H1. apply IH in H2. now subst.
  - inversion H; subst. rewrite N.eqb_refl. simpl. now apply IH.
Qed.

Lemma memN_In x l : memN x l = true <-> In x l.
Proof.
  induction l as [|y l IH]; simpl; [split; [discriminate|tauto]|].
  rewrite orb_true_iff, N.eqb_eq, IH. split; intros [H|H]; auto.
Qed.

Lemma lenN_app {A} (a b : list A) : lenN (a ++ b) = lenN a + lenN b.
Proof. unfold lenN. rewrite app_length. lia. Qed.

Lemma lenN_cons {A} (x : A) (l : list A) : lenN (x :: l) = 1 + lenN l.
Proof. unfold lenN. simpl length. lia. Qed.
