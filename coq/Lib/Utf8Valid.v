(* Strict UTF-8 validator = the acceptance condition of CPython's bytes.decode("utf-8"):
   shortest form only, no surrogates (U+D800..U+DFFF), nothing above U+10FFFF (RFC 3629 table 3-7).
   Tied to the encoder of Lib/Utf8.v: every encoding is valid, every valid string is an encoding. *)
From AV Require Import Lib.Base Lib.Utf8.
From Coq Require Import ZifyBool ZifyN.
Ltac Zify.zify_post_hook ::= Z.to_euclidean_division_equations.
Open Scope N_scope.

Definition cont (b : N) : bool := (128 <=? b) && (b <=? 191).
Definition in_rng (lo hi b : N) : bool := (lo <=? b) && (b <=? hi).

Fixpoint utf8_valid (s : bytes) : bool :=
  match s with
  | [] => true
  | b0 :: r =>
    if b0 <? 128 then utf8_valid r
    else if in_rng 194 223 b0 then
      match r with b1 :: r1 => cont b1 && utf8_valid r1 | _ => false end
    else if in_rng 224 239 b0 then
      match r with
      | b1 :: b2 :: r2 =>
        (if b0 =? 224 then in_rng 160 191 b1 else if b0 =? 237 then in_rng 128 159 b1 else cont b1)
        && cont b2 && utf8_valid r2
      | _ => false
      end
    else if in_rng 240 244 b0 then
      match r with
      | b1 :: b2 :: b3 :: r3 =>
        (if b0 =? 240 then in_rng 144 191 b1 else if b0 =? 244 then in_rng 128 143 b1 else cont b1)
        && cont b2 && cont b3 && utf8_valid r3
      | _ => false
      end
    else false
  end.

(* decoder used only to state completeness *)
Fixpoint utf8_decode (s : bytes) : option str :=
  match s with
  | [] => Some []
  | b0 :: r =>
    if b0 <? 128 then option_map (cons b0) (utf8_decode r)
    else if in_rng 194 223 b0 then
      match r with
      | b1 :: r1 => if cont b1 then option_map (cons ((b0 - 192) * 64 + (b1 - 128))) (utf8_decode r1) else None
      | _ => None end
    else if in_rng 224 239 b0 then
      match r with
      | b1 :: b2 :: r2 =>
        if (if b0 =? 224 then in_rng 160 191 b1 else if b0 =? 237 then in_rng 128 159 b1 else cont b1) && cont b2
        then option_map (cons ((b0 - 224) * 4096 + (b1 - 128) * 64 + (b2 - 128))) (utf8_decode r2) else None
      | _ => None end
    else if in_rng 240 244 b0 then
      match r with
      | b1 :: b2 :: b3 :: r3 =>
        if (if b0 =? 240 then in_rng 144 191 b1 else if b0 =? 244 then in_rng 128 143 b1 else cont b1) && cont b2 && cont b3
        then option_map (cons ((b0 - 240) * 262144 + (b1 - 128) * 4096 + (b2 - 128) * 64 + (b3 - 128))) (utf8_decode r3) else None
      | _ => None end
    else None
  end.

Lemma utf8_valid_decode s : utf8_valid s = true <-> exists t, utf8_decode s = Some t.
Proof.
  remember (length s) as n eqn:Hn. revert s Hn.
  induction n as [n IH] using lt_wf_ind. intros s Hn.
  destruct s as [|b0 r]; cbn [utf8_valid utf8_decode].
  { split; [eexists; reflexivity|reflexivity]. }
  assert (Hrec: forall r', (length r' < n)%nat ->
     forall f : N, (utf8_valid r' = true <-> exists t, option_map (cons f) (utf8_decode r') = Some t)).
  { intros r' Hl f. rewrite (IH _ Hl r' eq_refl). split; intros [t Ht].
    - rewrite Ht. eexists; reflexivity.
    - destruct (utf8_decode r'); [eexists; reflexivity|discriminate]. }
  assert (Hno: (exists t : str, @None str = Some t) <-> false = true) by (split; [intros [? ?]; discriminate|discriminate]).
  cbn [length] in Hn.
  destruct (b0 <? 128). { apply Hrec. lia. }
  destruct (in_rng 194 223 b0).
  { destruct r as [|b1 r1]; [symmetry; exact Hno|]. cbn [length] in Hn.
    destruct (cont b1); cbn [andb]; [apply Hrec; lia|symmetry; exact Hno]. }
  destruct (in_rng 224 239 b0).
  { destruct r as [|b1 [|b2 r2]]; try (symmetry; exact Hno). cbn [length] in Hn.
    destruct ((if b0 =? 224 then in_rng 160 191 b1 else if b0 =? 237 then in_rng 128 159 b1 else cont b1) && cont b2);
      cbn [andb]; [apply Hrec; lia|symmetry; exact Hno]. }
  destruct (in_rng 240 244 b0).
  { destruct r as [|b1 [|b2 [|b3 r3]]]; try (symmetry; exact Hno). cbn [length] in Hn.
    destruct ((if b0 =? 240 then in_rng 144 191 b1 else if b0 =? 244 then in_rng 128 143 b1 else cont b1) && cont b2 && cont b3);
      cbn [andb]; [apply Hrec; lia|symmetry; exact Hno]. }
  symmetry; exact Hno.
Qed.

(* the encoding of one scalar value is accepted and the validator then continues with the rest *)
Lemma utf8_valid_char c b r : utf8_char c = Some b -> utf8_valid (b ++ r) = utf8_valid r.
Proof.
  unfold utf8_char. intro H.
  destruct (c <? 128) eqn:E1.
  { apply Some_inj in H. subst b. cbn [app utf8_valid]. rewrite E1. reflexivity. }
  destruct (c <? 2048) eqn:E2.
  { apply Some_inj in H. subst b. cbn [app utf8_valid]. unfold in_rng, cont.
    replace (192 + c / 64 <? 128) with false by lia.
    replace ((194 <=? 192 + c / 64) && (192 + c / 64 <=? 223)) with true by lia.
    replace ((128 <=? 128 + c mod 64) && (128 + c mod 64 <=? 191)) with true by lia. reflexivity. }
  destruct (c <? 65536) eqn:E3.
  { destruct ((55296 <=? c) && (c <=? 57343)) eqn:E4; [discriminate|].
    apply Some_inj in H. subst b. cbn [app utf8_valid]. unfold in_rng, cont.
    replace (224 + c / 4096 <? 128) with false by lia.
    replace ((194 <=? 224 + c / 4096) && (224 + c / 4096 <=? 223)) with false by lia.
    replace ((224 <=? 224 + c / 4096) && (224 + c / 4096 <=? 239)) with true by lia.
    replace ((128 <=? 128 + c mod 64) && (128 + c mod 64 <=? 191)) with true by lia.
    destruct (224 + c / 4096 =? 224) eqn:E5.
    { replace ((160 <=? 128 + (c / 64) mod 64) && (128 + (c / 64) mod 64 <=? 191)) with true by lia. reflexivity. }
    destruct (224 + c / 4096 =? 237) eqn:E6.
    { replace ((128 <=? 128 + (c / 64) mod 64) && (128 + (c / 64) mod 64 <=? 159)) with true by lia. reflexivity. }
    replace ((128 <=? 128 + (c / 64) mod 64) && (128 + (c / 64) mod 64 <=? 191)) with true by lia. reflexivity. }
  destruct (c <? 1114112) eqn:E5; [|discriminate].
  apply Some_inj in H. subst b. cbn [app utf8_valid]. unfold in_rng, cont.
  replace (240 + c / 262144 <? 128) with false by lia.
  replace ((194 <=? 240 + c / 262144) && (240 + c / 262144 <=? 223)) with false by lia.
  replace ((224 <=? 240 + c / 262144) && (240 + c / 262144 <=? 239)) with false by lia.
  replace ((240 <=? 240 + c / 262144) && (240 + c / 262144 <=? 244)) with true by lia.
  replace ((128 <=? 128 + c mod 64) && (128 + c mod 64 <=? 191)) with true by lia.
  replace ((128 <=? 128 + (c / 64) mod 64) && (128 + (c / 64) mod 64 <=? 191)) with true by lia.
  destruct (240 + c / 262144 =? 240) eqn:E6.
  { replace ((144 <=? 128 + (c / 4096) mod 64) && (128 + (c / 4096) mod 64 <=? 191)) with true by lia. reflexivity. }
  destruct (240 + c / 262144 =? 244) eqn:E7.
  { replace ((128 <=? 128 + (c / 4096) mod 64) && (128 + (c / 4096) mod 64 <=? 143)) with true by lia. reflexivity. }
  replace ((128 <=? 128 + (c / 4096) mod 64) && (128 + (c / 4096) mod 64 <=? 191)) with true by lia. reflexivity.
Qed.

(* soundness of the validator w.r.t. the encoder: whatever str.encode produces is accepted *)
Lemma utf8_encode_valid s b : utf8_encode s = Some b -> utf8_valid b = true.
Proof.
  revert b. induction s as [|c s IH]; cbn [utf8_encode]; intros b H.
  - apply Some_inj in H. subst. reflexivity.
  - destruct (utf8_char c) as [bc|] eqn:Ec; [|discriminate].
    destruct (utf8_encode s) as [bs|] eqn:Es; [|discriminate].
    apply Some_inj in H. subst b. rewrite (utf8_valid_char _ _ _ Ec). apply IH. reflexivity.
Qed.

(* completeness: a valid string is the encoding of the scalar values it decodes to *)
Lemma utf8_char_1 b0 : (b0 <? 128) = true -> utf8_char b0 = Some [b0].
Proof. intro H. unfold utf8_char. rewrite H. reflexivity. Qed.

Lemma utf8_char_2 b0 b1 : in_rng 194 223 b0 = true -> cont b1 = true ->
  utf8_char ((b0 - 192) * 64 + (b1 - 128)) = Some [b0; b1].
Proof.
  unfold in_rng, cont, utf8_char. intros H0 H1. set (c := (b0 - 192) * 64 + (b1 - 128)).
  assert (Hc : 128 <= c < 2048 /\ c / 64 = b0 - 192 /\ c mod 64 = b1 - 128) by (subst c; lia).
  replace (c <? 128) with false by lia. replace (c <? 2048) with true by lia.
  destruct Hc as (_ & -> & ->). repeat f_equal; lia.
Qed.

Lemma utf8_char_3 b0 b1 b2 : in_rng 224 239 b0 = true ->
  (if b0 =? 224 then in_rng 160 191 b1 else if b0 =? 237 then in_rng 128 159 b1 else cont b1) = true -> cont b2 = true ->
  utf8_char ((b0 - 224) * 4096 + (b1 - 128) * 64 + (b2 - 128)) = Some [b0; b1; b2].
Proof.
  unfold in_rng, cont, utf8_char. intros H0 H1 H2. set (c := (b0 - 224) * 4096 + (b1 - 128) * 64 + (b2 - 128)).
  assert (Hb1 : 128 <= b1 <= 191 /\ (b0 = 224 -> 160 <= b1) /\ (b0 = 237 -> b1 <= 159)).
  { destruct (b0 =? 224) eqn:E1; [lia|]. destruct (b0 =? 237) eqn:E2; lia. }
  assert (Hc : 2048 <= c < 65536 /\ c / 4096 = b0 - 224 /\ (c / 64) mod 64 = b1 - 128 /\ c mod 64 = b2 - 128
               /\ (c < 55296 \/ 57343 < c)) by (subst c; lia).
  replace (c <? 128) with false by lia. replace (c <? 2048) with false by lia. replace (c <? 65536) with true by lia.
  replace ((55296 <=? c) && (c <=? 57343)) with false by lia.
  destruct Hc as (_ & -> & -> & -> & _). repeat f_equal; lia.
Qed.

Lemma utf8_char_4 b0 b1 b2 b3 : in_rng 240 244 b0 = true ->
  (if b0 =? 240 then in_rng 144 191 b1 else if b0 =? 244 then in_rng 128 143 b1 else cont b1) = true ->
  cont b2 = true -> cont b3 = true ->
  utf8_char ((b0 - 240) * 262144 + (b1 - 128) * 4096 + (b2 - 128) * 64 + (b3 - 128)) = Some [b0; b1; b2; b3].
Proof.
  unfold in_rng, cont, utf8_char. intros H0 H1 H2 H3.
  set (c := (b0 - 240) * 262144 + (b1 - 128) * 4096 + (b2 - 128) * 64 + (b3 - 128)).
  assert (Hb1 : 128 <= b1 <= 191 /\ (b0 = 240 -> 144 <= b1) /\ (b0 = 244 -> b1 <= 143)).
  { destruct (b0 =? 240) eqn:E1; [lia|]. destruct (b0 =? 244) eqn:E2; lia. }
  assert (Hc : 65536 <= c < 1114112 /\ c / 262144 = b0 - 240 /\ (c / 4096) mod 64 = b1 - 128
               /\ (c / 64) mod 64 = b2 - 128 /\ c mod 64 = b3 - 128) by (subst c; lia).
  replace (c <? 128) with false by lia. replace (c <? 2048) with false by lia. replace (c <? 65536) with false by lia.
  replace (c <? 1114112) with true by lia.
  destruct Hc as (_ & -> & -> & -> & ->). repeat f_equal; lia.
Qed.

Lemma utf8_decode_encode b : forall t, utf8_decode b = Some t -> utf8_encode t = Some b.
Proof.
  remember (length b) as n eqn:Hn. revert b Hn.
  induction n as [n IH] using lt_wf_ind. intros b Hn t.
  destruct b as [|b0 r]; cbn [utf8_decode].
  { intros [= <-]. reflexivity. }
  cbn [length] in Hn.
  assert (Hrec : forall r' (cp : N) (enc : bytes), (length r' < n)%nat -> utf8_char cp = Some enc ->
            option_map (cons cp) (utf8_decode r') = Some t -> utf8_encode t = Some (enc ++ r')).
  { intros r' cp enc Hl Hc Hd. destruct (utf8_decode r') as [t'|] eqn:Er; [|discriminate].
    cbn [option_map] in Hd. apply Some_inj in Hd. subst t. cbn [utf8_encode]. rewrite Hc.
    rewrite (IH _ Hl r' eq_refl t' Er). reflexivity. }
  destruct (b0 <? 128) eqn:E1.
  { intro H. change (b0 :: r) with ([b0] ++ r). eapply Hrec; [|apply utf8_char_1; exact E1|exact H]; lia. }
  destruct (in_rng 194 223 b0) eqn:E2.
  { destruct r as [|b1 r1]; [discriminate|]. cbn [length] in Hn. destruct (cont b1) eqn:C1; [|discriminate].
    intro H. change (b0 :: b1 :: r1) with ([b0; b1] ++ r1). eapply Hrec; [|apply utf8_char_2; assumption|exact H]; lia. }
  destruct (in_rng 224 239 b0) eqn:E3.
  { destruct r as [|b1 [|b2 r2]]; try discriminate. cbn [length] in Hn.
    destruct (if b0 =? 224 then in_rng 160 191 b1 else if b0 =? 237 then in_rng 128 159 b1 else cont b1) eqn:C1;
      cbn [andb]; [|discriminate].
    destruct (cont b2) eqn:C2; [|discriminate].
    intro H. change (b0 :: b1 :: b2 :: r2) with ([b0; b1; b2] ++ r2). eapply Hrec; [|apply utf8_char_3; assumption|exact H]; lia. }
  destruct (in_rng 240 244 b0) eqn:E4; [|discriminate].
  destruct r as [|b1 [|b2 [|b3 r3]]]; try discriminate. cbn [length] in Hn.
  destruct (if b0 =? 240 then in_rng 144 191 b1 else if b0 =? 244 then in_rng 128 143 b1 else cont b1) eqn:C1;
    cbn [andb]; [|discriminate].
  destruct (cont b2) eqn:C2; cbn [andb]; [|discriminate].
  destruct (cont b3) eqn:C3; [|discriminate].
  intro H. change (b0 :: b1 :: b2 :: b3 :: r3) with ([b0; b1; b2; b3] ++ r3). eapply Hrec; [|apply utf8_char_4; assumption|exact H]; lia.
Qed.

(* valid = is an encoding *)
Lemma utf8_valid_iff_encoding b : utf8_valid b = true <-> exists s, utf8_encode s = Some b.
Proof.
  split.
  - intro H. apply utf8_valid_decode in H as [t Ht]. exists t. apply utf8_decode_encode. exact Ht.
  - intros [s Hs]. eapply utf8_encode_valid. exact Hs.
Qed.
