(* GENERATED from /repo by translator — do not edit; rewritten on every check run *)
From Coq Require Import NArith ZArith List Bool.
Import ListNotations.
Open Scope N_scope.

From AV Require Import Lib.Base.
(* client.py ClientSession._request: `resp.status in (301, 302, 303, 307, 308) and allow_redirects` *)
Definition redirect_statuses : list N := [301; 302; 303; 307; 308].
Definition follow_redirect (status : N) (allow : bool) : bool := ((memN status [301; 302; 303; 307; 308]) && allow).

(* `redirects >= max_redirects` (evaluated after `redirects += 1`) *)
Definition too_many_redirects (redirects max_redirects : Z) : bool := ((max_redirects <=? redirects))%Z.

(* the test that switches the method to GET, drops the body and a caller Content-Length *)
Definition switch_to_get (status : N) (is_head is_post is_get : bool) : bool := (((status =? 303) && (negb is_head)) || ((memN status [301; 302]) && is_post)).

(* helpers.HTTP_AND_EMPTY_SCHEMA_SET minus the empty scheme, as scheme codes http=0, https=1, ws=2, wss=3, ftp=4, mailto=5, file=6 *)
Definition scheme_allowed (s : N) : bool := memN s [0; 1].
