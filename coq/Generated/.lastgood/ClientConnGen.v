(* GENERATED from /repo by translator — do not edit; rewritten on every check run *)
From Coq Require Import NArith ZArith List Bool.
Import ListNotations.
Open Scope N_scope.

(* client_proto.ResponseHandler.should_close; pay_open = _payload is not None and not _payload.is_eof();
   pparser = a WebSocket payload parser is installed; buf/tail = _buffer/_tail non-empty;
   pleft = the HTTP parser exists and buffers an incomplete line / head block (_tail or _lines) *)
Definition should_close_gen (sc pay_open upg exc pparser buf tail pleft : bool) : bool :=
  (sc || pay_open || upg || exc || pparser || buf || tail || pleft).

Definition is_connected_gen (has_transport closing : bool) : bool :=
  (has_transport && (negb closing)).

(* data_received: bytes are kept raw in _tail when there is no parser yet or after an upgrade *)
Definition stash_gen (upg noparser : bool) : bool :=
  (upg || noparser).

(* data_received: a message announcing `Connection: close` latches _should_close *)
Definition msg_close_latches_gen : bool := true.

(* connector.BaseConnector._release: close instead of pooling; pooled at the right end of _conns[key] *)
Definition release_closes_gen (force arg psc : bool) : bool :=
  (force || arg || psc).

(* connector.BaseConnector._get: the pooled connection taken from the left end is reused iff ...;
   psc = protocol.should_close (absent from the unchanged code) *)
Definition get_reuses_gen (connected psc : bool) (age keepalive : Z) : bool :=
  connected && (negb psc) && (age <=? keepalive)%Z.

(* client_reqrep.ClientResponse._response_eof: releases unless already closed or the protocol is upgraded *)
Definition response_eof_releases_gen (closed upgraded : bool) : bool :=
  (negb closed) && (negb upgraded).

(* the seven request properties a connection is pooled under (client_reqrep.ConnectionKey), each abstracted
   to a code chosen by the harness from the request's own parameters *)
Record reqp := { rq_host : N; rq_port : N; rq_is_ssl : N; rq_ssl : N; rq_proxy : N; rq_phh : N; rq_sni : N }.

(* client_reqrep.ClientRequest.connection_key, in tuple order *)
Definition key_of_req (r : reqp) : list N :=
  [rq_host r; rq_port r; rq_is_ssl r; rq_ssl r; rq_proxy r; rq_phh r; rq_sni r].

(* client._connect_and_send_request: set_response_params, send, start; any failure closes response and connection *)
Definition error_paths_close_gen : bool := true.

(* ClientResponse.close -> Connection.close(); ClientResponse.release -> _release_connection(); a failed read() closes *)
Definition response_close_release_gen : bool := true.

(* connector.Connection.close passes should_close=True to _release, Connection.release does not *)
Definition connection_close_release_gen : bool := true.
