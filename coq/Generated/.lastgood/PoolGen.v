(* GENERATED from /repo by translator — do not edit; rewritten on every check run *)
From Coq Require Import NArith ZArith List Bool.
Import ListNotations.
Open Scope N_scope.

Open Scope Z_scope.

(* connector.BaseConnector._available_connections; nacq = len(self._acquired),
   nhost = len(self._acquired_per_host.get(key) or ()) *)
Definition available_connections (limit lph nacq nhost : Z) : Z :=
  let total_remain0 := 1 in
  let total_remain1 := (if (negb (limit =? 0)) then (limit - nacq) else total_remain0) in
  if ((negb (limit =? 0)) && (total_remain1 <=? 0)) then total_remain1
  else let host_remain0 := lph in
  let k0 := fun (host_remain_j : Z) =>
  total_remain1 in
  if (negb (host_remain0 =? 0)) then let acquired0 := nhost in
  let k1 := fun (host_remain_j : Z) =>
  if (host_remain_j <? total_remain1) then host_remain_j
  else k0 host_remain_j in
  if (negb (acquired0 =? 0)) then let host_remain1 := (host_remain0 - nhost) in
  k1 host_remain1
  else k1 host_remain0
  else k0 host_remain0.

(* connect(): `available = self._available_connections(key)`; fast path `available > 0 and (conn := await self._get(..))` *)
Definition connect_fast_path (a : Z) : bool := (0 <? a).

(* connect(): `if available <= 0: await self._wait_for_available_connection` *)
Definition connect_must_wait (a : Z) : bool := (a <=? 0).

(* _wait_for_available_connection(): `if self._available_connections(key) > 0: break` *)
Definition wait_slot_found (a : Z) : bool := (0 <? a).

(* _release_waiter(): `if self._available_connections(key) < 1: continue` *)
Definition release_skips_key (a : Z) : bool := (a <? 1).

(* _wait_for_available_connection(): `if self._closed: raise ClientConnectionError` at the top of the loop *)
Definition wait_checks_closed : bool := true.

(* _close_immediately(): `self._acquired_per_host.clear()` in the finally block *)
Definition close_clears_per_host : bool := true.

(* _wait_for_available_connection(): a woken waiter that finds no slot calls self._release_waiter() before queueing again *)
Definition requeue_hands_on : bool := true.
