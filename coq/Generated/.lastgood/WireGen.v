(* GENERATED from /repo by translator — do not edit; rewritten on every check run *)
From Coq Require Import NArith ZArith List Bool.
Import ListNotations.
Open Scope N_scope.

(* ClientRequest._create_writer: `if self.chunked and hdrs.TRANSFER_ENCODING in self.headers: writer.enable_chunking()`; c = self.chunked (None / Some bool),
   te = a Transfer-Encoding header is in self.headers *)
Definition writer_chunking_enabled (c : option bool) (te : bool) : bool := match c with Some true => te | _ => false end.

(* ClientRequest.GET_METHODS / ClientRequestBase.POST_METHODS *)
Definition client_get_methods : list (list N) := [[71; 69; 84]; [72; 69; 65; 68]; [79; 80; 84; 73; 79; 78; 83]; [84; 82; 65; 67; 69]].
Definition client_post_methods : list (list N) := [[80; 65; 84; 67; 72]; [80; 79; 83; 84]; [80; 85; 84]].

(* DEFAULT_HEADERS[hdrs.ACCEPT]; the Accept-Encoding and User-Agent defaults depend on the installation and are inputs *)
Definition default_accept : list N := [42; 47; 42].

Definition default_content_type : list N := [97; 112; 112; 108; 105; 99; 97; 116; 105; 111; 110; 47; 111; 99; 116; 101; 116; 45; 115; 116; 114; 101; 97; 109].

(* helpers.EMPTY_BODY_STATUS_CODES *)
Definition empty_body_status (c : N) : bool := (c =? 204) || (c =? 304) || ((100 <=? c) && (c <? 200)).

(* StreamResponse, HTTP/1.0 response with a body and no length: the decision web_protocol reads (self._keep_alive) is
   cleared by write_eof() at the end of the close-delimited body (self._close_delimited) *)
Definition h10_nolength_clears_stored_keepalive : bool := true.

(* ClientRequest._update_expect_continue creates the 100-continue waiter under this condition; the server's default
   expect handler writes `100 Continue` only for an HTTP/1.1 request *)
Definition continue_waiter_created (expect v11 : bool) : bool := expect && v11.
Definition server_sends_100 (expect v11 : bool) : bool := expect && v11.

(* feed_data: empty_body = code in EMPTY_BODY_STATUS_CODES or bool(code and method and method in EMPTY_BODY_METHODS) *)
Definition response_empty_body_rule_is_status_or_head : bool := true.

(* ClientRequestBase._send: `writer.length = content_length` before the body is written, and _write_bytes raises
   ClientPayloadError (no write_eof) when the body source ended short of the declared Content-Length *)
Definition client_counts_declared_length : bool := true.

(* ClientRequest._should_write: body.size != 0 [or the head carries a Content-Length other than "0"] (or Expect /
   paused transport, not modelled) *)
Definition should_write_on_declared_length : bool := true.

(* ClientRequest._write_bytes: writer.write_eof() runs only in the `else:` of the try around the body write,
   i.e. not after a handled OSError / Exception of the body source *)
Definition write_eof_only_after_success : bool := true.
