(* GENERATED from /repo by translator — do not edit; rewritten on every check run *)
From Coq Require Import NArith ZArith List Bool.
Import ListNotations.
Open Scope N_scope.

(* DynamicResource.GOOD (one or more of this class) *)
Definition good_char (c : N) : bool := negb ((c =? 47) || (c =? 123) || (c =? 125)).

(* DynamicResource.DYN: first character of a variable name *)
Definition dyn_name_start (c : N) : bool := ((65 <=? c) && (c <=? 90)) || (c =? 95) || ((97 <=? c) && (c <=? 122)).

(* following characters of a variable name *)
Definition dyn_name_char (c : N) : bool := ((48 <=? c) && (c <=? 57)) || ((65 <=? c) && (c <=? 90)) || (c =? 95) || ((97 <=? c) && (c <=? 122)).

(* _unquote_path_safe: successive str.replace calls, in this order *)
Definition unquote_table : list (list N * list N) := [([37; 50; 70], [47]); ([37; 50; 53], [37])].

(* _requote_path: after quoting, "%25" is turned back into "%" when the input contained "%" *)
Definition requote_fix : list N * list N := ([37; 50; 53], [37]).

(* _get_resource_index_key: canonical.partition(ik_brace)[0].rpartition(ik_sep)[0] when ik_brace occurs;
   then .rstrip(ik_sep), its _path_safe form unless the resource is a PlainResource, or ik_sep *)
Definition ik_brace : N := 123.
Definition ik_sep : N := 47.

(* normalize_path_middleware: 4 re.sub calls; runs of merge_min_run or more '/' become one '/' *)
Definition merge_min_run : N := 2.
