(* GENERATED from /repo by translator — do not edit; rewritten on every check run *)
From Coq Require Import NArith ZArith List Bool.
Import ListNotations.
Open Scope N_scope.

(* helpers.EMPTY_BODY_STATUS_CODES = [204, 304] + ranges [(100, 200)] *)
Definition empty_body_status (c : N) : bool := (c =? 204) || (c =? 304) || ((100 <=? c) && (c <? 200)).

(* HeadersParser (lax): a decoded field value containing one of the characters [0, 10, 13] is InvalidHeader;
   all ASCII, so the test is made on the bytes *)
Definition lax_value_forbidden (c : N) : bool := (c =? 0) || (c =? 10) || (c =? 13).

(* obs-fold: header_length = len(first value) + sum len(continuation lines), each addition checked
   against max_field_size (LineTooLong): shape checked *)
Definition fold_accounting_checked : bool := true.

(* status code: len(status) != 3 or not DIGITS.fullmatch(status) -> BadStatusLine *)
Definition status_code_len : N := 3.

(* close defaults of a response without Connection: close/keep-alive: HTTP/1.0 or older -> close;
   100 <= status < 200 or status in [204, 304] -> keep; Content-Length or Transfer-Encoding -> keep; else close *)
Definition close_default_bodiless (c : N) : bool := (c =? 204) || (c =? 304) || ((100 <=? c) && (c <? 200)).

(* a lax line, complete or buffered, is measured as len(line) - line.endswith(CR) (Model/HttpResp.v len1);
   a buffered lax chunk-size line is measured raw like the complete one: shapes checked *)
Definition lax_line_length_discounts_one_cr : bool := true.

(* lax = not DEBUG; SEP = LF; lines are rstrip(CR)'ed; chunk sizes are strip()'ed; the optional CR after
   chunk data is skipped unless it ends the read (then it stays buffered), nothing after the last-chunk line; _is_chunked_te by rsplit: shapes checked *)
Definition lax_shapes_checked : bool := true.
