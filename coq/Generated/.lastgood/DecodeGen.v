(* GENERATED from /repo by translator — do not edit; rewritten on every check run *)
From Coq Require Import NArith ZArith List Bool.
Import ListNotations.
Open Scope N_scope.

(* body decoding (C09): constants, integer formulas and tests; sizes are N *)
Definition dg_window_min : N := 64.
Definition dg_window_max : N := 65536.
Definition dg_max_members : N := 1024.
Definition dg_unlimited : N := 0.
Definition dg_window_next (window : N) : N := (N.min (window * 2) dg_window_max).
Definition dg_budget (max_length produced : N) : N := (max_length - produced).
(* `budget <= 0` with budget = max_length - produced over Python ints *)
Definition dg_budget_spent (max_length produced : N) : bool := (max_length <=? produced).
Definition dg_too_many_members (members : N) : bool := (dg_max_members <? members).
Definition dg_gzip_reset (eof : bool) (mode max_wbits : N) : bool := eof && (max_wbits <? mode).
Definition dg_maxsize : N := 9223372036854775807.
Definition dg_max_length (mds low : N) : N := if (dg_maxsize <=? low) then 0 else (N.max mds low).
Definition dg_sniff_raw (b0 : N) : bool := negb ((b0 mod 16) =? 8).
(* max(required - len(chunk), 0) *)
Definition dg_remaining (required n : N) : N := (N.max (required - n) 0).
(* all 6 PAYLOAD_NEEDS_INPUT returns of HttpPayloadParser.feed_data clear _paused first *)
Definition dg_needs_input_clears_pause : bool := true.
Definition dg_wait_checks_exception : bool := true.
Definition dg_close_keeps_pending_parser : bool := true.
Definition dg_low (limit : N) : N := limit.
Definition dg_high (limit : N) : N := (limit * 2).
Definition dg_highc (limit : N) : N := (N.max 4 (limit / 16)).
Definition dg_lowc (limit : N) : N := ((dg_highc limit) / 2).
Definition dg_feed_pause (size high : N) : bool := (high <? size).
Definition dg_chunk_pause (nsplits highc : N) : bool := (highc <? nsplits).
(* `not self._eof and` present in the resume test *)
Definition dg_resume_not_eof : bool := true.
Definition dg_resume_size (size low : N) : bool := (size <? low).
(* `or not self._buffer` present in the resume test *)
Definition dg_resume_when_empty : bool := true.
Definition dg_resume_chunks (nsplits lowc : N) : bool := (nsplits <? lowc).
Definition dg_split_stale (s0 cursor : N) : bool := (s0 <? cursor).
Definition dg_raises (n low : N) : bool := (low <? n).
Definition dg_raise_low (n : N) : N := n.
Definition dg_raise_high (n : N) : N := (n * 2).
Definition dg_too_large (body_size cms : N) : bool := (cms <? body_size).
(* the closing-connection gate of RequestHandler.data_received, conjunct by conjunct *)
Definition dg_srv_closing_feeds (nonempty has_req at_eof has_tr has_parser has_pp upgraded : bool) : bool := (has_req) && (negb at_eof) && (has_tr) && (has_parser) && (negb has_pp) && (negb upgraded).
