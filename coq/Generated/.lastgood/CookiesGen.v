(* GENERATED from /repo by translator — do not edit; rewritten on every check run *)
From Coq Require Import NArith ZArith List Bool.
Import ListNotations.
Open Scope N_scope.

Definition MIN_SCHEDULED_COOKIE_EXPIRATION : N := 100.

(* CookieJar.MAX_TIME = int(datetime.datetime.max.replace(tzinfo=datetime.timezone.utc).timestamp()) - 1 *)
Definition MAX_TIME : Z := 253402300799%Z.

(* update_cookies: max_age_expiration = min(time.time() + delta_seconds, self.MAX_TIME) *)
(* the formula with MAX_TIME as a parameter: the model measures time in ticks of 1/TICKS s *)
Definition max_age_deadline_gen (now d max_time : Z) : Z := ((Z.min (now + d) max_time))%Z.
Definition max_age_deadline (now d : Z) : Z := max_age_deadline_gen now d MAX_TIME.

(* _do_expiration: the stale-entry clean-up of the heap runs when *)
Definition heap_cleanup_due (heap_len n_exp : N) : bool := (MIN_SCHEDULED_COOKIE_EXPIRATION <? heap_len) && ((n_exp * 2) <? heap_len).

(* _do_expiration: the pop loop stops at the first entry with *)
Definition heap_entry_stays (when now : Z) : bool := (now <? when)%Z.

(* clear(predicate): a cookie with a recorded deadline is also dropped when *)
Definition clear_drops_deadline (when now : Z) : bool := (when <=? now)%Z.

(* update_cookies: `if expire_time := self._parse_date(expires)` is a truthiness test *)
Definition expires_value_used (t : Z) : bool := true.

(* update_cookies: with an unparseable Max-Age the Expires attribute still applies *)
Definition invalid_max_age_uses_expires : bool := true.

(* shape checked: filter_cookies skips a cookie unless request_url.path.startswith(cookie['path']) *)

(* checked: _cookie_helpers._COOKIE_PATTERN takes each of 28 Expires dates (RFC 1123 / RFC 850 / asctime / numeric zone x 7 weekdays) as one value and still sees the next attribute *)

(* filter_cookies: schemes over which Secure cookies may be sent *)
Definition secure_schemes : list (list N) := [[104; 116; 116; 112; 115]; [119; 115; 115]].

Definition DOT : N := 46.
Definition SLASH : N := 47.

(* shapes checked: CookieJar._is_domain_match, helpers.is_ip_address; _RELATIVE_EXPIRY_ATTRS = {max-age, expires} *)
