(* GENERATED from /repo by translator — do not edit; rewritten on every check run *)
From Coq Require Import NArith ZArith List Bool.
Import ListNotations.
Open Scope N_scope.

(* aiohttp/_websocket/models.py: WSCloseCode *)
Definition ws_close_ok : N := 1000.
Definition ws_close_abnormal : N := 1006.
Definition ws_close_protocol_error : N := 1002.
(* WSMsgType *)
Definition op_text : N := 1.
Definition op_binary : N := 2.
Definition op_ping : N := 9.
Definition op_pong : N := 10.
Definition op_close : N := 8.
Definition op_closing : N := 256.
Definition op_closed : N := 257.
Definition op_error : N := 258.
(* web_ws.THRESHOLD_CONNLOST_ACCESS *)
Definition connlost_threshold : N := 5.
(* self._pong_heartbeat = heartbeat / <d> (both classes) *)
Definition pong_divisor : N := 2.
(* WebSocketWriter.send_frame: `if self._closing and not (opcode & WSMsgType.CLOSE): raise` —
   true when a frame with this opcode may still be written after the close frame *)
Definition closing_write_allowed (opcode : N) : bool := negb (N.land opcode op_close =? 0).
(* http_websocket._INTERNAL_RECEIVE_TYPES *)
Definition internal_recv_type (t : N) : bool := (t =? 8) || (t =? 256) || (t =? 9) || (t =? 10).
(* statement shapes of close()/receive()/_handle_ping_pong_exception/WebSocketWriter.close checked by the translator *)
Definition ws_session_shapes_checked : bool := true.
