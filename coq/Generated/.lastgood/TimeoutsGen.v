(* GENERATED from /repo by translator — do not edit; rewritten on every check run *)
From Coq Require Import NArith ZArith List Bool.
Import ListNotations.
Open Scope N_scope.

Open Scope Z_scope.

(* math.ceil of a time counted in ticks of 1/u second: the least multiple of u that is >= x *)
Definition ceil_to (u x : Z) : Z := ((x + (u - 1)) / u) * u.

(* helpers.TimeoutHandle.start / .timer guard *)
Definition total_enabled (o : option Z) : bool :=
  match o with None => false | Some t => (true && (0 <? t)) end.
(* helpers.TimeoutHandle.start: loop.call_at(<this>, self.__call__) *)
Definition total_when (u now t thr : Z) : Z :=
  let when1 := (now + t) in
  let when2 := if (thr <=? t) then (ceil_to u when1) else when1 in
  when2.

(* helpers.TimerContext: timeout() cancels every task inside and latches; __enter__ raises when latched;
   __exit__ turns the CancelledError into TimeoutError unless the task was cancelled from outside too *)

(* helpers.ceil_timeout: negation of its `return timeout(None)` guard *)
Definition ctx_enabled (o : option Z) : bool :=
  match o with None => false | Some t => (negb (false || (t <=? 0))) end.
(* helpers.ceil_timeout: async_timeout.timeout_at(<this>) *)
Definition ctx_when (u now t thr : Z) : Z :=
  let when1 := (now + t) in
  let when2 := if (thr <? t) then (ceil_to u when1) else when1 in
  when2.

(* client_proto.ResponseHandler._reschedule_timeout: `if timeout:` *)
Definition read_enabled (o : option Z) : bool :=
  match o with None => false | Some t => (negb (t =? 0)) end.
(* loop.call_later(timeout, self._on_read_timeout): no rounding *)
Definition read_when (now t : Z) : Z := now + t.

Definition orz (o : option Z) : Z := match o with Some x => x | None => 0 end.
(* client_reqrep.ClientTimeout.__post_init__: total is raised to the largest specific timeout (CHANGES/7274) *)
Definition effective_total (total connect sock_read sock_connect : option Z) : option Z :=
  match total with None => None | Some t => Some (Z.max (Z.max (Z.max t (orz connect)) (orz sock_read)) (orz sock_connect)) end.
(* defaults: total = 5*60 s, connect = sock_read = sock_connect = None, ceil_threshold = 5 s *)
Definition default_total_s : Z := 300.
Definition default_ceil_threshold_s : Z := 5.

(* client.ClientSession._request: TimeoutHandle(total) started before the first await, its TimerContext wraps the
   whole exchange and is handed to the response; read_timeout = sock_read; the handle is cancelled when the
   connection is released or on any failure *)
(* client._connect_and_send_request: TimeoutError from connect() -> ConnectionTimeoutError; any failure while
   sending / awaiting the head: resp.close() then conn.close() (never release) *)
(* connector.BaseConnector.connect: idle reuse happens before (outside) ceil_timeout(connect); waiting for a slot and
   creating the connection happen inside it; the placeholder is released on any failure; no await after the swap *)
(* connector.TCPConnector._wrap_create_connection: ceil_timeout(sock_connect) around start_connection + create_connection *)

(* connector.BaseConnector._available_connections; nacq = len(self._acquired),
   nhost = len(self._acquired_per_host.get(key) or ()) *)
Definition available_connections (limit lph nacq nhost : Z) : Z :=
  let total_remain0 := 1 in
  let total_remain1 := (if (negb (limit =? 0)) then (limit - nacq) else total_remain0) in
  if ((negb (limit =? 0)) && (total_remain1 <=? 0)) then total_remain1
  else let host_remain0 := lph in
  let k0 := fun (host_remain_j : Z) =>
  total_remain1 in
  if (negb (host_remain0 =? 0)) then let acquired0 := nhost in
  let k1 := fun (host_remain_j : Z) =>
  if (host_remain_j <? total_remain1) then host_remain_j
  else k0 host_remain_j in
  if (negb (acquired0 =? 0)) then let host_remain1 := (host_remain0 - nhost) in
  k1 host_remain1
  else k1 host_remain0
  else k0 host_remain0.

(* connect(): `if <capacity> <= 0: await self._wait_for_available_connection` *)
Definition connect_must_wait (a : Z) : bool := (a <=? 0).

(* _wait_for_available_connection(): `if self._available_connections(key) > 0: break` *)
Definition wait_slot_found (a : Z) : bool := (0 <? a).

(* _release_waiter(): `if self._available_connections(key) < 1: continue` *)
Definition release_skips_key (a : Z) : bool := (a <? 1).
