(* GENERATED from /repo by translator — do not edit; rewritten on every check run *)
From Coq Require Import NArith ZArith List Bool.
Import ListNotations.
Open Scope N_scope.

(* from aiohttp/streams.py, class StreamReader; all quantities are Python ints = Z *)
Open Scope Z_scope.

Definition init_low_water (limit : Z) : Z := limit.
Definition init_high_water (limit : Z) : Z := (limit * 2).
Definition init_high_water_chunks (limit : Z) : Z := (Z.max 4 (limit / 16)).
Definition init_low_water_chunks (limit : Z) : Z := ((init_high_water_chunks limit) / 2).
Definition chunk_size_raises (n low : Z) : bool := (low <? n).
Definition chunk_size_low (n : Z) : Z := n.
Definition chunk_size_high (n : Z) : Z := (n * 2).
Definition feed_pause (size high : Z) : bool := (high <? size).
Definition chunk_pause (nsplits highc : Z) : bool := (highc <? nsplits).
Definition empty_chunk (total pos : Z) : bool := (total =? pos).
Definition take_partial (avail n : Z) : bool := (negb (n =? (-1))) && (n <? avail).
Definition split_stale (s0 cursor : Z) : bool := (s0 <? cursor).
Definition resume_open (eof : bool) : bool := negb eof.
Definition resume_size (size low : Z) : bool := (size <? low).
Definition resume_bytes (size low : Z) (buffer_empty : bool) : bool := resume_size size low || buffer_empty.
Definition resume_chunks (nsplits lowc : Z) : bool := (nsplits <? lowc).
Definition readchunk_at (pos cursor : Z) : bool := (pos =? cursor).
Definition readchunk_ahead (pos cursor : Z) : bool := (cursor <? pos).
Definition line_too_long (chunk_size max_size : Z) : bool := (max_size <? chunk_size).
(* readuntil: `max_size = max_size or self._high_water` (None and 0 both select the high-water mark) *)
Definition until_max (max_size high : Z) : Z := if max_size =? 0 then high else max_size.
(* _wait raises a pending self._exception before creating the waiter *)
Definition wait_checks_exception : bool := true.
(* sys.maxsize of the interpreter running the check *)
Definition read_all_chunk_size : Z := 9223372036854775807.
