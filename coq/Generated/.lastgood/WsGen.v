(* GENERATED from /repo by translator — do not edit; rewritten on every check run *)
From Coq Require Import NArith ZArith List Bool.
Import ListNotations.
Open Scope N_scope.

Fixpoint ws_mem (x : N) (l : list N) : bool :=
  match l with [] => false | y :: l' => (x =? y) || ws_mem x l' end.

(* aiohttp/_websocket/models.py WSMsgType (wire opcodes) *)
Definition OP_CONTINUATION : N := 0.
Definition OP_TEXT : N := 1.
Definition OP_BINARY : N := 2.
Definition OP_CLOSE : N := 8.
Definition OP_PING : N := 9.
Definition OP_PONG : N := 10.

(* WSCloseCode members; reader_py.ALLOWED_CLOSE_CODES = {int(i) for i in WSCloseCode if i is not WSCloseCode.<excluded>} *)
(* excluded member: WSCloseCode.ABNORMAL_CLOSURE = 1006 *)
Definition ALLOWED_CLOSE_CODES : list N := [1000; 1001; 1002; 1003; 1007; 1008; 1009; 1010; 1011; 1012; 1013; 1014].
Definition CODE_PROTOCOL_ERROR : N := 1002.
Definition CODE_INVALID_TEXT : N := 1007.
Definition CODE_MESSAGE_TOO_BIG : N := 1009.
Definition WS_DEFLATE_TRAILING : list N := [0; 0; 255; 255].
(* MAX_PAYLOAD_LEN = sys.maxsize on the 64-bit CPython the check runs under *)
Definition MAX_PAYLOAD_LEN : N := 9223372036854775807.
Definition max_fragments (max_msg_size : N) : N :=
  if max_msg_size =? 0 then 0 else (N.max 1024 (max_msg_size / 256)).

(* READ_HEADER tests, in source order *)
Definition hdr_rsv_bad (rsv1 rsv2 rsv3 compress : bool) : bool := (rsv2 || rsv3 || (rsv1 && (negb compress))).
Definition hdr_opcode_bad (opcode : N) : bool := (negb (ws_mem opcode [0; 1; 2; 8; 9; 10])).
Definition hdr_ctl_fragmented (opcode : N) (fin : bool) : bool := ((7 <? opcode) && (negb fin)).
Definition hdr_ctl_too_long (opcode length : N) : bool := ((7 <? opcode) && (125 <? length)).
Definition hdr_is_control (opcode : N) : bool := (7 <? opcode).
(* `self._frame_fin or self._compressed == COMPRESSED_NOT_SET` with NOT_SET encoded as 2 *)
Definition hdr_first_fragment (frame_fin : bool) (compressed : N) : bool := (frame_fin || (compressed =? 2)).

(* READ_PAYLOAD_LENGTH tests *)
Definition len64_too_big (frame_len : N) : bool := (9223372036854775807 <? frame_len).
(* Python integers: the subtraction is kept as written, in Z *)
Definition size_reject (to_read max_msg_size partial_len : Z) : bool := ((max_msg_size - partial_len) <? to_read)%Z.
Definition size_check_applies (max_msg_size opcode : N) : bool := ((negb (max_msg_size =? 0)) && (ws_mem opcode [1; 2; 0])).

(* had_fragments = len(self._payload_fragments)  (truthiness); the `if had_fragments:` branch appends, joins and clears the list *)
Definition had_fragments (nfrags frame_payload_len : N) : bool := negb (nfrags =? 0).

(* _handle_frame tests *)
(* OP_CODE_NOT_SET (-1) is encoded as 16 *)
Definition cont_not_started (opcode msg_opcode : N) : bool := ((opcode =? 0) && (msg_opcode =? 16)).
Definition inflated_too_big (max_msg_size len : N) : bool := ((negb (max_msg_size =? 0)) && (max_msg_size <? len)).
Definition close_code_bad (code : N) : bool := ((4999 <? code) || ((code <? 3000) && (negb (ws_mem code ALLOWED_CLOSE_CODES)))).
(* a TEXT/BINARY frame while a fragmented message is open (RFC 6455 5.4); tested before anything is buffered *)
Definition data_in_message (opcode msg_opcode : N) : bool := ((negb (opcode =? 0)) && (negb (msg_opcode =? 16))).
Definition inflate_cap (max_msg_size : N) : N := if max_msg_size =? 0 then max_msg_size else (max_msg_size + 1).

(* WebSocketDataQueue shapes checked: FIFO append/popleft; _read_from_buffer hands out buffered messages before the stored exception *)
Definition queue_buffer_before_exception : bool := true.

(* feed_data latch shape checked: `if self._exc is not None: return True, data` / except Exception: self._exc = exc *)
Definition feed_data_latches : bool := true.
