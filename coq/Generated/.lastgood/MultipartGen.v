(* GENERATED from /repo by translator — do not edit; rewritten on every check run *)
From Coq Require Import NArith ZArith List Bool.
Import ListNotations.
Open Scope N_scope.

(* MultipartWriter.size: per part `total += int(...)`, then the closing delimiter; None as soon as a part
   is encoded (Content-Encoding / Content-Transfer-Encoding) or has no size *)
Definition part_size_formula (blen psize hlen : N) : N := (((((2 + blen) + 2) + psize) + hlen) + 2).
Definition closing_size_formula (blen : N) : N := ((2 + blen) + 4).
Definition size_none_when_encoded : bool := true.

(* MultipartWriter.write / as_bytes: open ++ boundary ++ open_end, headers, content, part_end; close ++ boundary ++ close_end *)
Definition frame_open : list N := [45; 45].
Definition frame_open_end : list N := [13; 10].
Definition frame_part_end : list N := [13; 10].
Definition frame_close : list N := [45; 45].
Definition frame_close_end : list N := [45; 45; 13; 10].

(* BodyPartReader *)
Definition chunk_size : N := 8192.
Definition boundary_len_formula (blen : N) : N := (blen + 2).
Definition content_eof_exceeded (n : N) : bool := (2 <? n).
Definition window_search_start (prevlen sublen : N) : N := (N.max 0 (prevlen - sublen)).
Definition delim_prefix : list N := [13; 10].
Definition first_chunk_strip : N := 2.
(* fill loop: `while len(chunk) < self._boundary_len`; overflow: `if len(chunk) > size` *)
Definition fill_more (chunklen blen : N) : bool := (chunklen <? blen).
Definition overflow (chunklen size : N) : bool := (size <? chunklen).
(* multipart._BASE64_CHARS *)
Definition base64_char (c : N) : bool := (c =? 43) || ((47 <=? c) && (c <=? 57)) || (c =? 61) || ((65 <=? c) && (c <=? 90)) || ((97 <=? c) && (c <=? 122)).
Definition max_boundary_len : N := 70.
Definition reader_boundary_prefix : list N := [45; 45].
Definition default_max_field_size : N := 8190.
Definition default_max_headers : N := 128.
(* _read_headers: `if len(lines) > self._max_headers`; read: `if len(data) > self._client_max_size` inside the loop *)
Definition too_many_headers (nlines maxh : N) : bool := (maxh <? nlines).
Definition over_client_max (datalen maxsize : N) : bool := (maxsize <? datalen).
(* read_chunk: `encoding and encoding.lower() == 'base64'`; _get_part_reader passes the parent's limits to a nested reader *)
Definition base64_token_case_insensitive : bool := true.
Definition nested_reader_inherits_limits : bool := true.
