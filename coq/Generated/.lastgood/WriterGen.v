(* GENERATED from /repo by translator — do not edit; rewritten on every check run *)
From Coq Require Import NArith ZArith List Bool.
Import ListNotations.
Open Scope N_scope.

(* http_writer._FORBIDDEN_HEADER_CHARS_RE = '[\\x00-\\x08\\x0a-\\x1f\\x7f]', used with .search *)
Definition forbidden_header_char (c : N) : bool := ((0 <=? c) && (c <=? 8)) || ((10 <=? c) && (c <=? 31)) || (c =? 127).

(* client_reqrep._CONTAINS_CONTROL_CHAR_RE = "[^-!#$%&'*+.^_`|~0-9a-zA-Z]", used with .search on the method *)
Definition method_nontoken_char (c : N) : bool := negb ((c =? 33) || (c =? 35) || (c =? 36) || (c =? 37) || (c =? 38) || (c =? 39) || (c =? 42) || (c =? 43) || (c =? 45) || (c =? 46) || ((48 <=? c) && (c <=? 57)) || ((65 <=? c) && (c <=? 90)) || (c =? 94) || (c =? 95) || (c =? 96) || ((97 <=? c) && (c <=? 122)) || (c =? 124) || (c =? 126)).

(* web_response.StreamResponse._set_status rejects a reason containing any of these *)
Definition reason_forbidden_chars : list N := [10; 13].

Definition MIN_PAYLOAD_FOR_WRITELINES : N := 2048.
