(* GENERATED from /repo by translator — do not edit; rewritten on every check run *)
From Coq Require Import NArith ZArith List Bool.
Import ListNotations.
Open Scope N_scope.

(* TOKENRE = "[0-9A-Za-z!\\#\\$%\\&'\\*\\+\\-\\.\\^_`\\|\\~]+"+ used with fullmatch (method, field names) *)
Definition tchar (c : N) : bool := (c =? 33) || (c =? 35) || (c =? 36) || (c =? 37) || (c =? 38) || (c =? 39) || (c =? 42) || (c =? 43) || (c =? 45) || (c =? 46) || ((48 <=? c) && (c <=? 57)) || ((65 <=? c) && (c <=? 90)) || (c =? 94) || (c =? 95) || (c =? 96) || ((97 <=? c) && (c <=? 122)) || (c =? 124) || (c =? 126).

(* _FIELD_VALUE_FORBIDDEN_CTL_RE = '[\\x00-\\x08\\x0a-\\x1f\\x7f]' used with search *)
Definition field_forbidden_ctl (c : N) : bool := ((0 <=? c) && (c <=? 8)) || ((10 <=? c) && (c <=? 31)) || (c =? 127).

(* VERSRE = HTTP/(\d)\.(\d), re.ASCII, fullmatch: transcribed structurally in Model/Http.v (parse_version) *)
Definition versre_is_http_d_dot_d : bool := true.

(* DIGITS = '\\d+' re.ASCII, fullmatch (Content-Length, status) *)
Definition dec_digit (c : N) : bool := ((48 <=? c) && (c <=? 57)).

(* HEXDIGITS = b'[0-9a-fA-F]+', re.fullmatch (chunk size) *)
Definition hex_digit (c : N) : bool := ((48 <=? c) && (c <=? 57)) || ((65 <=? c) && (c <=? 70)) || ((97 <=? c) && (c <=? 102)).

Definition singleton_headers : list (list N) := [[99; 111; 110; 116; 101; 110; 116; 45; 108; 101; 110; 103; 116; 104]; [99; 111; 110; 116; 101; 110; 116; 45; 108; 111; 99; 97; 116; 105; 111; 110]; [99; 111; 110; 116; 101; 110; 116; 45; 114; 97; 110; 103; 101]; [99; 111; 110; 116; 101; 110; 116; 45; 116; 121; 112; 101]; [101; 116; 97; 103]; [104; 111; 115; 116]; [109; 97; 120; 45; 102; 111; 114; 119; 97; 114; 100; 115]; [115; 101; 114; 118; 101; 114]; [116; 114; 97; 110; 115; 102; 101; 114; 45; 101; 110; 99; 111; 100; 105; 110; 103]; [117; 115; 101; 114; 45; 97; 103; 101; 110; 116]].

Definition empty_body_methods : list (list N) := [[72; 69; 65; 68]].

(* _REQUEST_TARGET_FORBIDDEN_RE = '[\\x00-\\x20\\x7f]' used with search on the request target *)
Definition target_forbidden (c : N) : bool := ((0 <=? c) && (c <=? 32)) || (c =? 127).

(* empty_body = code in EMPTY_BODY_STATUS_CODES or bool(code and method and (method in EMPTY_BODY_METHODS)); for a request code = 0 *)
Definition request_head_has_no_body : bool := false.

(* payload parser exceptions re-raised by feed_data: isinstance(underlying_exc, BadHttpMessage) and (not isinstance(underlying_exc, ContentEncodingError)) *)
Definition payload_framing_errors_all_fatal : bool := true.

(* if enc.isascii() and enc.lower() in {'gzip', 'deflate', 'br', 'zstd'}: encoding = enc.lower() *)
Definition content_encoding_lowered : bool := true.

(* strict parsing (SEP = CRLF): the length check on a buffered partial line does not count one trailing CR
   (HttpParser._tail: len(tail) - tail.endswith(CR); HttpPayloadParser._chunk_tail likewise); false = every
   buffered byte counts (len(tail) > max_line_length) *)
Definition tail_check_discounts_cr : bool := true.
Definition chunk_tail_check_discounts_cr : bool := true.

Definition default_max_line : N := 8190.
Definition default_max_headers : N := 128.
Definition default_max_field : N := 8190.
Definition MAX_MSG_QUEUE_SIZE : N := 32.
