(* GENERATED from /repo by translator — do not edit; rewritten on every check run *)
From Coq Require Import NArith ZArith List Bool.
Import ListNotations.
Open Scope N_scope.

(* web_protocol.MAX_MSG_QUEUE_SIZE *)
Definition MAX_MSG_QUEUE_SIZE : N := 32.

(* RequestHandler.__init__: self._msg_queue_resume_size = MAX_MSG_QUEUE_SIZE // 2 *)
Definition msg_queue_resume_size (maxq : N) : N := (maxq / 2).

(* HttpParser.feed_data: self._max_msg_queue_size and self._msg_in_flight >= self._max_msg_queue_size *)
Definition parser_queue_full (infl maxq : N) : bool := (0 <? maxq) && (maxq <=? infl).

(* HttpParser.message_consumed: if self._msg_in_flight > 0:     self._msg_in_flight -= 1 *)
Definition msg_consumed (infl : N) : N := if (0 <? infl) then infl - 1 else infl.

(* RequestHandler.data_received: len(self._messages) >= self._max_msg_queue_size  -> _pause_msg_queue_reading() *)
Definition proto_queue_full (nq maxq : N) : bool := (maxq <=? nq).

(* RequestHandler._resume_msg_queue_reading: if len(self._messages) >= self._max_msg_queue_size: return *)
Definition proto_stays_paused (nq maxq : N) : bool := (maxq <=? nq).

(* RequestHandler.start: self._msg_queue_paused and len(self._messages) <= self._msg_queue_resume_size  -> _resume_msg_queue_reading() *)
Definition proto_resume_mark (nq resume : N) : bool := (nq <=? resume).

(* data_received: a parse error is queued as ONE _ErrInfo(status=400) item *)
Definition parse_error_status : N := 400.

Definition timeout_status : N := 504.
Definition exception_status : N := 500.

Definition default_lingering_time : N := 10.
