(* GENERATED from /repo by translator — do not edit; rewritten on every check run *)
From Coq Require Import NArith ZArith List Bool.
Import ListNotations.
Open Scope N_scope.

(* WebSocketWriter._write_websocket_frame: first_byte = FIN | rsv | opcode; second byte = <len or marker> | mask_bit *)
Definition FIN_BIT : N := 128.
Definition MASK_BIT : N := 128.
(* if msg_length < LEN7_BOUND: 7-bit form; elif msg_length < LEN16_BOUND: marker MARK16 + EXT16_BYTES; else MARK64 + EXT64_BYTES *)
Definition LEN7_BOUND : N := 126.
Definition LEN16_BOUND : N := 65536.
Definition MARK16 : N := 126.
Definition MARK64 : N := 127.
Definition EXT16_BYTES : nat := 2.
Definition EXT64_BYTES : nat := 8.
Definition MASK_BYTES : nat := 4.
Definition CLOSE_CODE_BYTES : nat := 2.
Definition MSG_SIZE : N := 2 ^ 14.

(* WebSocketWriter.send_frame *)
Definition WS_CONTROL_FRAME_OPCODE : N := 8.
Definition WEBSOCKET_MAX_SYNC_CHUNK_SIZE : N := (16 * 1024).
(* `self._closing and not (opcode & WSMsgType.CLOSE)`: what a closing writer refuses *)
Definition closing_refuses (opcode : N) : bool := (N.land opcode 8 =? 0).
(* `not (compress or self.compress) or opcode >= WS_CONTROL_FRAME_OPCODE` (0 = None/0) *)
Definition send_plain (override shared opcode : N) : bool := (negb ((negb (override =? 0)) || (negb (shared =? 0)))) || (8 <=? opcode).
(* `len(message) <= WEBSOCKET_MAX_SYNC_CHUNK_SIZE`: compressed in the event loop, else in the executor under the shield *)
Definition send_sync (len : N) : bool := (len <=? (16 * 1024)).

(* both compressed paths: rsv argument; payload = (compress + flush(FULL if notakeover else SYNC)).removesuffix(WS_DEFLATE_TRAILING) *)
Definition RSV1_COMPRESSED : N := 64.
Definition QUEUE_LIMIT_FACTOR : N := 2.
(* feed_data: after `self._size += size`: pause when this holds and reading is not paused *)
Definition queue_pause_test (size limit : N) : bool := (limit <? size).
(* _read_from_buffer: after the pop and `self._size -= size`: resume when this holds and reading is paused *)
Definition queue_resume_test (size limit : N) : bool := (size <? limit).
Definition DEFLATE_TRAILING : list N := [0; 0; 255; 255].
(* _get_compressor shape checked: truthy per-message `compress` -> the shared compressor is dropped (`self._compressobj = None`) and a NEW ZLibCompressor(wbits=-compress) is used; else the shared one, created on demand with wbits=-self.compress *)
Definition override_uses_fresh_compressor : bool := true.
(* _websocket_mask_python shape checked: data[i] ^= mask[i % 4] through four strided translate() calls over the xor table *)
Definition mask_stride : nat := 4.
(* close(): payload = PACK_CLOSE_CODE(code) + message, opcode CLOSE; `_closing = True` in the finally *)
Definition close_payload_is_code_then_message : bool := true.
