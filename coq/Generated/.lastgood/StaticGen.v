(* GENERATED from /repo by translator — do not edit; rewritten on every check run *)
From Coq Require Import NArith ZArith List Bool.
Import ListNotations.
Open Scope N_scope.

(* web_request.BaseRequest.http_range: pattern = '^bytes=(\\d* )-(\\d* )$', re.findall(pattern, rng, re.ASCII)[0];
   `$` without re.MULTILINE also matches before one trailing LF *)
Definition range_prefix : list N := [98; 121; 116; 101; 115; 61].
Definition range_sep : N := 45.
(* the class repeated inside both groups *)
Definition range_digit (c : N) : bool := ((48 <=? c) && (c <=? 57)).

Definition range_end_allows_trailing_lf : bool := true.

(* suffix branch: `if end == 0: raise ValueError`, then start = -end, end = None *)
Definition suffix_zero_test (e : Z) : bool := ((e =? 0))%Z.
Definition suffix_start (e : Z) : Z := (- e)%Z.

(* closed range: end += 1 (inclusive -> exclusive), then `if start >= end: raise ValueError` *)
Definition end_adjust (e : Z) : Z := ((e + 1))%Z.
Definition range_empty_test (s e : Z) : bool := ((e <=? s))%Z.

(* If-Range gate: `ifrange is None or file_mtime <= ifrange.timestamp()` (both in the same unit here) *)
Definition ifrange_test (file_mtime ifrange : Z) : bool := (file_mtime <=? ifrange)%Z.

(* tail request: `start < 0 and end is None` *)
Definition tail_test (start : Z) (end_is_none : bool) : bool := ((start <? 0) && end_is_none)%Z.
Definition tail_start (start file_size : Z) : Z := ((start + file_size))%Z.
Definition tail_clamp (start : Z) : Z := (if (start <? 0) then 0 else start)%Z.
Definition tail_count (file_size start : Z) : Z := ((file_size - start))%Z.

(* count = min(end if end is not None else file_size, file_size) - start *)
Definition range_count (end_or_size file_size start : Z) : Z := (((Z.min end_or_size file_size) - start))%Z.

(* `if start >= file_size:` -> 416 with `bytes */size` *)
Definition unsat_test (start file_size : Z) : bool := ((file_size <=? start))%Z.

(* Content-Range of a 206: f"bytes {real_start}-{real_start + count - 1}/{file_size}" *)
Definition cr_lit1 : list N := [98; 121; 116; 101; 115; 32].
Definition cr_lit2 : list N := [45].
Definition cr_lit3 : list N := [47].
Definition cr_first (start count file_size : Z) : Z := (start)%Z.
Definition cr_last (start count file_size : Z) : Z := (((start + count) - 1))%Z.
Definition cr_total (start count file_size : Z) : Z := (file_size)%Z.
Definition cr_unsat_lit : list N := [98; 121; 116; 101; 115; 32; 42; 47].

Definition zero_count_test (count : Z) : bool := (count =? 0)%Z.

(* _sendfile_fallback / _seek_and_read: shape checked against the transcription in Model/Static.v *)
Definition fallback_shape_checked : bool := true.

Definition ST_PARTIAL : N := 206.
Definition ST_NOT_MODIFIED : N := 304.
Definition ST_FORBIDDEN : N := 403.
Definition ST_NOT_FOUND : N := 404.
Definition ST_PRECONDITION_FAILED : N := 412.
Definition ST_RANGE_NOT_SATISFIABLE : N := 416.

(* web_fileresponse.ENCODING_EXTENSIONS, in lookup order: (extension, content-coding) *)
Definition encoding_extensions : list (list N * list N) := [([46; 98; 114], [98; 114]); ([46; 103; 122], [103; 122; 105; 112])].

(* web_urldispatcher._unquote_path_safe: value.replace("%2F", "/").replace("%25", "%") *)
Definition unquote_steps : list (list N * list N) := [([37; 50; 70], [47]); ([37; 50; 53], [37])].

(* StaticResource._handle / _resolve_path_to_response / resolve: statement shapes checked *)
Definition dispatcher_shape_checked : bool := true.

