(* GENERATED from /repo by translator — do not edit; rewritten on every check run *)
From Coq Require Import NArith ZArith List Bool.
Import ListNotations.
Open Scope N_scope.

(* web_app.CleanupContext._on_startup: `self._exits.append(ctx)` comes after `await ctx.__aenter__()` *)
Definition record_after_enter : bool := true.

(* web_app.CleanupContext._on_cleanup: iterates `reversed(self._exits)`; errors are collected by try/except *)
Definition exits_reversed : bool := true.
Definition exit_errors_collected : bool := true.

(* web_runner.BaseRunner.cleanup after the sites are stopped: 1 = Server.pre_shutdown, 2 = on_shutdown signal,
   3 = Server.shutdown(timeout) (only when setup succeeded), 4 = _cleanup_server (always) *)
Definition runner_cleanup_seq : list N := [1; 2; 3; 4].
(* the phases are chained by try/finally: a later phase still runs when an earlier one raised, and the
   exception leaving cleanup() is the last one raised *)
Definition runner_cleanup_finally : bool := true.

(* web._run_app: `await runner.setup()` is the first statement inside try/finally: runner.cleanup() *)
Definition run_app_setup_in_try : bool := true.

(* web_protocol.RequestHandler.shutdown: number of `async with ceil_timeout(timeout)` waits before the task is cancelled *)
Definition shutdown_phases : N := 2.

(* web_protocol.RequestHandler.data_received returns at once when close() or force_close() was called (true), or still
   feeds the rest of the body of the request in flight while the transport is open (false) *)
Definition drops_data_when_closing : bool := false.

(* web_protocol.RequestHandler.close() closes the transport when the connection is idle (waiter pending) *)
Definition close_closes_idle : bool := true.

(* web_protocol.RequestHandler.shutdown(timeout): a non-positive timeout skips both waits (true) or, through
   ceil_timeout, means no deadline at all (false) *)
Definition nonpositive_timeout_no_wait : bool := true.

(* helpers.ceil_timeout: deadlines of delays strictly greater than this many ms are rounded up to a whole second;
   a delay <= 0 (or None) means no deadline *)
Definition ceil_threshold_ms : Z := 5000%Z.
