#!/usr/bin/env python3
"""Regenerate MANIFEST.json from the per-property descriptions below (kept in one place so it stays valid)."""
import json, os
HERE = os.path.dirname(os.path.abspath(__file__))
ALL = [f"C{i:02d}" for i in range(1, 21)]
import glob
desc = {}
for f in sorted(glob.glob(os.path.join(HERE, "manifest_checks.d", "C*.json"))):
    desc[os.path.basename(f)[:-5]] = json.load(open(f))
# merged, human-readable copy of the per-property known-findings files (never written by checks)
kf = []
for f in sorted(glob.glob(os.path.join(HERE, "known_findings.d", "C*.json"))):
    kf += json.load(open(f))
json.dump(kf, open(os.path.join(HERE, "known_findings.json"), "w"), indent=1)
checks, na = [], []
for p in ALL:
    d = desc.get(p)
    if d and d.get("claimed"):
        checks.append({
            "property_id": p,
            "quick_cmd": f"./check {p} --tier quick",
            "thorough_cmd": f"./check {p} --tier thorough",
            "evidence_file": f"/verif/evidence/{p}.json",
            "replay_cmd_template": f"./check {p} --replay {{path}}",
            "engine": "coq-proof+correspondence",
            "level_claimed": {"category": "proof", "text": d["text"], "design_ref": d.get("design_ref", f"DESIGN.md §6 {p}")},
            "level_note": d["note"],
            "technique": d.get("technique", "machine-checked proof in Coq 8.16.1 about an executable Gallina model; model tied to /repo by a source translator and differential correspondence; property oracle searches the implementation for a failing input"),
        })
    else:
        na.append({"property_id": p, "reason": (d or {}).get("reason", "not built yet in this round (machinery pending; see DESIGN.md §8) — not claimed")})
m = {
    "version": 1,
    "setup_cmd": "./setup.sh",
    "hooks": {
        "guard": "AIOHTTP_VERIF",
        "enable": "none needed: all instrumentation is harness-side (subclasses / monkeypatch wrappers installed by /verif/harness); /repo carries no hook code",
        "baseline_off_cmd": "cd /repo && /venv/bin/python -m pytest -ra -q -p no:cacheprovider --timeout=900 --continue-on-collection-errors --junitxml=/tmp/aiohttp-baseline.junit.xml",
        "source_commits": [],
        "add_only": True,
    },
    "engines": [{
        "name": "coq-proof+correspondence", "path": "/verif/check",
        "serves_properties": [c["property_id"] for c in checks],
        "kind_free_text": "Coq 8.16.1 theorems over executable Gallina models (coq/), translator (translator/) regenerating data-like model parts from /repo on every run, extracted OCaml or vm_compute model runners compared with the real aiohttp code in-process (harness/), property oracles for counterexample search",
    }],
    "checks": checks,
    "notes": "Every check: regenerate coq/Generated from /repo, full .vo build of the property's closure, recompile Props/<id>.v capturing Print Assumptions, admit/axiom gate, model-vs-implementation correspondence on PRNG(VERIF_SEED) cases, property oracle on implementation output, known_findings.json handling. See DESIGN.md.",
    "not_applicable": na,
}
json.dump(m, open(os.path.join(HERE, "MANIFEST.json"), "w"), indent=1)
print("claimed:", [c["property_id"] for c in checks])
